package main

import (
	"fmt"
	"strings"

	"verif/internal/doc"
	"verif/internal/gen"
)

func init() {
	generators["C07"] = genC07
	generators["C08"] = genC08
	generators["C09"] = genC09
	generators["C14"] = genC14
	generators["C15"] = genC15
	generators["C17"] = genC17
	generators["C10"] = genC10
	generators["C06"] = genC06
	generators["C04"] = genC04
}

// valueDocs: documents whose string-values are numeric, non-numeric, empty, padded
func valueDocs(o *cw) []*dref {
	srcs := []string{
		`a(@x=1,@y=2,b(@x=1),b(@x=3,b(@y=2)),c("1"),c("2"),c(" 3 "),c("x"))`,
		`a(b("1"),b("2"),b("3"),c("1.5"),c("-2"),c(""),d("abc"),d(" 7"),d("1e3"),e)`,
		`r(n("10"),n("20"),n("x"),m("0"),m("-0"),m("0.5"),s("Infinity"),s("NaN"),@x=5,@y=z)`,
		`a(@x=07,b(@x=7.0,"7"),b(@x=" 7 ","seven"),b("7",b("8")),"t",#c)`,
		`a`,
		`a(b(c("1"),c("2")),b(c("2"),c("3")),b,"1")`,
	}
	var ds []*dref
	for _, s := range srcs {
		ds = append(ds, o.doc(doc.Parse(s), false))
	}
	for i := 0; i < 2*o.tier; i++ {
		ds = append(ds, o.doc(gen.RandomTree(o.r, 8+o.r.Intn(10), []string{"a", "b", "c"}, 60), false))
	}
	return ds
}

var numLits = []string{"0", "1", "2", "3", "10", "1.5", "0.5", "2.50", ".5", "7", "100", "0.1", "1000000", "3.0"}
var strLits = []string{"", "1", "2", "x", "abc", " 3 ", "1.5", "-2", "7", " ", "a b", "1e3", "Infinity", "NaN", "-", "0", "-0"}

func (g *G) numExpr() gen.Ex {
	switch g.r.Intn(9) {
	case 0:
		return gen.Bin{Op: "div", L: num(0), R: num(0)} // NaN
	case 1:
		return gen.Bin{Op: "div", L: num(1), R: num(0)} // +Inf
	case 2:
		return gen.Bin{Op: "div", L: gen.Neg{E: num(1)}, R: num(0)} // -Inf
	case 3:
		return gen.Neg{E: gen.Num{Text: g.r.Pick(numLits)}}
	case 4:
		return gen.Call{Name: "count", Args: []gen.Ex{g.flatPath(2, 0)}}
	default:
		return gen.Num{Text: g.r.Pick(numLits)}
	}
}

func (g *G) strExpr() gen.Ex { return gen.Lit{S: g.r.Pick(strLits)} }

func (g *G) nodeExpr() gen.Ex {
	p := g.flatPath(3, 20)
	if g.r.Chance(30) {
		p.Steps = append([]gen.Step{{Axis: "child", Test: "*"}}, p.Steps...)
	}
	// names used by valueDocs
	for i := range p.Steps {
		if p.Steps[i].Axis != "attribute" && g.r.Chance(50) {
			p.Steps[i].Test = g.r.Pick([]string{"a", "b", "c", "d", "n", "m", "s", "*", "text()"})
		}
	}
	return p
}

func (g *G) boolExpr() gen.Ex {
	switch g.r.Intn(5) {
	case 0:
		return gen.Call{Name: "true"}
	case 1:
		return gen.Call{Name: "false"}
	case 2:
		return gen.Call{Name: "not", Args: []gen.Ex{g.nodeExpr()}}
	case 3:
		return gen.Call{Name: "boolean", Args: []gen.Ex{g.anyOperand()}}
	default:
		return gen.Bin{Op: "=", L: g.numExpr(), R: g.numExpr()}
	}
}

func (g *G) anyOperand() gen.Ex {
	switch g.r.Intn(4) {
	case 0:
		return g.numExpr()
	case 1:
		return g.strExpr()
	case 2:
		return g.nodeExpr()
	default:
		return gen.Paren{E: g.boolExpr()}
	}
}

var cmpOps = []string{"=", "!=", "<", "<=", ">", ">="}

// C07: comparisons and boolean operators
func genC07(o *cw) {
	g := &G{r: o.r, predAxes: flatAxes}
	ds := valueDocs(o)
	emit := func(e gen.Ex, tag string) {
		o.features(e)
		s := gen.Str(e, both[o.r.Intn(2)])
		d := ds[o.r.Intn(len(ds))]
		o.c("evalall", d, "/", "-", s, "", tag)
		if o.r.Chance(30) {
			// the same comparison as a predicate
			o.c("selall", d, "/", "-", "descendant-or-self::node()["+s+"]", "", tag+"-pred")
		}
	}
	cds := ctxDocs(o)
	o.emitCtxRestore(g, cds, "bool", 150*o.tier, false)
	o.emitCtxRestore(g, cds, "cmp", 150*o.tier, false)
	// node-set against node-set / number / string on a document where the first nodes have no partner
	setPaths := []string{"/r/a", "/r/b", "/r/c", "/r/d", "/r/m/n", "a", "b", "c", "d", "m/n", "*", "/r/*"}
	for i := 0; i < 40*o.tier; i++ {
		for _, op := range cmpOps {
			l, r := setPaths[o.r.Intn(len(setPaths))], setPaths[o.r.Intn(len(setPaths))]
			if op == "=" || op == "!=" {
				o.c("evalall", cds[2], "/", "-", l+" "+op+" "+r, "", "set-set-doc")
				o.c("evalall", cds[2], "/", "-", l+" "+op+" '"+o.r.Pick([]string{"7", "n/a", "3", "x"})+"'", "", "set-str-doc")
			}
			o.c("evalall", cds[2], "/", "-", l+" "+op+" "+o.r.Pick([]string{"7", "3", "10", "0"}), "", "set-num-doc")
			o.c("evalall", cds[2], "/", "-", o.r.Pick([]string{"7", "3", "10", "0"})+" "+op+" "+l, "", "num-set-doc")
			o.c("evalall", cds[2], "/", "-", "count(/r/*["+l+" "+op+" "+o.r.Pick([]string{"7", "3", "10"})+"])", "", "set-num-pred")
		}
	}
	// number against a string that Go's strconv accepts but the XPath number syntax does not
	// (exponent, sign, Inf/NaN spellings, hex, underscores), all six operators, both orientations
	for _, op := range cmpOps {
		for _, n := range []string{"1000", "5", "1", "0", "16", "(0 - 1)", "(1 div 0)"} {
			for _, sv := range []string{"1e3", "+5", "Infinity", "-Infinity", "inf", "NaN", "1E3", "0x10", "1_000", " 5 ", "5.", ".5", "5e0", "+Inf", "1e", "--1", "1 000"} {
				o.c("evalall", ds[0], "/", "-", n+" "+op+" '"+sv+"'", "", "num-gofloat-str")
				o.c("evalall", ds[0], "/", "-", "'"+sv+"' "+op+" "+n, "", "gofloat-str-num")
			}
		}
	}
	rounds := 12 * o.tier
	for k := 0; k < rounds; k++ {
		for _, op := range cmpOps {
			emit(gen.Bin{Op: op, L: g.numExpr(), R: g.numExpr()}, "num-num")
			emit(gen.Bin{Op: op, L: g.nodeExpr(), R: g.numExpr()}, "set-num")
			emit(gen.Bin{Op: op, L: g.numExpr(), R: g.nodeExpr()}, "num-set")
			if op == "=" || op == "!=" {
				emit(gen.Bin{Op: op, L: g.strExpr(), R: g.strExpr()}, "str-str")
				emit(gen.Bin{Op: op, L: g.nodeExpr(), R: g.strExpr()}, "set-str")
				emit(gen.Bin{Op: op, L: g.strExpr(), R: g.nodeExpr()}, "str-set")
				emit(gen.Bin{Op: op, L: g.nodeExpr(), R: g.nodeExpr()}, "set-set")
				emit(gen.Bin{Op: op, L: g.strExpr(), R: g.numExpr()}, "str-num")
				emit(gen.Bin{Op: op, L: g.numExpr(), R: g.strExpr()}, "num-str")
			}
		}
		for _, op := range []string{"and", "or"} {
			for j := 0; j < 6; j++ {
				emit(gen.Bin{Op: op, L: g.anyOperand(), R: g.anyOperand()}, "boolop")
			}
			emit(gen.Bin{Op: op, L: gen.Bin{Op: g.r.Pick([]string{"and", "or"}), L: g.anyOperand(), R: g.anyOperand()}, R: g.anyOperand()}, "boolop3")
		}
		emit(gen.Call{Name: "not", Args: []gen.Ex{g.boolExpr()}}, "not")
		emit(gen.Call{Name: "not", Args: []gen.Ex{g.nodeExpr()}}, "not-set")
		emit(gen.Call{Name: "boolean", Args: []gen.Ex{g.anyOperand()}}, "boolean")
		emit(g.boolExpr(), "bool")
	}
	rareC07(o)
	rareC07b(o)
	for _, e := range rarePreds() {
		o.c("evalall", rareDoc(o, false), "/", "-", e, "", "rare-names")
	}
}

func (g *G) aexp(depth int) gen.Ex {
	if depth <= 0 || g.r.Chance(25) {
		switch g.r.Intn(8) {
		case 0:
			return gen.Call{Name: "count", Args: []gen.Ex{g.nodeExpr()}}
		case 1:
			return gen.Call{Name: "sum", Args: []gen.Ex{gen.Path{Steps: []gen.Step{{Axis: "child", Test: "*"}, {Axis: "child", Test: g.r.Pick([]string{"b", "c", "n", "m"})}}}}}
		case 2:
			return gen.Call{Name: "number", Args: []gen.Ex{g.r.Pick1(g.strExpr(), g.nodeExpr())}}
		case 3:
			return gen.Call{Name: "string-length", Args: []gen.Ex{g.nodeExpr()}}
		case 4:
			// longer literals: exact decimal conversion
			return gen.Num{Text: fmt.Sprintf("%d.%d", g.r.Intn(100000), g.r.U64()%1000000000000)}
		case 5:
			return gen.Num{Text: fmt.Sprintf("%d", g.r.U64()%100000000000000000)}
		default:
			return gen.Num{Text: g.r.Pick(numLits)}
		}
	}
	switch g.r.Intn(10) {
	case 0:
		return gen.Neg{E: g.aexp(depth - 1)}
	case 1:
		return gen.Call{Name: "floor", Args: []gen.Ex{g.aexp(depth - 1)}}
	case 2:
		return gen.Call{Name: "ceiling", Args: []gen.Ex{g.aexp(depth - 1)}}
	case 3:
		// mod on non-negative integers with a non-zero divisor
		return gen.Bin{Op: "mod", L: num(g.r.Intn(50)), R: num(1 + g.r.Intn(9))}
	case 4:
		return gen.Paren{E: g.aexp(depth - 1)}
	default:
		op := g.r.Pick([]string{"+", "-", "*", "div", "+", "-", "*", "div", "mod"})
		l, r := g.aexp(depth-1), g.aexp(depth-1)
		if op == "mod" {
			return gen.Bin{Op: "mod", L: num(g.r.Intn(1000)), R: num(1 + g.r.Intn(20))}
		}
		// keep the printed grouping equal to the tree
		if b, ok := r.(gen.Bin); ok && b.Op != "" {
			r = gen.Paren{E: r}
		}
		if b, ok := l.(gen.Bin); ok && (op == "*" || op == "div") && (b.Op == "+" || b.Op == "-") {
			l = gen.Paren{E: l}
		}
		return gen.Bin{Op: op, L: l, R: r}
	}
}

// C08: arithmetic, numeric functions, number <-> string
func genC08(o *cw) {
	g := &G{r: o.r, predAxes: flatAxes}
	ds := valueDocs(o)
	for i := 0; i < 900*o.tier; i++ {
		d := 4
		if o.tier > 1 && o.r.Chance(30) {
			d = 6
		}
		e := g.aexp(d)
		o.features(e)
		s := gen.Str(e, both[i%2])
		dd := ds[o.r.Intn(len(ds))]
		id := o.c("eval", dd, "/0", "-", s, "", "arith")
		if id != "" && o.r.Chance(40) {
			// string() of the same value; compared only for finite |x| < 10^6 (guard = the numeric case)
			o.c("eval", dd, "/0", "-", "string("+s+")", "", "tostring", "guard="+id)
		}
	}
	cds := ctxDocs(o)
	o.emitCtxRestore(g, cds, "arith", 150*o.tier, false)
	o.emitStatefulArgs(g, cds, "numeric", 25*o.tier)
	// arithmetic inside predicates over many candidates: operands that depend on the candidate
	ctxOps := []string{"..", "parent::*", "ancestor::*", ".", "@v", "@k", "b", "n", "count(*)", "count(../*)", "string-length(.)"}
	for i := 0; i < 120*o.tier; i++ {
		a, b := ctxOps[o.r.Intn(len(ctxOps))], ctxOps[o.r.Intn(len(ctxOps))]
		if o.r.Chance(50) {
			b = o.r.Pick([]string{"1", "2", "0.5"})
		}
		op := o.r.Pick([]string{"+", "-", "*", "div", "mod"})
		rel := o.r.Pick([]string{">", "<", "=", ">=", "!="})
		e := a + " " + op + " " + b
		if o.r.Chance(30) {
			e = "-" + a + " " + op + " " + b
		}
		d := cds[o.r.Intn(len(cds))]
		o.c("selall", d, "/", "-", "//*["+e+" "+rel+" "+o.r.Pick([]string{"3", "2", "0", "4"})+"]", "", "arith-in-pred")
		o.c("evalall", d, "/", "-", "sum(//*["+e+" "+rel+" 3])", "", "arith-in-pred")
		o.c("evalall", d, "/", "-", e, "", "arith-ctx")
	}
	// white space around numbers: only XML white space is trimmed
	for _, ws := range []string{" ", "\t", "\n", "\r", "\f", "\v", "\u00a0", "\u0085", "\u2003", "\u3000", "\u200b"} {
		w := strings.NewReplacer("\\t", "\t", "\\n", "\n", "\\r", "\r", "\\f", "\f", "\\v", "\v", "\\u00a0", "\u00a0", "\\u0085", "\u0085", "\\u2003", "\u2003", "\\u3000", "\u3000", "\\u200b", "\u200b").Replace(ws)
		for _, body := range []string{"12", "-1.5", ".5"} {
			o.c("num", nil, "/", "parse", w+body, "", "number-ws")
			o.c("num", nil, "/", "parse", body+w, "", "number-ws")
			o.c("num", nil, "/", "parse", w+body+w+w, "", "number-ws")
		}
	}
	// NaN / infinity propagation, number() of strings and node-sets
	specials := []string{"0 div 0", "1 div 0", "-1 div 0", "0", "-0", "1", "2.5", "number('x')", "number(zz)", "number('')", "number(' 12 ')", "number('-1.5')", "number('1e3')", "number('+1')", "number('.5')", "number('5.')", "number('--1')", "number('1 2')"}
	for _, a := range specials {
		o.c("eval", ds[0], "/0", "-", a, "", "special")
		o.c("eval", ds[0], "/0", "-", "string("+a+")", "", "special-string")
		o.c("eval", ds[0], "/0", "-", "-("+a+")", "", "special-neg")
		o.c("eval", ds[0], "/0", "-", "floor("+a+")", "", "special-floor")
		o.c("eval", ds[0], "/0", "-", "ceiling("+a+")", "", "special-ceiling")
		for _, b := range specials[:7] {
			for _, op := range []string{"+", "-", "*", "div"} {
				o.c("eval", ds[0], "/0", "-", "("+a+") "+op+" ("+b+")", "", "special-"+op)
			}
		}
	}
	// decimal -> double and double -> decimal against strconv, through the engine
	for i := 0; i < 1500*o.tier; i++ {
		var s string
		switch o.r.Intn(6) {
		case 0:
			s = fmt.Sprintf("%d", o.r.U64()>>uint(o.r.Intn(64)))
		case 1:
			s = fmt.Sprintf("%d.%d", o.r.U64()>>uint(o.r.Intn(64)), o.r.U64()>>uint(o.r.Intn(64)))
		case 2:
			s = fmt.Sprintf("0.%s%d", strings.Repeat("0", o.r.Intn(30)), o.r.U64()>>uint(o.r.Intn(64)))
		case 3:
			s = fmt.Sprintf("%d%s", o.r.U64(), strings.Repeat("0", o.r.Intn(300)))
		case 4:
			s = fmt.Sprintf("-%d.%d", o.r.Intn(1000), o.r.Intn(1000))
		default:
			// ties: x + half an ulp written out
			s = fmt.Sprintf("%d", 9007199254740992+uint64(o.r.Intn(64)))
		}
		o.c("num", nil, "/", "parse", s, "", "dec2bin")
	}
	for i := 0; i < 1500*o.tier; i++ {
		var bits uint64
		switch o.r.Intn(5) {
		case 0:
			bits = o.r.U64()
		case 1:
			bits = o.r.U64() & 0x000FFFFFFFFFFFFF // subnormals
		case 2:
			bits = uint64(1023+o.r.Intn(60)-30)<<52 | (o.r.U64() & 0x000FFFFFFFFFFFFF)
		case 3:
			bits = uint64(o.r.Intn(2047)) << 52 // powers of two
		default:
			bits = uint64(1023+o.r.Intn(20))<<52 | (o.r.U64()&0xFFFFF)<<32
		}
		o.c("fmt", nil, "/", "-", fmt.Sprintf("%016x", bits), "", "bin2dec")
	}
	rareC08(o)
}

func (r2 *G) dummy() {}

// C09: string functions
var alphabet = []string{"", "a", "ab", "abc", "abcabc", " ", "  a  b ", "a b", "-", "a-b", "1", "12345", "AbC", "xyzzy", "\t a \n", "ba", "c", "bc", "aaa", "a\tb", "a \n\nb", "a\r\nb c", "\ta\t\tb\n"}

func (g *G) sExpr(depth int) gen.Ex {
	if depth <= 0 || g.r.Chance(30) {
		if g.r.Chance(25) {
			return g.nodeExpr()
		}
		return gen.Lit{S: g.r.Pick(alphabet)}
	}
	s := func() gen.Ex { return g.sExpr(depth - 1) }
	// second arguments of contains & co must be strings (the engine complains otherwise)
	strOnly := func() gen.Ex {
		if g.r.Chance(50) {
			return gen.Lit{S: g.r.Pick(alphabet)}
		}
		return gen.Call{Name: "string", Args: []gen.Ex{s()}}
	}
	n := func() gen.Ex {
		return gen.Num{Text: g.r.Pick([]string{"0", "1", "2", "3", "4", "7", "1.4", "1.5", "1.6", "2.5", "0.5", "100", "1000000"})}
	}
	nn := func() gen.Ex {
		if g.r.Chance(30) {
			return gen.Neg{E: n()}
		}
		return n()
	}
	switch g.r.Intn(14) {
	case 0:
		return gen.Call{Name: "concat", Args: []gen.Ex{s(), s()}}
	case 1:
		return gen.Call{Name: "concat", Args: []gen.Ex{s(), s(), s()}}
	case 2:
		return gen.Call{Name: "substring-before", Args: []gen.Ex{s(), s()}}
	case 3:
		return gen.Call{Name: "substring-after", Args: []gen.Ex{s(), s()}}
	case 4:
		return gen.Call{Name: "substring", Args: []gen.Ex{s(), nn()}}
	case 5, 6:
		return gen.Call{Name: "substring", Args: []gen.Ex{s(), nn(), nn()}}
	case 7:
		return gen.Call{Name: "normalize-space", Args: []gen.Ex{s()}}
	case 8:
		return gen.Call{Name: "translate", Args: []gen.Ex{strOnly(), gen.Lit{S: g.r.Pick([]string{"abc", "ab", "a", "", "aab", " "})}, gen.Lit{S: g.r.Pick([]string{"xyz", "x", "", "XY", "-"})}}}
	case 9:
		return gen.Call{Name: "lower-case", Args: []gen.Ex{strOnly()}}
	case 10:
		return gen.Call{Name: "string", Args: []gen.Ex{s()}}
	case 11:
		return gen.Call{Name: "string-join", Args: []gen.Ex{g.nodeExpr(), gen.Lit{S: g.r.Pick([]string{",", "", "--"})}}}
	default:
		return gen.Call{Name: "string", Args: []gen.Ex{gen.Call{Name: g.r.Pick([]string{"contains", "starts-with", "ends-with"}), Args: []gen.Ex{s(), strOnly()}}}}
	}
}

func genC09(o *cw) {
	g := &G{r: o.r, predAxes: flatAxes}
	ds := valueDocs(o)
	ds = append(ds, o.doc(doc.Parse(`a(b("abc"),b("  a  b "),b(""),c("12345"),c("AbC"),@x=ab,d(b("x"),"y"))`), false))
	for i := 0; i < 1100*o.tier; i++ {
		d := 1 + o.r.Intn(4)
		var e gen.Ex
		switch o.r.Intn(5) {
		case 0:
			e = gen.Call{Name: "string-length", Args: []gen.Ex{g.sExpr(d - 1)}}
		case 1:
			e = gen.Call{Name: g.r.Pick([]string{"contains", "starts-with", "ends-with"}), Args: []gen.Ex{g.sExpr(d - 1), gen.Lit{S: g.r.Pick(alphabet)}}}
		default:
			e = g.sExpr(d)
		}
		o.features(e)
		o.c("evalall", ds[o.r.Intn(len(ds))], "/", "-", gen.Str(e, both[i%2]), "", "rand")
	}
	cds := ctxDocs(o)
	o.emitCtxRestore(g, cds, "string", 120*o.tier, false)
	o.emitStatefulArgs(g, cds, "string", 25*o.tier)
	// translate with repeated characters in the second argument
	for _, a := range []string{"abcabc", "aabbcc", "bar", ""} {
		for _, src := range []string{"aba", "aab", "abca", "aa", "bab", "abcabc"} {
			for _, dst := range []string{"xyz", "x", "", "xy", "xyzw"} {
				o.c("eval", ds[0], "/", "-", fmt.Sprintf("translate('%s','%s','%s')", a, src, dst), "", "translate-repeat")
			}
		}
	}
	// substring sweep: strings of length <= 4 x starts x lengths
	starts := []string{"-3", "-1", "-0.5", "0", "0.4", "0.5", "0.6", "1", "1.4", "1.5", "1.6", "2", "2.5", "3", "4", "5", "100"}
	strs := []string{"", "a", "ab", "abc", "abcd"}
	if o.tier > 1 {
		strs = append(strs, "abcde", "12345", "a b c")
	}
	for _, s := range strs {
		for _, a := range starts {
			o.c("eval", ds[0], "/", "-", fmt.Sprintf("substring('%s', %s)", s, a), "", "substring2")
			for _, l := range starts {
				o.c("eval", ds[0], "/", "-", fmt.Sprintf("substring('%s', %s, %s)", s, a, l), "", "substring3")
			}
		}
	}
	for _, a := range []string{"0 div 0", "1 div 0", "-1 div 0"} {
		for _, l := range []string{"0 div 0", "1 div 0", "-1 div 0", "2"} {
			o.c("eval", ds[0], "/", "-", fmt.Sprintf("substring('12345', %s, %s)", a, l), "", "substring-nonfinite")
			o.c("eval", ds[0], "/", "-", fmt.Sprintf("substring('12345', %s, %s)", l, a), "", "substring-nonfinite")
		}
		o.c("eval", ds[0], "/", "-", fmt.Sprintf("substring('12345', %s)", a), "", "substring-nonfinite")
	}
	rareC09(o)
}

// nsDocs: elements and attributes in 0..3 namespaces under varying prefixes
func nsDocs(o *cw) [][2]*dref {
	mk := func() *doc.Node {
		root := doc.Parse(`books(book(@id=1,"1"),b:book(@b:id=7,@id=8,"2"),c:book(@x:id=9,"3"),d:book("4"),book("5"),b:other(b:book("6"),x:book("7")),b:book(@b:id=3,@id=4,"8"),b:book("9"),"t")`)
		bs := root.Children[0]
		set := func(n *doc.Node, ns string) { n.NS = ns }
		set(bs.Children[1], "ns1")
		bs.Children[1].Attrs[0].NS = "ns1"
		set(bs.Children[2], "ns1") // same URI under another prefix
		bs.Children[2].Attrs[0].NS = "ns2"
		set(bs.Children[3], "ns2")
		set(bs.Children[4], "ns1") // default namespace: no prefix, URI ns1
		set(bs.Children[5], "ns3")
		set(bs.Children[5].Children[0], "ns3")
		set(bs.Children[5].Children[1], "ns2")
		// URIs that differ from ns1 in letter case only are DIFFERENT namespaces
		set(bs.Children[6], "NS1")
		bs.Children[6].Attrs[0].NS = "Ns1"
		set(bs.Children[7], "nS1")
		return root
	}
	var out [][2]*dref
	out = append(out, [2]*dref{o.doc(mk(), false), o.doc(mk(), true)})
	// random namespace decoration
	for i := 0; i < 2*o.tier; i++ {
		build := func(seed uint64) *doc.Node {
			r := gen.NewRand(seed)
			root := gen.RandomTree(r, 8+r.Intn(8), []string{"a", "b"}, 40)
			var walk func(n *doc.Node)
			pre := []string{"", "", "p", "q", "x"}
			uri := []string{"", "u1", "u2", "u3", "U1", "u1", "u2"}
			walk = func(n *doc.Node) {
				if n.Name != "" {
					n.Prefix = r.Pick(pre)
					n.NS = r.Pick(uri)
				}
				for _, a := range n.Attrs {
					a.Prefix = r.Pick(pre)
					a.NS = r.Pick(uri)
				}
				for _, c := range n.Children {
					walk(c)
				}
			}
			walk(root)
			return root
		}
		sd := o.r.U64()
		out = append(out, [2]*dref{o.doc(build(sd), false), o.doc(build(sd), true)})
	}
	return out
}

// C14: name tests, namespaces, name functions
func genC14(o *cw) {
	pairs := nsDocs(o)
	// (a prefix bound to the EMPTY namespace URI is still namespace-qualified)
	maps := []string{"-", "=", "=b:ns1", "=x:ns1", "=b:ns2", "=y:ns1", "=b:ns1,x:ns2,c:ns3", "=p:u1,q:u2", "=p:u2,x:u1", "=q:u3", "=b:", "=p:", "=x:,p:u1,b:", "=:ns1", "=:u1,p:u2", "=:", "=p:u1,pp:u2,ppp:u3,b:ns1,bb:ns2,x:ns2,y:ns3,z:u1,q:u2,c:ns1,d:ns2,e:u3", "=pp:u1,p:u2", "=b:ns2,bb:ns1", "=b:NS1,p:U1", "=b:Ns1,x:nS1,p:u1,q:U1"}
	names := []string{"book", "b:book", "c:book", "x:book", "d:book", "y:book", "*", "b:*", "x:*", "other", "b:other", "a", "b", "p:a", "q:a", "x:b", "p:b", "p:*", "pp:a", "bb:book", "pp:*", "ppp:b"}
	attrs := []string{"id", "b:id", "x:id", "*", "x", "p:x", "q:y", "x:x"}
	rot := 0
	for _, pr := range pairs {
		for _, d := range pr {
			for _, m := range maps {
				for _, ax := range allAxes {
					ts := names
					if ax == "attribute" {
						ts = attrs
					}
					for k := 0; k < 3; k++ {
						rot++
						t := ts[rot%len(ts)]
						var s string
						if ax == "attribute" {
							s = "//*/attribute::" + t
						} else {
							s = "//*/" + ax + "::" + t
						}
						o.feat["axis:"+ax]++
						o.c("sel", d, "/", m, s, "", "nametest")
					}
				}
				for _, t := range names {
					o.c("sel", d, "/", m, "//"+t, "", "nametest//")
					o.c("compile", nil, "/", m, "//"+t, "", "unbound?")
				}
				for _, t := range attrs {
					o.c("sel", d, "/", m, "//@"+t, "", "nametest@")
				}
			}
			// prefixed and unprefixed name tests mixed in one expression
			mixed := []string{"/books/b:book/@id", "//b:other/book", "//b:other/b:book | //book", "//b:book/@b:id | //@id", "/books/c:book/../book", "//x:book/following-sibling::book", "//p:a/b", "//p:a/a", "//q:b/p:a/b", "//a/p:b/a", "//p:a[b]/q:b", "//p:*/a"}
			for _, s := range mixed {
				for _, m := range maps[:4] {
					o.c("sel", d, "/", m, s, "", "mixed-prefix")
				}
			}
			for _, f := range []string{"name", "local-name", "namespace-uri"} {
				for _, arg := range []string{"(//*)[2]", "(*)[1]", "*/*[1]", "//*[2]", "/*/*", "(//@*)[last()]", "*[last()]", "/*/*/*[1]"} {
					o.c("evalall", d, "/", "-", f+"("+arg+")", "", f+"(stateful)")
					o.c("selall", d, "/", "-", "//*["+f+"("+arg+") = "+f+"("+arg+")]", "", f+"(stateful)-pred")
				}
				o.c("evalall", d, "/", "-", f+"()", "", f+"()")
				for _, arg := range []string{"*", "@*", "//b:book", "//x:book", "nonexist", "//@*", "//text()", "..", "//*[2]", "*/*"} {
					o.c("evalall", d, "/", "-", f+"("+arg+")", "", f+"(set)")
				}
				// a self step with a real name / kind test as argument: empty on the nodes that fail the test
				for _, arg := range []string{"self::b:book", "self::book", "self::c:book", "self::text()", "self::p:a", "self::a", "self::*", "self::node()", "self::q:*", "self::comment()"} {
					o.c("evalall", d, "/", "-", f+"("+arg+")", "", f+"(self-test)")
					o.c("sel", d, "/", "-", "//*["+f+"("+arg+") = "+f+"()]", "", f+"(self-test)-pred")
					o.c("sel", d, "/", "=b:ns1,p:u1,q:u2,c:ns2", "//node()["+f+"("+arg+") != '']", "", f+"(self-test)-pred")
				}
				o.c("sel", d, "/", "-", "//*["+f+"()='book']", "", f+"-pred")
				o.c("sel", d, "/", "-", "//*["+f+"()='ns1']", "", f+"-pred")
				o.c("sel", d, "/", "-", "//*["+f+"()='b:book']", "", f+"-pred")
			}
		}
	}
	for _, hasNS := range []bool{false, true} {
		rd := rareDoc(o, hasNS)
		for _, e := range rarePaths() {
			o.c("sel", rd, "/", "-", e, "", "rare-names")
		}
		for _, n := range rareElemNames {
			for _, f := range []string{"name", "local-name", "namespace-uri"} {
				o.c("eval", rd, "/", "-", f+"(//"+n+")", "", "rare-names-fn")
			}
			o.c("sel", rd, "/", "=p:u1", "//p:"+n, "", "rare-names")
			o.c("eval", rd, "/", "-", "count(//"+n+") + count(//*[name() = '"+n+"'])", "", "rare-names-fn")
		}
	}
}

// ---- C15: token-level expressions ----

var soupToks = []string{"a", "b", "*", "@x", "@*", ".", "..", "/", "//", "[", "]", "(", ")", ",", "|", "+", "-", "=", "!=", "<", "<=", ">", ">=",
	" and ", " or ", " div ", " mod ", "1", "2", "0", "1.5", "'s'", "''", "'1'", "$v", "text()", "node()", "comment()",
	"child::", "parent::", "ancestor::", "ancestor-or-self::", "descendant::", "descendant-or-self::", "following::", "following-sibling::", "preceding::", "preceding-sibling::", "self::", "attribute::", "namespace::",
	"count(", "sum(", "not(", "string(", "number(", "boolean(", "true()", "false()", "last()", "position()", "name(", "local-name(", "namespace-uri(", "concat(", "contains(", "starts-with(", "ends-with(",
	"substring(", "substring-before(", "substring-after(", "string-length(", "normalize-space(", "translate(", "floor(", "ceiling(", "round(", "reverse(", "string-join(", "lower-case(", "matches(", "replace(",
	"string()", "number()", "boolean()", "name()", "local-name()", "normalize-space()", "string-length()", "count()", "x:a", "processing-instruction()", "0 div 0", "1 div 0"}

func soup(r *gen.Rand, maxLen int) string {
	k := 1 + r.Intn(maxLen)
	var sb strings.Builder
	for j := 0; j < k; j++ {
		sb.WriteString(soupToks[r.Intn(len(soupToks))])
	}
	s := sb.String()
	if op, cl := strings.Count(s, "("), strings.Count(s, ")"); op > cl && r.Intn(3) > 0 {
		s += strings.Repeat(")", op-cl)
	}
	if op, cl := strings.Count(s, "["), strings.Count(s, "]"); op > cl && r.Intn(3) > 0 {
		s += strings.Repeat("]", op-cl)
	}
	return s
}

var fnNames = []string{"count", "sum", "not", "string", "number", "boolean", "true", "false", "last", "position", "name", "local-name", "namespace-uri", "concat", "contains", "starts-with", "ends-with",
	"substring", "substring-before", "substring-after", "string-length", "normalize-space", "translate", "floor", "ceiling", "round", "reverse", "string-join", "lower-case", "matches", "replace"}

func genC15(o *cw) {
	ds := valueDocs(o)[:4]
	ds = append(ds, handDocs(o, false)[6:9]...)
	seenExpr := map[string]bool{}
	emit := func(s string, tag string) {
		if seenExpr[s] {
			return
		}
		seenExpr[s] = true
		d := ds[o.r.Intn(len(ds))]
		o.c("selall", d, "/", "-", s, "", tag)
		o.c("evalall", d, "/", "-", s, "", tag)
	}
	// every function x arity 0..4 x argument kind
	argKinds := []string{"1", "'s'", "*", "true()", "0 div 0", "//zz", "'a b'", "-1", "1 div 0", "@x", "."}
	for _, f := range fnNames {
		for ar := 0; ar <= 4; ar++ {
			for k := 0; k < len(argKinds); k++ {
				var args []string
				for j := 0; j < ar; j++ {
					args = append(args, argKinds[(k+j*3)%len(argKinds)])
				}
				emit(f+"("+strings.Join(args, ", ")+")", "fn-arity")
				if ar == 0 {
					break
				}
			}
		}
	}
	for _, pat := range []string{"(", "[a", "a(b|c", "*", "a{2", "(?P<n", "\\"} {
		for _, f := range []string{"matches(., concat('%s', ''))", "replace(., '%s', 'x')", "matches(string(*), concat('%s', @x))", "replace('abc', concat('%s',''), '$1')", "count(//*[matches(., concat('%s', ''))])"} {
			emit(fmt.Sprintf(f, pat), "bad-regex-runtime")
		}
	}
	for _, tail := range []string{"\u00a0", "\f", "\u0085", "\u2003", "\v", "\u3000", " \u00a0", "\u00a0 "} {
		for _, f := range []string{"normalize-space('a b%s')", "normalize-space('%s')", "normalize-space('a%sb%s')", "normalize-space(concat('x ', '%s'))", "string-length(normalize-space(' a%s'))", "translate('a%s', '%s', 'x')", "substring('a%s', 2)", "lower-case('A%s')", "number('1%s')", "contains('a%s', '%s')"} {
			emit(strings.ReplaceAll(f, "%s", tail), "unicode-space-tail")
		}
	}
	for _, u := range []string{"\u00e9", "x\u20acy", "\u4e2d\u6587", "\u00e9\u00e9\u00e9"} {
		uu := strings.NewReplacer("\\u00e9", "\u00e9", "\\u20ac", "\u20ac", "\\u4e2d", "\u4e2d", "\\u6587", "\u6587").Replace(u)
		for _, f := range []string{"translate('abc','abc','%s')", "translate('%s','%s','abc')", "translate('1,5 EUR','EUR,','%s')", "substring('%s', 2, 1)", "substring('%s', 1.5)", "string-length('%s')", "normalize-space(' %s ')", "lower-case('%s')",
			"contains('%s', 'x')", "substring-before('a%sb', '%s')", "substring-after('a%sb', '%s')", "translate('%s', '%s', 'x')", "concat('%s', '%s')", "starts-with('%s', '%s')", "ends-with('%s','%s')", "replace('%s', '.', '%s')", "matches('%s', '%s')", "string-join(//*, '%s')"} {
			emit(strings.ReplaceAll(f, "%s", uu), "non-ascii")
		}
	}
	// every arithmetic operator over edge operands: fractional, tiny, huge, infinite, NaN, non-numbers
	nums := []string{"0", "1", "7", "-7", "0.5", ".3", "2.5", "-0.5", "(1 div 4)", "(1 div 0)", "(-1 div 0)", "(0 div 0)",
		"9007199254740993", "1000000000000000000000", "0.0000001", "count(//*)", "string-length('abcd')", "@x", "'s'", "true()", "-0"}
	for _, op := range []string{"+", "-", "*", "div", "mod"} {
		for _, a := range nums {
			for _, b := range nums {
				emit(a+" "+op+" "+b, "arith-edge")
			}
		}
		for _, b := range []string{"0.5", ".3", "(1 div 4)", "0", "-0.25", "2.5"} {
			emit("//*[(@x "+op+" "+b+") = 0]", "arith-edge-pred")
			emit("//*[(count(*) "+op+" "+b+") >= 0]", "arith-edge-pred")
			emit("//*[position() "+op+" "+b+" = 0]", "arith-edge-pred")
		}
	}
	for _, tm := range []string{"\\", "x\\", "\\\\", "$", "x$", "$$", "\\$", "$\\", "${", "${1", "$1\\", "a\\b\\", "\\1", "$100000000000000000000", "$18446744073709551616x"} {
		for _, f := range []string{"replace('abc', 'b', '%s')", "replace('abc', '(b)', '%s')", "replace(., 'a', '%s')", "replace('', '', '%s')", "string-length(replace('abab', 'a(b)', '%s'))"} {
			emit(strings.ReplaceAll(f, "%s", tm), "replace-template-tail")
		}
	}
	for _, w := range lowerCaseNonASCII {
		for _, f := range []string{"lower-case('%s')", "lower-case(concat('%s', 'x'))", "string-length(lower-case('%s'))", "concat(lower-case('%s'), '|', concat('x', 'y'), '|', normalize-space('  p   q '))", "//*[lower-case('%s') = lower-case(.)]"} {
			emit(strings.ReplaceAll(f, "%s", w), "lower-case-non-ascii")
		}
	}
	ed := edgeDoc(o)
	for _, e := range []string{"replace('C:x', 'x', //d/@dir)", "replace(//d, 'x', //d/@t)", "replace('aXb', 'X', string(//d/@dir))", "//d[replace(., 'x', @t) = 'q']", "replace(//d/@dir, '\\\\', '/')"} {
		o.c("selall", ed, "/", "-", e, "", "replace-template-tail")
		o.c("evalall", ed, "/", "-", e, "", "replace-template-tail")
	}
	for _, dd := range []*dref{deepDoc(o, 40, "y(@x=1)"), deepDoc(o, 17, "y"), deepDoc(o, 16, "y"), deepDoc(o, 300, "y")} {
		for _, e := range []string{"descendant::*[true()]", "descendant::y[true()]", "descendant-or-self::x[y]", "count(descendant::*[1])", "descendant::x[position() = 1]", "descendant::*[last()]", "//x[descendant::y[1]]",
			"descendant::x[descendant::y]", "count(descendant::*[. = ''])", "descendant-or-self::*[not(*)]", "/descendant::y[1]/ancestor::x[1]", "descendant::*[@x]"} {
			o.c("sel", dd, "/", "-", e, "", "deep-descendant-pred")
			o.c("eval", dd, "/", "-", e, "", "deep-descendant-pred")
			o.c("sel", dd, "/0", "-", e, "", "deep-descendant-pred")
		}
	}
	for i := 0; i < 2500*o.tier; i++ {
		emit(soup(o.r, 10), "soup")
	}
}

// ---- C17: damaged expressions ----

func abbrevText(s string) string {
	s = strings.ReplaceAll(s, "/descendant-or-self::node()/", "//")
	s = strings.ReplaceAll(s, "child::", "")
	s = strings.ReplaceAll(s, "attribute::", "@")
	s = strings.ReplaceAll(s, "self::node()", ".")
	s = strings.ReplaceAll(s, "parent::node()", "..")
	return s
}

func (g *G) validExpr() gen.Ex {
	switch g.r.Intn(6) {
	case 0:
		return g.relPath(allAxes, 2, 3, 50)
	case 1:
		return g.boolPred(2)
	case 2:
		return gen.Call{Name: "concat", Args: []gen.Ex{gen.Call{Name: "substring", Args: []gen.Ex{gen.Lit{S: "abc"}, num(1), num(2)}}, g.relPath(flatAxes, 1, 2, 30), gen.Lit{S: "x y"}}}
	case 3:
		return gen.Bin{Op: g.r.Pick([]string{"or", "and"}), L: gen.Bin{Op: "=", L: g.relPath(flatAxes, 0, 2, 0), R: gen.Lit{S: "x"}}, R: gen.Bin{Op: "=", L: g.relPath(flatAxes, 0, 1, 0), R: gen.Lit{S: "y"}}}
	case 4:
		return gen.Filter{E: gen.Paren{E: g.relPath(allAxes, 1, 2, 30)}, Preds: []gen.Ex{num(1 + g.r.Intn(3))}}
	default:
		return gen.Bin{Op: g.r.Pick([]string{"+", "-", "*", "div", "mod", "|", "=", "<"}), L: g.relPath(allAxes, 1, 2, 30), R: gen.Bin{Op: "+", L: num(1), R: gen.Call{Name: "count", Args: []gen.Ex{g.relPath(allAxes, 1, 2, 30)}}}}
	}
}

func inQuote(pre string) bool { return strings.Count(pre, "'")%2 == 1 }

// damages returns (class, damaged) pairs for a valid expression text
func damages(s string) [][2]string {
	var out [][2]string
	note := func(cls, dam string) { out = append(out, [2]string{cls, dam}) }
	isName := func(c byte) bool {
		return c == '-' || c == '_' || c == '.' || (c >= '0' && c <= '9') || (c >= 'a' && c <= 'z') || (c >= 'A' && c <= 'Z')
	}
	for pos := 1; pos < len(s); pos++ {
		c := s[pos-1]
		pre := s[:pos]
		if inQuote(pre) && c != '\'' {
			continue
		}
		switch {
		case c == '/':
			// a single slash that STARTS a path (nothing, an operator, a bracket, a comma before it)
			// is the valid expression "/" when the text ends there
			before := strings.TrimRight(pre[:len(pre)-1], " ")
			startsPath := before == "" || strings.ContainsRune("|([,=<>+-*!", rune(before[len(before)-1]))
			for _, w := range []string{" and", " or", " div", " mod"} {
				if strings.HasSuffix(before, w) {
					startsPath = true
				}
			}
			if !startsPath {
				note("cut-after-slash", pre)
			}
		case c == '[':
			note("cut-after-[", pre)
		case c == '(':
			note("cut-after-(", pre)
		case c == '\'':
			if inQuote(pre) {
				note("cut-after-open-quote", pre)
			}
		case c == ',':
			note("cut-after-comma", pre)
		case strings.ContainsRune("+=<>|", rune(c)):
			note("cut-after-operator", pre)
		case c == '-' && pos >= 2 && s[pos-2] == ' ':
			note("cut-after-operator", pre)
		case c == '*' && pos >= 2 && s[pos-2] == ' ' && pos < len(s) && s[pos] == ' ':
			// binary '*' (a step '*' is followed by something else)
			j := pos - 3
			for j >= 0 && s[j] == ' ' {
				j--
			}
			if j >= 0 && !strings.ContainsRune("/[(,|+-=<>@:", rune(s[j])) && !strings.HasSuffix(strings.TrimSpace(s[:pos-1]), " and") && !strings.HasSuffix(strings.TrimSpace(s[:pos-1]), " or") && !strings.HasSuffix(strings.TrimSpace(s[:pos-1]), " div") && !strings.HasSuffix(strings.TrimSpace(s[:pos-1]), " mod") {
				note("cut-after-operator", pre)
			}
		}
		for _, w := range []string{" and ", " or ", " div ", " mod "} {
			if strings.HasSuffix(pre, w) {
				note("cut-after-word-operator", pre)
			}
		}
		if strings.HasSuffix(pre, "::") {
			note("cut-after-axis", pre)
		}
		if c == '@' {
			note("cut-after-@", pre)
		}
	}
	for pos := 0; pos < len(s); pos++ {
		if inQuote(s[:pos]) && s[pos] != '\'' {
			continue
		}
		switch s[pos] {
		case ']':
			note("delete-]", s[:pos]+s[pos+1:])
		case ')':
			note("delete-)", s[:pos]+s[pos+1:])
		case '\'':
			if inQuote(s[:pos]) {
				note("delete-closing-quote", s[:pos]+s[pos+1:])
			}
		}
	}
	for _, fn := range fnNames {
		pat := fn + "("
		for k := 0; k+len(pat) <= len(s); k++ {
			if s[k:k+len(pat)] != pat || (k > 0 && isName(s[k-1])) || inQuote(s[:k]) {
				continue
			}
			note("rename-function", s[:k]+"zz"+s[k:])
			note("rename-function", s[:k+len(fn)]+"x"+s[k+len(fn):])
			depth, j := 0, k+len(pat)
			for ; j < len(s); j++ {
				if inQuote(s[:j]) {
					continue
				}
				if s[j] == '(' {
					depth++
				} else if s[j] == ')' {
					if depth == 0 {
						break
					}
					depth--
				}
			}
			switch fn {
			case "local-name", "name", "namespace-uri", "string", "number", "boolean", "normalize-space", "true", "false", "last", "position":
			default:
				if j < len(s) && strings.TrimSpace(s[k+len(pat):j]) != "" {
					note("remove-all-args", s[:k+len(pat)]+s[j:])
				}
			}
		}
	}
	for _, ax := range allAxes {
		pat := ax + "::"
		for k := 0; k+len(pat) <= len(s); k++ {
			if s[k:k+len(pat)] == pat && (k == 0 || !isName(s[k-1])) && !inQuote(s[:k]) {
				note("unknown-axis", s[:k]+"q"+s[k:])
				note("unknown-axis", s[:k+len(ax)]+"s"+s[k+len(ax):])
				note("prefixed-axis", s[:k]+"p:"+s[k:])
				if !strings.HasSuffix(ax, "-or-self") && ax != "ancestor" && ax != "descendant" {
					note("unknown-axis", s[:k+len(ax)]+"-or-self"+s[k+len(ax):])
				}
			}
		}
	}
	// malformed qualified names on name tests a / b
	for k := 0; k < len(s); k++ {
		if (s[k] == 'a' || s[k] == 'b') && !inQuote(s[:k]) && (k == 0 || !isName(s[k-1]) && s[k-1] != ':') && (k+1 >= len(s) || !isName(s[k+1]) && s[k+1] != ':' && s[k+1] != '(') {
			note("qname-trailing-colon", s[:k+1]+":"+s[k+1:])
			note("qname-double-prefix", s[:k]+"p:q:"+s[k:])
			note("qname-leading-colon", s[:k]+":"+s[k:])
		}
	}
	return out
}

// valid expressions whose closing tokens sit in places the random grammar rarely reaches:
// parenthesised literals (also as the last token), predicates after a primary expression,
// nested calls closing together
var c17Corpus = []string{
	"count(//a) = (2)", "name(//a) = ('a')", "sum(//a/@n) div (2)", "(1)", "('x')", "((1))", "-(1)", "(1 + 2) * (3)",
	"//a[@n < (10)]", "concat('a', ('b'))", "a[(1)]", "a[('x')]", "substring('abc', (1), (2))", "(1) = (2)", "('a') != ('b')",
	"(//a | //b)[1]", "(//a)[@x][2]", "(//a)[position() < 3]/b", "count((//a)[@x = 'v']) > 0", "string((//a/b)[last()])",
	"//r[count((a | b)[c]) = 2]", "concat(name((//a)[1]), '-', 'z')", "(a)[1][2]", "(a/b)[c][d]/e[f]", "id((a)[1])",
	"not((a)[b = (3)])", "a[b[c[(d)[1]]]]", "string-length(normalize-space(string((a)[1])))", "(a)[(b)[(c)[1]]]",
	"/a/b", "/a/b/c[1]/d", "/a/b//c", "@a | /r/s/t", "a[/b/c]", "count(/a/b)", "/html/body/div[1]/p", "concat(/a/b, /c/d)", "a[/b/c = /d/e]", "(/a/b)[1]", "/a/@b",
	"a/(b, c)", "a/(b)", "a/(b[1], c)", "//a/(b, c)/d", "concat(concat('a', 'b'), 'c')", "concat('a', concat('b', 'c'))", "string-join(a/(b, c), ',')",
	"child::a/parent::b", "a/following-sibling::*[1]", "//a[preceding::b]", "attribute::id", "self::a/child::b", "following::a | preceding-sibling::b",
	"a | (b)[1]", "(a | b | c)[last()]", "count((a)[1] | (b)[2])", "translate(('a'), ('b'), ('c'))", "a[. = (1) or . = ('x')]",
}

// dropSteps: for every slash followed by a name-like step token, the text without that token
func dropSteps(s string) []string {
	var out []string
	isTok := func(c byte) bool {
		return c == '-' || c == '_' || c == '.' || c == '*' || c == '@' || c == ':' || (c >= '0' && c <= '9') || (c >= 'a' && c <= 'z') || (c >= 'A' && c <= 'Z')
	}
	for i := 0; i+1 < len(s); i++ {
		if s[i] != '/' || inQuote(s[:i]) || !isTok(s[i+1]) {
			continue
		}
		j := i + 1
		for j < len(s) && isTok(s[j]) {
			j++
		}
		out = append(out, s[:i+1]+s[j:])
	}
	return out
}

func genC17(o *cw) {
	g := &G{r: o.r, predAxes: allAxes}
	for _, s := range c17Corpus {
		if s == "id((a)[1])" {
			continue // id() is not a supported function
		}
		o.c("compile", nil, "/", "-", s, "", "valid-corpus", "expect=ok")
		for _, d := range damages(s) {
			o.c("compile", nil, "/", "-", d[1], "", d[0], "expect=err")
		}
		// the step after a slash removed, the rest kept (a/b) -> (a/) : verdict against the model's
		for _, t := range dropSteps(s) {
			o.c("compile", nil, "/", "-", t, "", "drop-step-after-slash")
		}
	}
	// every function name x 0..6 arguments (and a misspelt name): the verdict of Compile against the model's
	for _, f := range fnNames {
		for ar := 0; ar <= 6; ar++ {
			args := make([]string, ar)
			for j := range args {
				args[j] = []string{"a", "'s'", "1", "true()"}[(j+ar)%4]
			}
			o.c("compile", nil, "/", "-", f+"("+strings.Join(args, ", ")+")", "", "arity")
			o.c("compile", nil, "/", "-", "a["+f+"("+strings.Join(args, ",")+")]", "", "arity")
		}
		o.c("compile", nil, "/", "-", f+"x(1)", "", "rename-function", "expect=err")
	}
	for i := 0; i < 160*o.tier; i++ {
		e := g.validExpr()
		o.features(e)
		s := gen.Str(e, gen.Mode{Spaces: 0})
		if i%2 == 1 {
			s = gen.Str(e, gen.Mode{Abbrev: true})
		}
		o.c("compile", nil, "/", "-", s, "", "valid", "expect=ok")
		for _, d := range damages(s) {
			o.c("compile", nil, "/", "-", d[1], "", d[0], "expect=err")
		}
		for _, t := range dropSteps(s) {
			o.c("compile", nil, "/", "-", t, "", "drop-step-after-slash")
		}
	}
}

// ---- C10 ----

var binOps = []string{"or", "and", "=", "!=", "<", "<=", ">", ">=", "+", "-", "*", "div", "mod", "|"}

func genC10(o *cw) {
	atoms := []string{"1", "'s'", "a", "@a", "f()", "(1)", "b/c", "2.5", "//a", "..", "p:a", "b", "@q:x/c", "*", "p:*"}
	// f() is not a known function: use true() so that compile succeeds as well
	atoms[4] = "true()"
	at := 0
	atom := func() string { at++; return atoms[at%len(atoms)] }
	// all chains with up to 3 operators (quick) / 4 (thorough) over all ordered operator tuples
	maxLen := 3
	if o.tier > 1 {
		maxLen = 4
	}
	var rec func(ops []string)
	emitChain := func(ops []string) {
		var toks []string
		neg := o.r.Intn(len(ops) + 2)
		for i := 0; i <= len(ops); i++ {
			if i > 0 {
				toks = append(toks, ops[i-1])
			}
			if i == neg {
				toks = append(toks, "-")
			}
			a := atom()
			if i > 0 && ops[i-1] == "|" || (i < len(ops) && ops[i] == "|") {
				// union operands must be node-sets for the builder; the parser does not care
				a = []string{"a", "@a", "b/c", "//a", ".."}[at%5]
			}
			toks = append(toks, a)
		}
		s := gen.Join(toks)
		o.feat["chain-len-"+fmt.Sprint(len(ops))]++
		o.c("parse", nil, "/", "-", s, "", "chain")
	}
	rec = func(ops []string) {
		if len(ops) > 0 {
			emitChain(ops)
		}
		if len(ops) == maxLen {
			return
		}
		for _, op := range binOps {
			rec(append(append([]string{}, ops...), op))
		}
	}
	rec(nil)
	for i := 0; i < 400*o.tier; i++ {
		n := 4 + o.r.Intn(2)
		var ops []string
		for j := 0; j < n; j++ {
			ops = append(ops, binOps[o.r.Intn(len(binOps))])
		}
		emitChain(ops)
	}
	// white space: every generated expression in several placements; all variants
	// of a group must parse to the same tree (and the model must agree)
	g := &G{r: o.r, predAxes: allAxes}
	ds := valueDocs(o)
	spaces := []string{" ", "  ", "\t", "\n", " \r\n "}
	gi := 0
	for i := 0; i < 300*o.tier; i++ {
		var e gen.Ex
		switch o.r.Intn(5) {
		case 0:
			e = g.aexp(3)
		case 1:
			e = g.sExpr(3)
		case 2:
			e = g.boolPred(2)
		default:
			e = g.validExpr()
		}
		o.features(e)
		m := both[i%2]
		toks := e.Toks(m)
		gi++
		gp := fmt.Sprintf("w%d", gi)
		gv := fmt.Sprintf("v%d", gi)
		base := gen.Join(toks)
		d := ds[o.r.Intn(len(ds))]
		o.c("parse", nil, "/", "-", base, gp, "ws-base")
		o.c("evalall", d, "/", "-", base, gv, "ws-value")
		variants := []string{
			gen.JoinSpaced(toks, func(int) string { return " " }),
			gen.JoinSpaced(toks, func(int) string { return spaces[o.r.Intn(len(spaces))] }),
			gen.JoinSpaced(toks, func(int) string {
				if o.r.Chance(30) {
					return spaces[o.r.Intn(len(spaces))]
				}
				return ""
			}),
			" " + base + "\n",
		}
		for _, v := range variants {
			o.c("parse", nil, "/", "-", v, gp, "ws-variant")
			o.c("evalall", d, "/", "-", v, gv, "ws-value")
		}
		// abbreviation vs expansion: same node sequence / value
		ga := fmt.Sprintf("a%d", gi)
		o.c("evalall", d, "/", "-", gen.Str(e, gen.Mode{Abbrev: true}), ga, "abbrev")
		o.c("evalall", d, "/", "-", gen.Str(e, gen.Mode{Abbrev: false}), ga, "expanded")
	}
	// numbers written with a leading dot, as the very last token and followed by white space / a closer
	for _, e := range []string{"1 div .25", ".125 + .125", ".7 < .75", "-.25", ".5", "2 * .5", "1 - .75", "concat('x', .25)"} {
		gi++
		gv := fmt.Sprintf("v%d", gi)
		o.c("evalall", ds[0], "/", "-", e, gv, "leading-dot")
		o.c("evalall", ds[0], "/", "-", e+" ", gv, "leading-dot")
		o.c("evalall", ds[0], "/", "-", "("+e+")", gv, "leading-dot")
		o.c("parse", nil, "/", "-", e, "", "leading-dot")
	}
	// the abbreviations one by one
	pairs := [][2]string{{"a", "child::a"}, {"@x", "attribute::x"}, {".", "self::node()"}, {"..", "parent::node()"}, {"//b", "/descendant-or-self::node()/child::b"},
		{"a//b", "child::a/descendant-or-self::node()/child::b"}, {"*/@*", "child::*/attribute::*"}, {"../b", "parent::node()/child::b"}, {".//b", "self::node()/descendant-or-self::node()/child::b"},
		{"//@x", "/descendant-or-self::node()/attribute::x"}, {"a[b]", "child::a[child::b]"},
		{"(/)//a", "(/)/descendant-or-self::node()/child::a"}, {"(/)//comment()", "(/)/descendant-or-self::node()/child::comment()"}, {"(//b)//.", "(//b)/descendant-or-self::node()/self::node()"},
		{"(*)//text()", "(*)/descendant-or-self::node()/child::text()"}, {"(//b)//self::text()", "(//b)/descendant-or-self::node()/self::text()"}, {"(.)//..", "(.)/descendant-or-self::node()/parent::node()"},
		{"reverse(//b)//c", "reverse(//b)/descendant-or-self::node()/child::c"}, {"(/)//*", "(/)/descendant-or-self::node()/child::*"}, {"a//.", "child::a/descendant-or-self::node()/self::node()"},
		{".//following-sibling::b", "self::node()/descendant-or-self::node()/following-sibling::b"}, {"*//..", "child::*/descendant-or-self::node()/parent::node()"}, {"a[@x='1']", "child::a[attribute::x='1']"}, {"//b[.='1']", "/descendant-or-self::node()/child::b[self::node()='1']"}}
	for _, pr := range pairs {
		for _, d := range ds {
			gi++
			ga := fmt.Sprintf("a%d", gi)
			o.c("selall", d, "/", "-", pr[0], ga, "abbrev1")
			o.c("selall", d, "/", "-", pr[1], ga, "expanded1")
		}
		// the parse trees are equal as well, except for '//' whose root node records the spelling
		if !strings.Contains(pr[1], "node()") {
			gi++
			gp := fmt.Sprintf("w%d", gi)
			o.c("parse", nil, "/", "-", pr[0], gp, "abbrev-tree")
			o.c("parse", nil, "/", "-", pr[1], gp, "abbrev-tree")
		}
	}
	hd := hundredDoc(o)
	for _, e := range longForms() {
		o.c("parse", nil, "/", "-", e, "", "long-forms")
		o.c("eval", hd, "/", "-", e, "", "long-forms")
	}
	for _, e := range rareSpellings {
		o.c("eval", hd, "/", "-", e, "", "rare-spellings")
		o.c("parse", nil, "/", "-", e, "", "rare-spellings")
		o.c("parse", nil, "/", "=p:u1,x:u2", e, "", "rare-spellings")
	}
	for _, e := range append(rarePaths(), rarePreds()...) {
		o.c("parse", nil, "/", "-", e, "", "rare-names")
	}
	rd := rareDoc(o, false)
	for _, e := range rarePreds() {
		o.c("evalall", rd, "/", "-", e, "", "rare-names")
	}
	for _, n := range []string{".14159265358979323846", "0.14159265358979323846", ".1234567890123456789", ".10000000000000000000000001", ".99999999999999999999", ".5", ".25", "0.1", ".1", "123456789012345678901234567890.5",
		".000000000000000000000000000001", "1." + strings.Repeat("0", 40) + "1", "." + strings.Repeat("3", 30), "5.", "005.500"} {
		o.c("parse", nil, "/", "-", n, "", "long-number-literal")
		o.c("eval", rd, "/", "-", n, "", "long-number-literal")
		o.c("eval", rd, "/", "-", n+" = 0"+strings.TrimLeft(n, "0"), "", "long-number-literal")
		o.c("eval", rd, "/", "-", "1 + "+n, "", "long-number-literal")
	}
}

// ---- C06 ----

const punct = "/[]()@*.,|+-=<>!$'\":"

func randBytes(r *gen.Rand, n int) string {
	b := make([]byte, n)
	for i := range b {
		switch r.Intn(6) {
		case 0:
			b[i] = byte(r.Intn(256))
		case 1:
			b[i] = punct[r.Intn(len(punct))]
		default:
			b[i] = "abcdxyz019 _-"[r.Intn(13)]
		}
	}
	return string(b)
}

func genC06(o *cw) {
	g := &G{r: o.r, predAxes: allAxes}
	maps := []string{"-", "-", "=", "=p:u1", "=x:ns1,b:ns2"}
	for i := 0; i < 1200*o.tier; i++ {
		e := g.validExpr()
		s := gen.Str(e, both[i%2])
		o.c("compile", nil, "/", maps[o.r.Intn(len(maps))], s, "", "valid")
		ds := damages(s)
		for k := 0; k < 3 && len(ds) > 0; k++ {
			d := ds[o.r.Intn(len(ds))]
			o.c("compile", nil, "/", "-", d[1], "", "damaged")
		}
	}
	for i := 0; i < 4000*o.tier; i++ {
		o.c("compile", nil, "/", maps[o.r.Intn(len(maps))], soup(o.r, 12), "", "soup")
	}
	for i := 0; i < 3000*o.tier; i++ {
		o.c("compile", nil, "/", "-", randBytes(o.r, 1+o.r.Intn(24)), "", "bytes")
	}
	// non-ASCII: names, digits, spaces, invalid UTF-8
	for _, s := range []string{"\u4e2d\u6587", "//\u4e2d[@\u5c5e='\u503c']", "\u0661\u0662", "a\u00a0b", "a\u2003=\u20031", "\xff\xfe", "a/\xc3", "\xe4\xb8", "'\xff'", "\u0663 + 1", "a\u0085", "\ufeffa", "a\x00b", "\x00", "x:\u4e2d", "\u4e2d:x", "a[\u0660]"} {
		o.c("compile", nil, "/", "-", s, "", "unicode")
	}
	o.c("compile", nil, "/", "-", "", "", "empty")
	// long runs of one byte (continuation bytes without a lead byte, lead bytes without continuation, NUL)
	for _, s := range byteRuns() {
		o.c("compile", nil, "/", "-", s, "", "byte-runs")
	}
	for _, s := range rareSpellings {
		o.c("compile", nil, "/", maps[o.r.Intn(len(maps))], s, "", "rare-spellings")
	}
	for _, e := range append(rarePaths(), rarePreds()...) {
		o.c("compile", nil, "/", "-", e, "", "rare-names")
	}
	for _, n := range []int{1, 10, 250, 1100, 5000} {
		ns := nestings(n)
		for _, kind := range []string{"unknownfn-plus", "unknownfn-union", "unknownfn-filter", "badarity-plus", "wide-deep", "preds-deep"} {
			o.c("compile", nil, "/", "-", ns[kind], "", "nest-"+kind)
		}
	}
	// nesting of every recursive construct around the engine's limits (in-process)
	for _, n := range []int{1, 2, 50, 99, 100, 101, 150, 198, 199, 200, 201, 202, 250} {
		for kind, s := range nestings(n) {
			o.c("compile", nil, "/", "-", s, "", "nest-"+kind)
		}
	}
	// around the builder's limit (chains that the parser handles iteratively)
	for _, n := range []int{1000, 1020, 1022, 1023, 1024, 1025, 1026, 1100, 2100} {
		ns := nestings(n)
		for _, kind := range []string{"path", "dslash", "dslashstar", "plus", "union", "filter", "dots", "dslashpred", "mixedpath"} {
			o.c("compile", nil, "/", "-", ns[kind], "", "nest1024-"+kind)
		}
	}
	// k closed constructs first, then nesting near the parser's limit: the counters must not drift
	for _, k := range []int{1, 3, 20, 60} {
		for _, n := range []int{198, 199, 200, 201, 200 + k - 1, 200 + k, 200 + k + 1} {
			for _, closed := range []string{"a/(b)", "(1)", "a[1]", "not(1)", "-1", "a/(b, c)"} {
				var args []string
				for j := 0; j < k; j++ {
					args = append(args, closed)
				}
				for _, deep := range []string{"paren", "seq", "pred", "func"} {
					o.c("compile", nil, "/", "-", "concat('x', "+strings.Join(args, ", ")+", "+nestings(n)[deep]+")", "", "drift-"+deep)
				}
			}
		}
	}
}

func nestings(n int) map[string]string {
	rep := strings.Repeat
	return map[string]string{
		"paren":     rep("(", n) + "1" + rep(")", n),
		"seq":       "a/" + rep("(", n) + "b" + rep(")", n),
		"pred":      rep("a[", n) + "1" + rep("]", n),
		"func":      rep("not(", n) + "1" + rep(")", n),
		"minus":     rep("-", n) + "1",
		"path":      rep("a/", n) + "a",
		"plus":      rep("1+", n) + "1",
		"union":     rep("a|", n) + "a",
		"filter":    "a" + rep("[1]", n),
		"parenopen": rep("(", n),
		"predopen":  rep("a[", n),
		"dots":      rep("../", n) + "..",
		"concat":    rep("concat(1,", n) + "2" + rep(")", n),
		"dslash":     rep("//a", n),
		"dslashstar": "a" + rep("//*", n),
		"dslashpred": rep("//a[1]", n),
		"mixedpath":  rep("a//b/", n) + "c",
		// a rejected call (unknown name) whose argument is a long flat chain: rejecting must not walk the chain recursively
		"unknownfn-plus":   "zz(" + rep("1+", n) + "1)",
		"unknownfn-union":  "zz(" + rep("a|", n) + "a)",
		"unknownfn-filter": "zz(a" + rep("[1]", n) + ")",
		"badarity-plus":    "substring(" + rep("1+", n) + "1)",
		// n closed siblings, then nesting well past the parser's limit: must still be rejected
		"wide-deep": "concat(" + rep("1,", n) + rep("(", 400) + "1" + rep(")", 400) + ")",
		"preds-deep": "a" + rep("[1]", n) + "[" + rep("(", 400) + "1" + rep(")", 400) + "]",
	}
}

// ---- C04: histories ----

func genC04(o *cw) {
	g := &G{r: o.r, predAxes: allAxes}
	// per-node argument values through ONE compiled expression (a cache inside a function closure
	// must be keyed unambiguously): translate(., @f, @t) over pairs whose concatenations coincide
	ed := edgeDoc(o)
	var ts []doc.Ref
	for _, r := range ed.all {
		if r.Attr < 0 && r.N.Name == "t" {
			ts = append(ts, r)
		}
	}
	for _, e := range []string{"translate(., @f, @t)", "self::*[translate(., @f, @t) != .]", "concat(translate(., @f, @t), '|', translate('a/b.c', @f, @t))"} {
		for _, first := range ts {
			for _, then := range ts {
				if first != then {
					for _, final := range []string{"sel", "eval"} {
						o.c("hist", ed, then.Addr(), "-", e, "", "hist-translate-pairs", final, fmt.Sprintf("E:%s:%s:0,S:%s:%s:1", ed.id, first.Addr(), ed.id, first.Addr()))
					}
				}
			}
		}
	}
	// string results past any size an internal buffer may be tuned for, then short ones
	long := strings.Repeat("lorem ipsum  dolor ", 300)
	ld := o.doc(doc.Parse(`r(a("`+long+`"),b("short"),c("  p  q "),a("x"))`), false)
	for _, e := range []string{"concat(a, '-', b)", "normalize-space(a)", "concat(normalize-space(.), '|', b)", "normalize-space(concat(a, c))", "concat(c, a, c)",
		"string-join(*, ',')", "translate(a, 'lo', 'LO')", "replace(a, 'o', '0')", "substring-after(a, 'ipsum')", "concat(., '')", "lower-case(a)"} {
		for _, first := range []string{"/0", "/0.0", "/0.2"} {
			for _, then := range []string{"/0.1", "/0.2", "/0.3", "/0"} {
				if first != then {
					for _, final := range []string{"sel", "eval"} {
						if final == "sel" {
							continue
						}
						o.c("hist", ld, then, "-", e, "", "hist-long-then-short", final, fmt.Sprintf("E:%s:%s:0", ld.id, first))
						o.c("hist", ld, then, "-", e, "", "hist-long-then-short", final, fmt.Sprintf("E:%s:%s:0,E:%s:%s:0", ld.id, first, ld.id, first))
					}
				}
			}
		}
	}
	ds := append(handDocs(o, false)[4:], valueDocs(o)[:3]...)
	ds = append(ds, ctxDocs(o)...)
	ds = append(ds, fanDocs(o)[:3]...)
	emitRegexDocs(o, 60*o.tier)
	for i := 0; i < 700*o.tier; i++ {
		var e gen.Ex
		switch o.r.Intn(9) {
		case 0:
			e = g.relPath(allAxes, 2, 3, 50)
		case 1:
			e = g.boolPred(2)
		case 2:
			e = gen.Bin{Op: g.r.Pick([]string{"=", "!=", "<"}), L: g.relPath(allAxes, 1, 2, 30), R: g.r.Pick1(gen.Lit{S: g.r.Pick([]string{"", "1", "u"})}, g.relPath(allAxes, 0, 2, 0))}
		case 3:
			e = gen.Call{Name: g.r.Pick([]string{"count", "sum", "string", "boolean", "number"}), Args: []gen.Ex{g.relPath(allAxes, 1, 2, 30)}}
		case 4:
			e = gen.Bin{Op: "|", L: g.relPath(allAxes, 1, 2, 30), R: g.relPath(allAxes, 1, 2, 30)}
		case 5:
			e = gen.Call{Name: "string-join", Args: []gen.Ex{g.relPath(allAxes, 1, 2, 30), gen.Lit{S: ","}}}
		case 6:
			// positional (C03 fragment)
			p := gen.Path{Abs: true, Steps: []gen.Step{{Axis: "child", Test: "*", DSlash: true, Preds: []gen.Ex{g.posPred()}}}}
			e = p
		case 7:
			e = gen.Filter{E: gen.Paren{E: gen.Path{Abs: true, Steps: []gen.Step{{Axis: "child", Test: g.test("child"), DSlash: true}}}}, Preds: []gen.Ex{num(1 + g.r.Intn(3))}}
		default:
			e = gen.Call{Name: "reverse", Args: []gen.Ex{g.relPath(allAxes, 1, 2, 30)}}
		}
		if i%5 == 0 {
			// a filter over a filter with last(): the only query with state that Evaluate does not rewind
			inner := gen.Path{Abs: true, Steps: []gen.Step{{Axis: "child", Test: g.test("child"), DSlash: true, Preds: []gen.Ex{(&G{r: g.r, predAxes: flatAxes}).boolPred(1)}}}}
			var f gen.Ex = gen.Filter{E: gen.Paren{E: inner}, Preds: []gen.Ex{gen.Call{Name: "last"}}}
			if o.r.Chance(50) {
				inner.Steps[0].Preds = append(inner.Steps[0].Preds, gen.Call{Name: "last"})
				f = inner
			}
			switch o.r.Intn(7) {
			case 0:
				e = gen.Call{Name: "string", Args: []gen.Ex{f}}
			case 1:
				e = gen.Call{Name: "count", Args: []gen.Ex{f}}
			case 2:
				// as a DIRECT operand of a comparison / arithmetic / and-or (a scalar result: a working
				// copy kept by Evaluate across calls would keep the cached count)
				e = gen.Bin{Op: g.r.Pick([]string{"=", "!=", "<", ">="}), L: f, R: gen.Lit{S: g.r.Pick([]string{"", "1", "u", "7"})}}
			case 3:
				e = gen.Bin{Op: g.r.Pick([]string{"+", "*", "-"}), L: f, R: num(1 + g.r.Intn(3))}
			case 4:
				e = gen.Bin{Op: g.r.Pick([]string{"and", "or"}), L: gen.Bin{Op: ">", L: f, R: num(0)}, R: gen.Call{Name: "true"}}
			default:
				e = f
			}
		}
		switch o.r.Intn(5) {
		case 0:
			// functions and operators over arguments that carry iteration state
			fs := g.funcsOverArg(g.statefulArg(), []string{"numeric", "string", "name", "bool", "seq"}[o.r.Intn(5)])
			e = fs[o.r.Intn(len(fs))]
		case 1:
			e = g.ctxRestore([]string{"bool", "cmp", "arith", "union", "string"}[o.r.Intn(5)])
		}
		o.features(e)
		s := gen.Str(e, both[i%2])
		h := 1 + o.r.Intn(8)
		var hist []string
		for j := 0; j < h; j++ {
			d := ds[o.r.Intn(len(ds))]
			r := d.all[o.r.Intn(len(d.all))]
			k := o.r.Intn(5)
			hist = append(hist, fmt.Sprintf("%s:%s:%s:%d", []string{"S", "E", "D", "S", "E"}[o.r.Intn(5)], d.id, r.Addr(), k))
		}
		d := ds[o.r.Intn(len(ds))]
		r := d.all[o.r.Intn(len(d.all))]
		for _, final := range []string{"sel", "eval"} {
			o.feat["hist-len-"+fmt.Sprint(h)]++
			o.c("hist", d, r.Addr(), "-", s, "", "hist-"+final, final, strings.Join(hist, ","))
		}
	}
}
