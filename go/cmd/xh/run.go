package main

import (
	"bufio"
	"fmt"
	"math"
	"math/big"
	"os"
	"runtime"
	"strconv"
	"strings"

	"github.com/antchfx/xpath"
	"verif/internal/doc"
)

// operations a navigator may perform per evaluation; raised for the go-only cases on very large documents
var defaultBudget int64 = 2_000_000

type docEntry struct {
	root  *doc.Node
	hasNS bool
}

func classify(r interface{}) string {
	if r == doc.BudgetExceeded {
		return "E:budget"
	}
	if re, ok := r.(runtime.Error); ok {
		return "E:crash:" + doc.Esc(re.Error())
	}
	if e, ok := r.(error); ok {
		return "E:complaint:" + doc.Esc(e.Error())
	}
	if s, ok := r.(string); ok {
		return "E:complaint:" + doc.Esc(s)
	}
	return "E:crash:unknown-panic-value"
}

func parseNS(s string) (map[string]string, bool) {
	if s == "-" {
		return nil, false
	}
	m := map[string]string{}
	body := s[1:]
	if body != "" {
		for _, kv := range strings.Split(body, ",") {
			i := strings.IndexByte(kv, ':')
			m[doc.Unesc(kv[:i])] = doc.Unesc(kv[i+1:])
		}
	}
	return m, true
}

func compile(expr string, nsf string) (*xpath.Expr, error) {
	ns, has := parseNS(nsf)
	if has {
		if len(ns) > 0 {
			// Compile is a function of (text, bindings): an earlier compile of the same text
			// with the same prefixes bound elsewhere must leave no trace
			decoy := map[string]string{}
			for k, v := range ns {
				decoy[k] = v + "~decoy"
			}
			func() {
				defer func() { recover() }()
				xpath.CompileWithNS(expr, decoy)
			}()
		}
		return xpath.CompileWithNS(expr, ns)
	}
	return xpath.Compile(expr)
}

func addrs(rs []doc.Ref) string {
	var p []string
	for _, r := range rs {
		p = append(p, r.Addr())
	}
	return strings.Join(p, ",")
}

// drain runs an iterator to exhaustion, checking the iterator protocol.
func drain(it *xpath.NodeIterator) (res []doc.Ref, proto string) {
	for it.MoveNext() {
		res = append(res, doc.RefOf(it.Current()))
		if len(res) > 200000 {
			panic(doc.BudgetExceeded)
		}
	}
	for k := 0; k < 3; k++ {
		if it.MoveNext() {
			return res, "E:protocol:MoveNext-true-after-false"
		}
	}
	return res, ""
}

func doSelect(e *xpath.Expr, d *docEntry, ctx doc.Ref) (out string) {
	defer func() {
		if r := recover(); r != nil {
			out = classify(r)
		}
	}()
	nav := doc.NewNavigator(d.root, ctx, d.hasNS, &doc.Budget{Left: defaultBudget})
	res, proto := drain(e.Select(nav))
	if proto != "" {
		return proto
	}
	return "N:" + addrs(res)
}

// doSelectDistinct: the number of distinct nodes a Select yields (for very large results)
func doSelectDistinct(e *xpath.Expr, d *docEntry, ctx doc.Ref) (out string) {
	defer func() {
		if r := recover(); r != nil {
			out = classify(r)
		}
	}()
	nav := doc.NewNavigator(d.root, ctx, d.hasNS, &doc.Budget{Left: defaultBudget})
	it := e.Select(nav)
	seen := map[doc.Ref]bool{}
	for it.MoveNext() {
		seen[doc.RefOf(it.Current())] = true
	}
	return fmt.Sprintf("K:%d", len(seen))
}

// doSelectRefusing: Select with a navigator whose MoveTo always fails; Current() must still be
// positioned on every node reported (NodeIterator falls back to a copy of the node)
func doSelectRefusing(e *xpath.Expr, d *docEntry, ctx doc.Ref) (out string) {
	defer func() {
		if r := recover(); r != nil {
			out = classify(r)
		}
	}()
	nav := refusingNav{doc.NewNavigator(d.root, ctx, d.hasNS, &doc.Budget{Left: defaultBudget})}
	it := e.Select(nav)
	var res []doc.Ref
	for it.MoveNext() {
		cur := it.Current()
		if w, ok := cur.(refusingNav); ok {
			cur = w.NodeNavigator
		}
		res = append(res, doc.RefOf(cur))
		if len(res) > 200000 {
			panic(doc.BudgetExceeded)
		}
	}
	return "N:" + addrs(res)
}

func renderValue(v interface{}) (string, []doc.Ref, bool) {
	switch x := v.(type) {
	case bool:
		if x {
			return "B:true", nil, false
		}
		return "B:false", nil, false
	case float64:
		if math.IsNaN(x) {
			return "F:nan", nil, false
		}
		return fmt.Sprintf("F:%016x", math.Float64bits(x)), nil, false
	case string:
		return "S:" + escNoTilde(x), nil, false
	case *xpath.NodeIterator:
		res, proto := drain(x)
		if proto != "" {
			return proto, nil, false
		}
		return "N:" + addrs(res), res, true
	case int:
		return "I:" + strconv.Itoa(x), nil, false
	case nil:
		return "Z:nil", nil, false
	}
	return fmt.Sprintf("X:%T", v), nil, false
}

// the model renders the empty string as nothing after "S:"
func escNoTilde(s string) string {
	if s == "" {
		return ""
	}
	return doc.Esc(s)
}

func doEvaluate(e *xpath.Expr, d *docEntry, ctx doc.Ref) (out string) {
	defer func() {
		if r := recover(); r != nil {
			out = classify(r)
		}
	}()
	nav := doc.NewNavigator(d.root, ctx, d.hasNS, &doc.Budget{Left: defaultBudget})
	s, seq, isNodes := renderValue(e.Evaluate(nav))
	if isNodes {
		// C12: Evaluate's iterator yields the same sequence as Select
		nav2 := doc.NewNavigator(d.root, ctx, d.hasNS, &doc.Budget{Left: defaultBudget})
		res, _ := drain(e.Select(nav2))
		if addrs(res) != addrs(seq) {
			return "E:eval-select-differ:" + addrs(seq) + "|" + addrs(res)
		}
	}
	return s
}

// history: comma separated steps  kind:doc:ctx:k   kind in S (Select, consume k), E (Evaluate, consume k), D (VerifDirty k)
func doHistory(expr, nsf string, docs map[string]*docEntry, hist string, final string, d *docEntry, ctx doc.Ref) string {
	e, err := compile(expr, nsf)
	if err != nil {
		return "E:compile:" + doc.Esc(err.Error())
	}
	for _, st := range strings.Split(hist, ",") {
		if st == "" {
			continue
		}
		f := strings.Split(st, ":")
		hd := docs[f[1]]
		if hd == nil {
			continue
		}
		hctx, err := doc.ParseAddr(hd.root, f[2])
		if err != nil {
			continue
		}
		k, _ := strconv.Atoi(f[3])
		func() {
			defer func() { recover() }()
			nav := doc.NewNavigator(hd.root, hctx, hd.hasNS, &doc.Budget{Left: defaultBudget})
			switch f[0] {
			case "S":
				it := e.Select(nav)
				for i := 0; i < k && it.MoveNext(); i++ {
				}
			case "E":
				if it, ok := e.Evaluate(nav).(*xpath.NodeIterator); ok {
					for i := 0; i < k && it.MoveNext(); i++ {
					}
				}
			case "D":
				xpath.VerifDirty(e, nav, k)
			}
		}()
	}
	var after, fresh string
	e2, _ := compile(expr, nsf)
	if final == "sel" {
		after = doSelect(e, d, ctx)
		fresh = doSelect(e2, d, ctx)
	} else {
		after = doEvaluate(e, d, ctx)
		fresh = doEvaluate(e2, d, ctx)
	}
	if after != fresh {
		return "E:history:" + fresh + "|" + after
	}
	return after
}

func doNav(d *docEntry, ctx doc.Ref, op string) string {
	nav := doc.NewNavigator(d.root, ctx, d.hasNS, nil)
	mv := func(ok bool) string {
		if !ok {
			return "-"
		}
		return doc.RefOf(nav).Addr()
	}
	switch op {
	case "parent":
		return mv(nav.MoveToParent())
	case "child":
		return mv(nav.MoveToChild())
	case "next":
		return mv(nav.MoveToNext())
	case "prev":
		return mv(nav.MoveToPrevious())
	case "first":
		return mv(nav.MoveToFirst())
	case "nextattr":
		return mv(nav.MoveToNextAttribute())
	case "value":
		return "S:" + escNoTilde(nav.Value())
	case "name":
		return "S:" + escNoTilde(nav.Prefix()) + ":" + escNoTilde(nav.LocalName())
	case "type":
		return strconv.Itoa(int(nav.NodeType()))
	case "all":
		return addrs(doc.All(d.root))
	}
	return "?"
}

func runCases(path string, out *bufio.Writer) error {
	f, err := os.Open(path)
	if err != nil {
		return err
	}
	defer f.Close()
	docs := map[string]*docEntry{}
	sc := bufio.NewScanner(f)
	sc.Buffer(make([]byte, 1<<20), 1<<28)
	for sc.Scan() {
		fl := strings.Split(sc.Text(), "\t")
		switch fl[0] {
		case "D":
			root, err := doc.FromTokens(fl[3])
			if err != nil {
				return err
			}
			docs[fl[1]] = &docEntry{root, fl[2] == "1"}
		case "C":
			id, kind := fl[1], fl[2]
			var res string
			switch kind {
			case "sel", "eval", "hist", "selnm", "histgo", "selgo", "evalgo", "distinctgo":
				d := docs[fl[3]]
				defaultBudget = 2_000_000
				if kind == "selgo" || kind == "evalgo" || kind == "distinctgo" {
					defaultBudget = 4_000_000_000
				}
				ctx, err := doc.ParseAddr(d.root, fl[4])
				if err != nil {
					return fmt.Errorf("case %s: %v", id, err)
				}
				expr := doc.Unesc(fl[6])
				if kind == "hist" || kind == "histgo" {
					// histgo: the same, compared on the implementation side only (fresh compile vs history)
					res = doHistory(expr, fl[5], docs, fl[8], fl[7], d, ctx)
					break
				}
				e, err := compile(expr, fl[5])
				if err != nil {
					res = "E:compile:" + doc.Esc(err.Error())
				} else if kind == "sel" || kind == "selgo" {
					res = doSelect(e, d, ctx)
				} else if kind == "distinctgo" {
					res = doSelectDistinct(e, d, ctx)
				} else if kind == "selnm" {
					res = doSelectRefusing(e, d, ctx)
				} else {
					res = doEvaluate(e, d, ctx)
				}
			case "selall", "evalall", "sel3all", "eval3all":
				d := docs[fl[3]]
				e, err := compile(doc.Unesc(fl[6]), fl[5])
				if err != nil {
					res = "E:compile:" + doc.Esc(err.Error())
					break
				}
				var parts []string
				for _, ctx := range doc.All(d.root) {
					if kind == "selall" || kind == "sel3all" {
						parts = append(parts, doSelect(e, d, ctx))
					} else {
						parts = append(parts, doEvaluate(e, d, ctx))
					}
				}
				res = strings.Join(parts, ";")
			case "compile":
				res = doCompile(doc.Unesc(fl[6]), fl[5])
			case "parse":
				ns, _ := parseNS(fl[5])
				s, err := xpath.VerifParseDump(doc.Unesc(fl[6]), ns)
				if err != nil {
					res = "E:compile:" + doc.Esc(err.Error())
				} else {
					res = s
				}
			case "qdump":
				e, err := compile(doc.Unesc(fl[6]), fl[5])
				if err != nil {
					res = "E:compile:" + doc.Esc(err.Error())
				} else {
					res = xpath.VerifQueryDump(e)
				}
			case "cache":
				res = doCache(doc.Unesc(fl[6]))
			case "regex":
				res = doRegex(doc.Unesc(fl[6]))
			case "regexdoc":
				res = doRegexDoc(doc.Unesc(fl[6]))
			case "hash":
				d := docs[fl[3]]
				ctx, _ := doc.ParseAddr(d.root, fl[4])
				res = fmt.Sprintf("%016x", xpath.VerifHashCode(doc.NewNavigator(d.root, ctx, d.hasNS, nil)))
			case "nav":
				d := docs[fl[3]]
				ctx, _ := doc.ParseAddr(d.root, fl[4])
				res = doNav(d, ctx, doc.Unesc(fl[6]))
			case "num":
				res = doNum(doc.Unesc(fl[5]), doc.Unesc(fl[6]))
			case "fmt":
				res = doFmt(fl[6])
			default:
				res = "?kind"
			}
			fmt.Fprintf(out, "%s\t%s\n", id, res)
		}
	}
	return sc.Err()
}

// doCompile reports the verdict of Compile/CompileWithNS and checks the
// (expr, error) contract and MustCompile on the way.
func doCompile(expr, nsf string) (out string) {
	defer func() {
		if r := recover(); r != nil {
			out = "E:compile-panicked:" + classify(r)
		}
	}()
	e, err := compile(expr, nsf)
	if (e == nil) == (err == nil) {
		return "E:contract:expr-and-error-both-or-neither"
	}
	if nsf == "-" {
		m := xpath.MustCompile(expr)
		if m == nil {
			return "E:contract:MustCompile-nil"
		}
	}
	if err != nil {
		if expr == "" {
			return "E:compile:empty"
		}
		return "E:compile:" + doc.Esc(err.Error())
	}
	return "ok"
}

// number conversions observed through the public API on an empty document
var emptyDoc = &docEntry{root: &doc.Node{Type: xpath.RootNode}}

func doNum(what, arg string) string {
	switch what {
	case "parse":
		// number('<arg>') with the string passed through a document value
		d := &docEntry{root: doc.Parse("a")}
		d.root.Children[0].Add(&doc.Node{Type: xpath.TextNode, Data: arg})
		e := xpath.MustCompile("number(a)")
		s := doEvaluate(e, d, doc.Ref{N: d.root, Attr: -1})
		return strings.TrimPrefix(s, "F:")
	}
	return "?"
}

func doFmt(hexbits string) string {
	bits, _ := strconv.ParseUint(hexbits, 16, 64)
	f := math.Float64frombits(bits)
	return fmtViaEngine(f)
}

// fmtViaEngine has the engine compute the double f exactly (an integer
// mantissa scaled by powers of two, all operations exact) and convert it
// with string().
func fmtViaEngine(f float64) string {
	var expr string
	switch {
	case math.IsNaN(f):
		expr = "string(0 div 0)"
	case math.IsInf(f, 1):
		expr = "string(1 div 0)"
	case math.IsInf(f, -1):
		expr = "string(-1 div 0)"
	case f == 0:
		if math.Signbit(f) {
			expr = "string(-0)"
		} else {
			expr = "string(0)"
		}
	default:
		fr, ex := math.Frexp(math.Abs(f)) // f = fr * 2^ex, fr in [0.5,1)
		m := uint64(fr * (1 << 53))
		e := ex - 53
		for m%2 == 0 {
			m /= 2
			e++
		}
		pow := func(k int) string { return new(big.Int).Lsh(big.NewInt(1), uint(k)).String() }
		sign := ""
		if f < 0 {
			sign = "-"
		}
		switch {
		case e >= 0:
			expr = fmt.Sprintf("string(%s%d * %s)", sign, m, pow(e))
		case -e <= 1000:
			expr = fmt.Sprintf("string(%s%d div %s)", sign, m, pow(-e))
		default:
			expr = fmt.Sprintf("string(%s%d div %s div %s)", sign, m, pow(1000), pow(-e-1000))
		}
	}
	e, err := xpath.Compile(expr)
	if err != nil {
		return "E:compile:" + doc.Esc(err.Error())
	}
	return doEvaluate(e, emptyDoc, doc.Ref{N: emptyDoc.root, Attr: -1})
}

func extraCommand(name string, args []string) bool {
	if f, ok := extras[name]; ok {
		f(args)
		return true
	}
	return false
}

var extras = map[string]func(args []string){}
