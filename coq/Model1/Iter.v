(* Model1/Iter.v — M1: the CURSOR-LEVEL model of the iterators of query.go.

   Eval.v says which LIST a freshly cloned query yields.  Here each query is
   what it is in Go: a configuration (test / Self flag / input query) plus
   mutable STATE (the struct fields, and the captured variables of the
   closure stored in the `iterator` field, defunctionalised), and

       Select(t)    is  [select1]    one call: next node or nil, new state
       Evaluate(t)  is  [evaluate1]  (the resetting the Go methods do)
       Clone()      is  [clone1]

   The cursor operations are those of Doc.v (move_child, move_next,
   move_parent, move_next_attr); a NodeNavigator value is the node it points
   to.  t.Current() is a node that is threaded through every call.

   Covered: contextQuery, absoluteQuery, childQuery, attributeQuery, selfQuery,
   parentQuery, descendantQuery (Self = false / true), filterQuery with the
   predicate abstracted to a function  pred : node -> nat -> bool  of the
   context node the predicate sees (t.Current() after MoveTo(candidate)) and of
   getNodePosition(f.Input).

   Loops.  Go's `for { ... }` loops are modelled with fuel:
     - the loops INSIDE the closures, which step a private cursor over the
       document and skip nodes failing the test, get [dfuel] = 1 + number of
       nodes of the document;
     - the loops of Select that pull the next node from the INPUT query until
       one produces something (`continue` / falling off the end of the loop
       body) get the fuel parameter F of [select1] (the number of iterations is
       bounded by the number of nodes the input still has to deliver, which is
       not bounded by the size of the document: parent::* repeats nodes);
     - the climbing loop of descendantQuery is structural in `level`.
   Running out of fuel is the distinguished result [Stuck]; IterRefine.v
   proves it does not happen.

   Aliasing.  childQuery/attributeQuery/descendantQuery return the very
   NodeNavigator object their closure keeps moving.  Every consumer in the
   modelled subset copies the node before moving it (parentQuery,
   childQuery, attributeQuery, descendantQuery, filterQuery: node.Copy()) or
   does not move it (selfQuery; NodeIterator.MoveNext copies the position into
   its own navigator), so a navigator is modelled by the VALUE of the
   position at the moment it is handed out.

   Definitions only. *)
From XP Require Import Base Doc Ast Eval.
Open Scope nat_scope.
Open Scope list_scope.

(* number of nodes of a document: elements/text/comments/root and attributes *)
Fixpoint tsize (t : tree) : nat :=
  match t with
  | T _ _ _ _ _ attrs ks =>
    S (List.length attrs +
       (fix go (l : list tree) : nat :=
          match l with [] => 0 | c :: r => tsize c + go r end) ks)
  end.

(* result of one Select call: the returned node (None = nil), the new state
   of the query, the new t.Current() *)
Inductive res (St : Type) : Type :=
| R (out : option node) (st : St) (cur : node)
| Stuck.
Arguments R {St} out st cur.
Arguments Stuck {St}.

(* `for { body }` where the body either returns or goes round again *)
Fixpoint iter_loop {X Y : Type}
         (body : (X -> node -> res Y) -> X -> node -> res Y) (fuel : nat) : X -> node -> res Y :=
  match fuel with
  | 0 => fun _ _ => Stuck
  | S k => body (iter_loop body k)
  end.

(* ---- state records: the mutable fields of the Go structs ---- *)

(* the closure of childQuery.Select captures  node  and  first *)
Inductive child_it := CI_none | CI_iter (nd : node) (first : bool).
Record child_st (St : Type) := mkChild { c_posit : nat; c_it : child_it; c_in : St }.
Arguments mkChild {St}. Arguments c_posit {St}. Arguments c_it {St}. Arguments c_in {St}.

(* the closure of attributeQuery.Select captures  node *)
Inductive attr_it := AI_none | AI_iter (nd : node).
Record attr_st (St : Type) := mkAttrSt { a_it : attr_it; a_in : St }.
Arguments mkAttrSt {St}. Arguments a_it {St}. Arguments a_in {St}.

(* the closure of descendantQuery.Select captures  node  and  first;
   posit and level are fields of the query *)
Inductive desc_it := DI_none | DI_iter (nd : node) (first : bool).
Record desc_st (St : Type) := mkDesc { d_it : desc_it; d_posit : nat; d_level : nat; d_in : St }.
Arguments mkDesc {St}. Arguments d_it {St}. Arguments d_posit {St}. Arguments d_level {St}. Arguments d_in {St}.

(* filterQuery{posit int; positmap map[int]int}; None = nil map *)
Record filter_st (St : Type) := mkFilter { f_posit : nat; f_pm : option (list (nat * nat)); f_in : St }.
Arguments mkFilter {St}. Arguments f_posit {St}. Arguments f_pm {St}. Arguments f_in {St}.

Section M1.
Variable D : tree.

Definition dfuel : nat := S (tsize D).

(* ------------------------------------------------------------------ *)
(* contextQuery / absoluteQuery : state = count *)

(*  if c.count > 0 { return nil };  c.count++;  return t.Current().Copy()  *)
Definition ctx_select (count : nat) (cur : node) : res nat :=
  if Nat.ltb 0 count then R None count cur else R (Some cur) (S count) cur.

(*  ... n = t.Current().Copy(); n.MoveToRoot()  *)
Definition abs_select (count : nat) (cur : node) : res nat :=
  if Nat.ltb 0 count then R None count cur else R (Some root_node) (S count) cur.

(* ------------------------------------------------------------------ *)
(* selfQuery, parentQuery : no fields of their own; state = state of Input *)

(*  for { node := s.Input.Select(t); if node == nil { return nil }
          if s.Predicate(node) { return node } }                          *)
Definition self_body {St} (isel : St -> node -> res St) (test : node -> bool)
           (again : St -> node -> res St) (s : St) (cur : node) : res St :=
  match isel s cur with
  | Stuck => Stuck
  | R None s' cur' => R None s' cur'
  | R (Some n) s' cur' => if test n then R (Some n) s' cur' else again s' cur'
  end.
Definition self_select {St} isel test (F : nat) : St -> node -> res St :=
  iter_loop (self_body isel test) F.

(*  for { node := p.Input.Select(t); if node == nil { return nil }
          node = node.Copy()
          if node.MoveToParent() && p.Predicate(node) { return node } }   *)
Definition parent_body {St} (isel : St -> node -> res St) (test : node -> bool)
           (again : St -> node -> res St) (s : St) (cur : node) : res St :=
  match isel s cur with
  | Stuck => Stuck
  | R None s' cur' => R None s' cur'
  | R (Some n) s' cur' =>
    match move_parent n with
    | Some p => if test p then R (Some p) s' cur' else again s' cur'
    | None => again s' cur'
    end
  end.
Definition parent_select {St} isel test (F : nat) : St -> node -> res St :=
  iter_loop (parent_body isel test) F.

(* ------------------------------------------------------------------ *)
(* childQuery *)

(* one call of the closure
     for { if (first && !node.MoveToChild()) || (!first && !node.MoveToNext()) { return nil }
           first = false
           if c.Predicate(node) { return node } }
   result: None = out of fuel; Some (returned node or nil, node', first') *)
Fixpoint child_iter_run (test : node -> bool) (fuel : nat) (nd : node) (first : bool)
  : option (option node * node * bool) :=
  match fuel with
  | 0 => None
  | S k =>
    match (if first then move_child D nd else move_next D nd) with
    | None => Some (None, nd, first)
    | Some nd' => if test nd' then Some (Some nd', nd', false) else child_iter_run test k nd' false
    end
  end.

(*  for {
      if c.iterator == nil {
        c.posit = 0
        node := c.Input.Select(t); if node == nil { return nil }
        node = node.Copy(); first := true; c.iterator = func ...
      }
      if node := c.iterator(); node != nil { c.posit++; return node }
      c.iterator = nil
    }                                                                     *)
(* the second half of the loop body: call the closure *)
Definition child_pump {St} (test : node -> bool)
           (again : child_st St -> node -> res (child_st St))
           (posit : nat) (nd : node) (first : bool) (s : St) (cur1 : node) : res (child_st St) :=
  match child_iter_run test dfuel nd first with
  | None => Stuck
  | Some (Some n, nd', first') => R (Some n) (mkChild (S posit) (CI_iter nd' first') s) cur1
  | Some (None, _, _) => again (mkChild posit CI_none s) cur1
  end.
Definition child_body {St} (isel : St -> node -> res St) (test : node -> bool)
           (again : child_st St -> node -> res (child_st St))
           (st : child_st St) (cur : node) : res (child_st St) :=
  let run := child_pump test again in
  match c_it st with
  | CI_none =>
    match isel (c_in st) cur with
    | Stuck => Stuck
    | R None s' cur' => R None (mkChild 0 CI_none s') cur'
    | R (Some n) s' cur' => run 0 n true s' cur'
    end
  | CI_iter nd first => run (c_posit st) nd first (c_in st) cur
  end.
Definition child_select {St} isel test (F : nat) : child_st St -> node -> res (child_st St) :=
  iter_loop (child_body isel test) F.

(* ------------------------------------------------------------------ *)
(* attributeQuery *)

(*  for { onAttr := node.MoveToNextAttribute(); if !onAttr { return nil }
          if a.Predicate(node) { return node } }                          *)
Fixpoint attr_iter_run (test : node -> bool) (fuel : nat) (nd : node) : option (option node * node) :=
  match fuel with
  | 0 => None
  | S k =>
    match move_next_attr D nd with
    | None => Some (None, nd)
    | Some nd' => if test nd' then Some (Some nd', nd') else attr_iter_run test k nd'
    end
  end.

(*  for {
      if a.iterator == nil {
        node := a.Input.Select(t); if node == nil { return nil }
        if node.NodeType() != ElementNode { continue }
        node = node.Copy(); a.iterator = func ...
      }
      if node := a.iterator(); node != nil { return node }
      a.iterator = nil
    }                                                                     *)
Definition attr_pump {St} (test : node -> bool)
           (again : attr_st St -> node -> res (attr_st St))
           (nd : node) (s : St) (cur1 : node) : res (attr_st St) :=
  match attr_iter_run test dfuel nd with
  | None => Stuck
  | Some (Some n, nd') => R (Some n) (mkAttrSt (AI_iter nd') s) cur1
  | Some (None, _) => again (mkAttrSt AI_none s) cur1
  end.
Definition attr_body {St} (isel : St -> node -> res St) (test : node -> bool)
           (again : attr_st St -> node -> res (attr_st St))
           (st : attr_st St) (cur : node) : res (attr_st St) :=
  let run := attr_pump test again in
  match a_it st with
  | AI_none =>
    match isel (a_in st) cur with
    | Stuck => Stuck
    | R None s' cur' => R None (mkAttrSt AI_none s') cur'
    | R (Some n) s' cur' =>
      if ntype_eqb (node_type D n) NTElem then run n s' cur'
      else again (mkAttrSt AI_none s') cur'
    end
  | AI_iter nd => run nd (a_in st) cur
  end.
Definition attr_select {St} isel test (F : nat) : attr_st St -> node -> res (attr_st St) :=
  iter_loop (attr_body isel test) F.

(* ------------------------------------------------------------------ *)
(* descendantQuery *)

(*  for { if d.level == 0 { return nil }
          if node.MoveToNext() { break }
          node.MoveToParent(); d.level = d.level - 1 }
   (moved?, node', level'); the result of MoveToParent is ignored *)
Fixpoint desc_climb (level : nat) (nd : node) : bool * node * nat :=
  match level with
  | 0 => (false, nd, 0)
  | S l =>
    match move_next D nd with
    | Some nd' => (true, nd', S l)
    | None => desc_climb l (match move_parent nd with Some p => p | None => nd end)
    end
  end.

(*  for { if node.MoveToChild() { d.level = d.level + 1 } else { climb }
          if d.Predicate(node) { return node } }                          *)
Fixpoint desc_scan (test : node -> bool) (fuel : nat) (nd : node) (level : nat)
  : option (option node * node * nat) :=
  match fuel with
  | 0 => None
  | S k =>
    let '(moved, nd1, l1) :=
        match move_child D nd with
        | Some nd' => (true, nd', S level)
        | None => desc_climb level nd
        end in
    if moved then
      if test nd1 then Some (Some nd1, nd1, l1) else desc_scan test k nd1 l1
    else Some (None, nd1, l1)
  end.

(* one call of the closure:
     if first { first = false; if d.Self && d.Predicate(node) { return node } }
     for { ... }
   result: None = out of fuel; Some (returned node or nil, node', level'); first' = false *)
Definition desc_iter_run (self : bool) (test : node -> bool) (nd : node) (first : bool) (level : nat)
  : option (option node * node * nat) :=
  if andb first (andb self (test nd)) then Some (Some nd, nd, level)
  else desc_scan test dfuel nd level.

(*  for {
      if d.iterator == nil {
        d.posit = 0
        node := d.Input.Select(t); if node == nil { return nil }
        node = node.Copy(); d.level = 0; first := true; d.iterator = func ...
      }
      if node := d.iterator(); node != nil { d.posit++; return node }
      d.iterator = nil
    }                                                                     *)
Definition desc_pump {St} (self : bool) (test : node -> bool)
           (again : desc_st St -> node -> res (desc_st St))
           (posit : nat) (nd : node) (first : bool) (level : nat) (s : St) (cur1 : node)
  : res (desc_st St) :=
  match desc_iter_run self test nd first level with
  | None => Stuck
  | Some (Some n, nd', level') => R (Some n) (mkDesc (DI_iter nd' false) (S posit) level' s) cur1
  | Some (None, _, level') => again (mkDesc DI_none posit level' s) cur1
  end.
Definition desc_body {St} (isel : St -> node -> res St) (self : bool) (test : node -> bool)
           (again : desc_st St -> node -> res (desc_st St))
           (st : desc_st St) (cur : node) : res (desc_st St) :=
  let run := desc_pump self test again in
  match d_it st with
  | DI_none =>
    match isel (d_in st) cur with
    | Stuck => Stuck
    | R None s' cur' => R None (mkDesc DI_none 0 (d_level st) s') cur'
    | R (Some n) s' cur' => run 0 n true 0 s' cur'
    end
  | DI_iter nd first => run (d_posit st) nd first (d_level st) (d_in st) cur
  end.
Definition desc_select {St} isel self test (F : nat) : desc_st St -> node -> res (desc_st St) :=
  iter_loop (desc_body isel self test) F.

(* ------------------------------------------------------------------ *)
(* filterQuery; ipos / ilvl are getNodePosition(f.Input) / getNodeDepth(f.Input) *)

(*  if f.positmap == nil { f.positmap = make(map[int]int) }
    for {
      node := f.Input.Select(t); if node == nil { return nil }
      node = node.Copy()
      root := t.Current().Copy()
      t.Current().MoveTo(node)
      ok := f.do(t)                  -- abstracted:  pred (t.Current()) (getNodePosition(f.Input))
      t.Current().MoveTo(root)
      if ok { level := getNodeDepth(f.Input); f.positmap[level]++
              f.posit = f.positmap[level]; return node }
    }                                                                     *)
Definition filter_body {St} (isel : St -> node -> res St) (ipos ilvl : St -> nat)
           (pred : node -> nat -> bool)
           (again : filter_st St -> node -> res (filter_st St))
           (st : filter_st St) (cur : node) : res (filter_st St) :=
  match isel (f_in st) cur with
  | Stuck => Stuck
  | R None s' cur' => R None (mkFilter (f_posit st) (f_pm st) s') cur'
  | R (Some n) s' cur' =>
    let root := cur' in
    let cur1 := n in                       (* t.Current().MoveTo(node) *)
    let ok := pred cur1 (ipos s') in
    let cur2 := root in                    (* t.Current().MoveTo(root) *)
    if ok then
      let pm := match f_pm st with Some m => m | None => [] end in
      let level := ilvl s' in
      let v := S (pm_get pm level) in
      R (Some n) (mkFilter v (Some (pm_set pm level v)) s') cur2
    else again (mkFilter (f_posit st) (f_pm st) s') cur2
  end.
Definition filter_select {St} isel ipos ilvl pred (F : nat) (st : filter_st St) (cur : node)
  : res (filter_st St) :=
  (* the map is made before the loop *)
  let st0 := mkFilter (f_posit st)
                      (Some (match f_pm st with Some m => m | None => [] end)) (f_in st) in
  iter_loop (filter_body isel ipos ilvl pred) F st0 cur.

(* ================================================================== *)
(* the query tree *)

Variable tst : ntest -> node -> bool.      (* axisPredicate, kept abstract *)

Inductive qconfig :=
| CContext
| CAbsolute
| CChild (t : ntest) (i : qconfig)
| CAttribute (t : ntest) (i : qconfig)
| CSelf (t : ntest) (i : qconfig)
| CParent (t : ntest) (i : qconfig)
| CDescendant (self : bool) (t : ntest) (i : qconfig)
| CFilter (nopos : bool) (pred : node -> nat -> bool) (i : qconfig).

Fixpoint state_of (q : qconfig) : Type :=
  match q with
  | CContext | CAbsolute => nat
  | CChild _ i => child_st (state_of i)
  | CAttribute _ i => attr_st (state_of i)
  | CSelf _ i | CParent _ i => state_of i
  | CDescendant _ _ i => desc_st (state_of i)
  | CFilter _ _ i => filter_st (state_of i)
  end.

(* getNodePosition: the queries with a position() method *)
Definition position_of (q : qconfig) : state_of q -> nat :=
  match q return state_of q -> nat with
  | CChild _ _ => fun s => c_posit s
  | CDescendant _ _ _ => fun s => d_posit s
  | CFilter _ _ _ => fun s => f_posit s
  | _ => fun _ => 1
  end.

(* getNodeDepth: only descendantQuery has depth() *)
Definition depth_of (q : qconfig) : state_of q -> nat :=
  match q return state_of q -> nat with
  | CDescendant _ _ _ => fun s => d_level s
  | _ => fun _ => 0
  end.

(* Select *)
Fixpoint sel_q (F : nat) (q : qconfig) : state_of q -> node -> res (state_of q) :=
  match q return state_of q -> node -> res (state_of q) with
  | CContext => ctx_select
  | CAbsolute => abs_select
  | CChild t i => child_select (sel_q F i) (tst t) F
  | CAttribute t i => attr_select (sel_q F i) (tst t) F
  | CSelf t i => self_select (sel_q F i) (tst t) F
  | CParent t i => parent_select (sel_q F i) (tst t) F
  | CDescendant self t i => desc_select (sel_q F i) self (tst t) F
  | CFilter _ pred i => filter_select (sel_q F i) (position_of i) (depth_of i) pred F
  end.

(* the zero value of the struct, as built by build.go and by Clone *)
Fixpoint init_q (q : qconfig) : state_of q :=
  match q return state_of q with
  | CContext | CAbsolute => 0
  | CChild _ i => mkChild 0 CI_none (init_q i)
  | CAttribute _ i => mkAttrSt AI_none (init_q i)
  | CSelf _ i | CParent _ i => init_q i
  | CDescendant _ _ i => mkDesc DI_none 0 0 (init_q i)
  | CFilter _ _ i => mkFilter 0 None (init_q i)
  end.

(* Evaluate: what the Go methods reset
     contextQuery/absoluteQuery:  count = 0
     childQuery/attributeQuery/descendantQuery:  Input.Evaluate(t); iterator = nil
                                  (posit and level are NOT touched)
     selfQuery/parentQuery:       Input.Evaluate(t)
     filterQuery:                 Input.Evaluate(t); posit = 0; positmap = nil *)
Fixpoint eval_q (q : qconfig) : state_of q -> state_of q :=
  match q return state_of q -> state_of q with
  | CContext | CAbsolute => fun _ => 0
  | CChild _ i => fun s => mkChild (c_posit s) CI_none (eval_q i (c_in s))
  | CAttribute _ i => fun s => mkAttrSt AI_none (eval_q i (a_in s))
  | CSelf _ i | CParent _ i => eval_q i
  | CDescendant _ _ i => fun s => mkDesc DI_none (d_posit s) (d_level s) (eval_q i (d_in s))
  | CFilter _ _ i => fun s => mkFilter 0 None (eval_q i (f_in s))
  end.

(* the configuration of a Clone: filterQuery.Clone does not copy NoPosition
     return &filterQuery{Input: f.Input.Clone(), Predicate: f.Predicate.Clone()} *)
Fixpoint clone_cfg (q : qconfig) : qconfig :=
  match q with
  | CContext => CContext
  | CAbsolute => CAbsolute
  | CChild t i => CChild t (clone_cfg i)
  | CAttribute t i => CAttribute t (clone_cfg i)
  | CSelf t i => CSelf t (clone_cfg i)
  | CParent t i => CParent t (clone_cfg i)
  | CDescendant self t i => CDescendant self t (clone_cfg i)
  | CFilter _ pred i => CFilter false pred (clone_cfg i)
  end.

(* ---- a query value: configuration together with its state ---- *)
Definition qstate : Type := { q : qconfig & state_of q }.
Definition config_of (st : qstate) : qconfig := projT1 st.
Definition fresh (q : qconfig) : qstate := existT _ q (init_q q).

Definition select1 (F : nat) (st : qstate) (cur : node) : res qstate :=
  match sel_q F (projT1 st) (projT2 st) cur with
  | Stuck => Stuck
  | R o s' cur' => R o (existT _ (projT1 st) s') cur'
  end.
Definition evaluate1 (st : qstate) : qstate := existT _ (projT1 st) (eval_q (projT1 st) (projT2 st)).
(* Clone builds a new struct from the configuration fields only; every other
   field gets Go's zero value:
     &contextQuery{}                      &absoluteQuery{}
     &childQuery{name, Input: c.Input.Clone(), Predicate}          (posit 0, iterator nil)
     &attributeQuery{name, Input: a.Input.Clone(), Predicate}
     &selfQuery{Input: s.Input.Clone(), Predicate}   &parentQuery{...}
     &descendantQuery{name, Self, Input: d.Input.Clone(), Predicate}
     &filterQuery{Input: f.Input.Clone(), Predicate: f.Predicate.Clone()}  (NoPosition false) *)
Fixpoint clone_q (q : qconfig) : state_of q -> qstate :=
  match q return state_of q -> qstate with
  | CContext => fun _ => existT state_of CContext 0
  | CAbsolute => fun _ => existT state_of CAbsolute 0
  | CChild t i => fun s =>
      let r := clone_q i (c_in s) in
      existT state_of (CChild t (projT1 r)) (mkChild 0 CI_none (projT2 r))
  | CAttribute t i => fun s =>
      let r := clone_q i (a_in s) in
      existT state_of (CAttribute t (projT1 r)) (mkAttrSt AI_none (projT2 r))
  | CSelf t i => fun s =>
      let r := clone_q i s in existT state_of (CSelf t (projT1 r)) (projT2 r)
  | CParent t i => fun s =>
      let r := clone_q i s in existT state_of (CParent t (projT1 r)) (projT2 r)
  | CDescendant self t i => fun s =>
      let r := clone_q i (d_in s) in
      existT state_of (CDescendant self t (projT1 r)) (mkDesc DI_none 0 0 (projT2 r))
  | CFilter _ pred i => fun s =>
      let r := clone_q i (f_in s) in
      existT state_of (CFilter false pred (projT1 r)) (mkFilter 0 None (projT2 r))
  end.
Definition clone1 (st : qstate) : qstate := clone_q (projT1 st) (projT2 st).
Definition position1 (st : qstate) : nat := position_of (projT1 st) (projT2 st).
Definition depth1 (st : qstate) : nat := depth_of (projT1 st) (projT2 st).

(* Select until it returns nil (at most n times), t.Current() being whatever the
   previous call left: the nodes, with position()/depth() of the query right
   after each Select, and how the run ended *)
Inductive ending := E_nil | E_more | E_stuck.

Fixpoint run (F : nat) (n : nat) (st : qstate) (cur : node) : list item * ending * qstate * node :=
  match n with
  | 0 => ([], E_more, st, cur)
  | S k =>
    match select1 F st cur with
    | Stuck => ([], E_stuck, st, cur)
    | R None st' cur' => ([], E_nil, st', cur')
    | R (Some x) st' cur' =>
      let '(l, e, st'', cur'') := run F k st' cur' in
      (mkItem x (position1 st') (depth1 st') :: l, e, st'', cur'')
    end
  end.

Definition drain_items (F n : nat) (st : qstate) (cur : node) : list item :=
  fst (fst (fst (run F n st cur))).
Definition drain (F n : nat) (st : qstate) (cur : node) : list node :=
  map it_node (drain_items F n st cur).

(* NodeIterator.MoveNext:
     n := t.query.Select(t); if n == nil { return false }
     if !t.node.MoveTo(n) { t.node = n.Copy() }; return true
   t.node IS t.Current(): after a successful MoveNext the context of the next
   Select call is the node just returned *)
Definition move_next_it (F : nat) (st : qstate) (cur : node) : res qstate :=
  match select1 F st cur with
  | Stuck => Stuck
  | R None st' cur' => R None st' cur'
  | R (Some x) st' _ => R (Some x) st' x
  end.

(* for t.MoveNext() { ... t.Current() ... } *)
Fixpoint run_iter (F : nat) (n : nat) (st : qstate) (cur : node) : list item * ending * qstate * node :=
  match n with
  | 0 => ([], E_more, st, cur)
  | S k =>
    match move_next_it F st cur with
    | Stuck => ([], E_stuck, st, cur)
    | R None st' cur' => ([], E_nil, st', cur')
    | R (Some x) st' cur' =>
      let '(l, e, st'', cur'') := run_iter F k st' cur' in
      (mkItem x (position1 st') (depth1 st') :: l, e, st'', cur'')
    end
  end.
Definition iterate_items (F n : nat) (st : qstate) (cur : node) : list item :=
  fst (fst (fst (run_iter F n st cur))).
Definition iterate (F n : nat) (st : qstate) (cur : node) : list node :=
  map it_node (iterate_items F n st cur).

End M1.
