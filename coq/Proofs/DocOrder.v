(* Proofs/DocOrder.v — document order.

   1. [doc_compare] is a strict total order on node addresses.
   2. [sorted_doc l] (strongly sorted for [doc_compare _ _ = Lt]) implies [NoDup l].
   3. One child / attribute / self / descendant step from one node yields its
      nodes in document order.
   4. A path made only of child, attribute and self steps from one context
      node ([flat_query]) never fails and yields its nodes in document order,
      without repetition; so does such a path followed by ONE descendant step.
   5. [all_nodes D] is in document order (sanity check of the order itself). *)
From XP Require Import Base F64 Doc Ast Hash Eval.
From Coq Require Import Sorted.
Open Scope nat_scope.
Open Scope list_scope.

(* ================================================================== *)
(** * 0. Generic facts on [StronglySorted] *)

Lemma SS_app {A} (R : A -> A -> Prop) (l1 l2 : list A) :
  StronglySorted R l1 -> StronglySorted R l2 ->
  (forall a b, In a l1 -> In b l2 -> R a b) ->
  StronglySorted R (l1 ++ l2).
Proof.
  induction l1 as [|x l1 IH]; cbn; intros H1 H2 H; [exact H2|].
  apply StronglySorted_inv in H1. destruct H1 as [H1 HF].
  constructor.
  - apply IH; auto.
  - apply Forall_app. split; [exact HF|].
    apply Forall_forall. intros b Hb. apply H; auto.
Qed.

Lemma SS_map {A B} (R : A -> A -> Prop) (R' : B -> B -> Prop) (f : A -> B) (l : list A) :
  (forall a b, R a b -> R' (f a) (f b)) ->
  StronglySorted R l -> StronglySorted R' (map f l).
Proof.
  intros Hf H. induction H as [|a l Hl IH HF]; cbn; constructor; auto.
  apply Forall_forall. intros y Hy. apply in_map_iff in Hy. destruct Hy as [x [E Hx]].
  subst y. apply Hf. rewrite Forall_forall in HF. auto.
Qed.

Lemma SS_filter {A} (R : A -> A -> Prop) (p : A -> bool) (l : list A) :
  StronglySorted R l -> StronglySorted R (filter p l).
Proof.
  intros H. induction H as [|a l Hl IH HF]; cbn; [constructor|].
  destruct (p a); auto. constructor; auto.
  apply Forall_forall. intros y Hy. apply filter_In in Hy. destruct Hy as [Hy _].
  rewrite Forall_forall in HF. auto.
Qed.

Lemma SS_map_seq {B} (R : B -> B -> Prop) (f : nat -> B) (a n : nat) :
  (forall i j, i < j -> R (f i) (f j)) ->
  StronglySorted R (map f (seq a n)).
Proof.
  intros H. revert a. induction n as [|n IH]; intros a; cbn; constructor; auto.
  apply Forall_forall. intros y Hy. apply in_map_iff in Hy. destruct Hy as [j [E Hj]].
  subst y. apply in_seq in Hj. apply H. lia.
Qed.

Lemma Forall_flat_map_intro {A B} (Q : B -> Prop) (f : A -> list B) (l : list A) :
  (forall n m, In n l -> In m (f n) -> Q m) -> Forall Q (flat_map f l).
Proof.
  intros H. apply Forall_forall. intros m Hm. apply in_flat_map in Hm.
  destruct Hm as [n [Hn Hm]]. eauto.
Qed.

(* ================================================================== *)
(** * 1. [path_compare] and [is_prefix] *)

Lemma path_compare_refl p : path_compare p p = Eq.
Proof. induction p as [|x p IH]; cbn; [reflexivity|]. rewrite Nat.compare_refl. exact IH. Qed.

Lemma path_compare_eq p q : path_compare p q = Eq -> p = q.
Proof.
  revert q. induction p as [|x p IH]; intros [|y q] H; cbn in H; try discriminate; auto.
  destruct (Nat.compare x y) eqn:E; try discriminate.
  apply Nat.compare_eq in E. subst. f_equal. auto.
Qed.

Lemma path_compare_antisym p q : path_compare q p = CompOpp (path_compare p q).
Proof.
  revert q. induction p as [|x p IH]; intros [|y q]; cbn; auto.
  rewrite (Nat.compare_antisym x y). destruct (Nat.compare x y); cbn; auto.
Qed.

Lemma path_compare_trans p q r :
  path_compare p q = Lt -> path_compare q r = Lt -> path_compare p r = Lt.
Proof.
  revert q r. induction p as [|x p IH]; intros [|y q] [|z r] H1 H2; cbn in *;
    try discriminate; auto.
  destruct (Nat.compare x y) eqn:E1; try discriminate;
    destruct (Nat.compare y z) eqn:E2; try discriminate.
  - apply Nat.compare_eq in E1. apply Nat.compare_eq in E2. subst.
    rewrite Nat.compare_refl. eauto.
  - apply Nat.compare_eq in E1. subst. rewrite E2. reflexivity.
  - apply Nat.compare_eq in E2. subst. rewrite E1. reflexivity.
  - apply Nat.compare_lt_iff in E1. apply Nat.compare_lt_iff in E2.
    assert (Hxz : x < z) by lia. apply Nat.compare_lt_iff in Hxz. rewrite Hxz. reflexivity.
Qed.

Lemma path_compare_app_l x a b : path_compare (x ++ a) (x ++ b) = path_compare a b.
Proof. induction x as [|i x IH]; cbn; [reflexivity|]. rewrite Nat.compare_refl. exact IH. Qed.

Lemma path_compare_ext_lt p r : r <> [] -> path_compare p (p ++ r) = Lt.
Proof.
  intros Hr. rewrite <- (app_nil_r p) at 1. rewrite path_compare_app_l.
  destruct r; [contradiction|reflexivity].
Qed.

Lemma path_compare_ext_gt p r : r <> [] -> path_compare (p ++ r) p = Gt.
Proof. intros Hr. rewrite path_compare_antisym, path_compare_ext_lt; auto. Qed.

Lemma is_prefix_refl p : is_prefix p p = true.
Proof. induction p as [|x p IH]; cbn; [reflexivity|]. rewrite Nat.eqb_refl. exact IH. Qed.

Lemma is_prefix_app p r : is_prefix p (p ++ r) = true.
Proof. induction p as [|x p IH]; cbn; [reflexivity|]. rewrite Nat.eqb_refl. exact IH. Qed.

Lemma is_prefix_inv p q : is_prefix p q = true -> exists r, q = p ++ r.
Proof.
  revert q. induction p as [|x p IH]; intros q H; cbn in *; [eauto|].
  destruct q as [|y q]; [discriminate|].
  apply andb_true_iff in H. destruct H as [Hxy H]. apply Nat.eqb_eq in Hxy. subst y.
  destruct (IH _ H) as [r Hr]. exists r. rewrite Hr. reflexivity.
Qed.

Lemma is_prefix_antisym p q : is_prefix p q = true -> is_prefix q p = true -> p = q.
Proof.
  revert q. induction p as [|x p IH]; intros [|y q] H1 H2; cbn in *; try discriminate; auto.
  apply andb_true_iff in H1. destruct H1 as [Hxy H1]. apply Nat.eqb_eq in Hxy. subst y.
  apply andb_true_iff in H2. destruct H2 as [_ H2]. f_equal. auto.
Qed.

(* two paths diverge when neither is a prefix of the other *)
Lemma same_length_not_prefix p q : List.length p = List.length q -> p <> q -> is_prefix p q = false.
Proof.
  revert q. induction p as [|x p IH]; intros [|y q] HL HN; cbn in *; try discriminate.
  - contradiction.
  - destruct (Nat.eqb_spec x y) as [e|ne]; cbn; [|reflexivity].
    subst y. apply IH; [lia|]. intros e. apply HN. rewrite e. reflexivity.
Qed.

Lemma diverge_app p q x y :
  is_prefix p q = false -> is_prefix q p = false ->
  is_prefix (p ++ x) (q ++ y) = false /\ path_compare (p ++ x) (q ++ y) = path_compare p q.
Proof.
  revert q. induction p as [|i p IH]; intros [|j q] H1 H2; cbn in H1, H2; try discriminate.
  cbn. destruct (Nat.eqb_spec i j) as [e|ne].
  - subst j. rewrite Nat.eqb_refl in H2. cbn in H1, H2. rewrite Nat.compare_refl. cbn. apply IH; auto.
  - cbn. split; [reflexivity|].
    destruct (Nat.compare i j) eqn:E; auto. apply Nat.compare_eq in E. contradiction.
Qed.

(* ================================================================== *)
(** * 2. [doc_compare] is lexicographic comparison of keys

   A child step [k] is encoded as [1; k], the attribute index [i] as [0; i];
   the order is then the lexicographic order (prefix first) on the keys. *)

Fixpoint enc (p : list nat) : list nat :=
  match p with [] => [] | x :: r => 1 :: x :: enc r end.

Definition atail (a : option nat) : list nat :=
  match a with None => [] | Some i => [0; i] end.

Definition key (n : node) : list nat := enc (npath n) ++ atail (nattr n).

Lemma enc_app p q : enc (p ++ q) = enc p ++ enc q.
Proof. induction p as [|x p IH]; cbn; [reflexivity|]. rewrite IH. reflexivity. Qed.

Lemma enc_compare_diverge p q ta tb :
  is_prefix p q = false -> is_prefix q p = false ->
  path_compare (enc p ++ ta) (enc q ++ tb) = path_compare p q.
Proof.
  revert q. induction p as [|i p IH]; intros [|j q] H1 H2; cbn in H1, H2; try discriminate.
  cbn. destruct (Nat.compare i j) eqn:E; auto.
  apply Nat.compare_eq in E. subst j. rewrite Nat.eqb_refl in H1, H2. cbn in H1, H2. auto.
Qed.

Lemma key_ext_lt p k r ta tb :
  path_compare (enc p ++ atail ta) (enc (p ++ k :: r) ++ tb) = Lt.
Proof.
  rewrite enc_app, <- app_assoc, path_compare_app_l. cbn. destruct ta; reflexivity.
Qed.

Lemma key_ext_gt p k r ta tb :
  path_compare (enc (p ++ k :: r) ++ tb) (enc p ++ atail ta) = Gt.
Proof. rewrite path_compare_antisym, key_ext_lt. reflexivity. Qed.

Lemma doc_compare_key a b : doc_compare a b = path_compare (key a) (key b).
Proof.
  destruct a as [pa aa], b as [pb ab]. unfold doc_compare, key. cbn [npath nattr].
  destruct (list_eq_dec Nat.eq_dec pa pb) as [e|ne].
  - subst pb. rewrite path_compare_app_l.
    destruct aa as [i|], ab as [j|]; cbn; auto. destruct (Nat.compare i j); reflexivity.
  - destruct (is_prefix pa pb) eqn:Pab; destruct (is_prefix pb pa) eqn:Pba.
    + exfalso. apply ne. apply is_prefix_antisym; assumption.
    + (* pa a proper prefix of pb *)
      destruct (is_prefix_inv _ _ Pab) as [r Hr]. subst pb.
      destruct r as [|k r]; [exfalso; apply ne; rewrite app_nil_r; reflexivity|].
      rewrite key_ext_lt.
      assert (HL : path_compare pa (pa ++ k :: r) = Lt) by (apply path_compare_ext_lt; discriminate).
      destruct aa, ab; auto.
    + (* pb a proper prefix of pa *)
      destruct (is_prefix_inv _ _ Pba) as [r Hr]. subst pa.
      destruct r as [|k r]; [exfalso; apply ne; rewrite app_nil_r; reflexivity|].
      rewrite key_ext_gt.
      assert (HG : path_compare (pb ++ k :: r) pb = Gt) by (apply path_compare_ext_gt; discriminate).
      destruct aa, ab; auto.
    + rewrite enc_compare_diverge by assumption. destruct aa, ab; reflexivity.
Qed.

(** ** The order properties *)

Theorem doc_compare_refl a : doc_compare a a = Eq.
Proof. rewrite doc_compare_key. apply path_compare_refl. Qed.

Theorem doc_compare_eq a b : doc_compare a b = Eq -> a = b.
Proof.
  destruct a as [pa aa], b as [pb ab]. unfold doc_compare. cbn [npath nattr].
  destruct (list_eq_dec Nat.eq_dec pa pb) as [e|ne].
  - subst pb. destruct aa as [i|], ab as [j|]; intros H; try discriminate; auto.
    apply Nat.compare_eq in H. subst. reflexivity.
  - intros H. exfalso. apply ne. apply path_compare_eq.
    destruct aa, ab; try exact H;
      try (destruct (is_prefix pa pb); [discriminate|exact H]);
      try (destruct (is_prefix pb pa); [discriminate|exact H]).
Qed.

Theorem doc_compare_eq_iff a b : doc_compare a b = Eq <-> a = b.
Proof. split; [apply doc_compare_eq|]. intros e. subst. apply doc_compare_refl. Qed.

Theorem doc_compare_opp a b : doc_compare b a = CompOpp (doc_compare a b).
Proof. rewrite !doc_compare_key. apply path_compare_antisym. Qed.

Theorem doc_compare_antisym a b : doc_compare a b = Lt <-> doc_compare b a = Gt.
Proof.
  rewrite (doc_compare_opp a b). destruct (doc_compare a b); cbn; split; intros H; auto; discriminate.
Qed.

Theorem doc_compare_trans a b c :
  doc_compare a b = Lt -> doc_compare b c = Lt -> doc_compare a c = Lt.
Proof. rewrite !doc_compare_key. apply path_compare_trans. Qed.

Theorem doc_compare_trans_gt a b c :
  doc_compare a b = Gt -> doc_compare b c = Gt -> doc_compare a c = Gt.
Proof.
  intros H1 H2. apply doc_compare_antisym. apply doc_compare_antisym in H1, H2.
  eapply doc_compare_trans; eassumption.
Qed.

Theorem doc_compare_total a b : doc_compare a b = Lt \/ a = b \/ doc_compare b a = Lt.
Proof.
  destruct (doc_compare a b) eqn:E.
  - right. left. apply doc_compare_eq. exact E.
  - left. reflexivity.
  - right. right. apply doc_compare_antisym. exact E.
Qed.

Theorem doc_compare_irrefl a : doc_compare a a <> Lt.
Proof. rewrite doc_compare_refl. discriminate. Qed.

Lemma doc_ltb_iff a b : doc_ltb a b = true <-> doc_compare a b = Lt.
Proof. unfold doc_ltb. destruct (doc_compare a b); split; intros H; auto; discriminate. Qed.

Print Assumptions doc_compare_refl.
Print Assumptions doc_compare_eq.
Print Assumptions doc_compare_antisym.
Print Assumptions doc_compare_trans.

(** ** Convenient special cases *)

Lemma doc_compare_elem p q : doc_compare (mkNode p None) (mkNode q None) = path_compare p q.
Proof.
  unfold doc_compare. cbn [npath nattr].
  destruct (list_eq_dec Nat.eq_dec p q) as [e|ne]; [|reflexivity].
  subst. rewrite path_compare_refl. reflexivity.
Qed.

Lemma doc_compare_attr p i j :
  doc_compare (mkNode p (Some i)) (mkNode p (Some j)) = Nat.compare i j.
Proof.
  unfold doc_compare. cbn [npath nattr].
  destruct (list_eq_dec Nat.eq_dec p p) as [e|ne]; [reflexivity|contradiction].
Qed.

Lemma doc_compare_elem_attr p i : doc_compare (mkNode p None) (mkNode p (Some i)) = Lt.
Proof.
  unfold doc_compare. cbn [npath nattr].
  destruct (list_eq_dec Nat.eq_dec p p) as [e|ne]; [reflexivity|contradiction].
Qed.

Lemma doc_compare_diverge a b :
  is_prefix (npath a) (npath b) = false -> is_prefix (npath b) (npath a) = false ->
  doc_compare a b = path_compare (npath a) (npath b).
Proof.
  intros H1 H2. unfold doc_compare.
  destruct (list_eq_dec Nat.eq_dec (npath a) (npath b)) as [e|ne].
  - rewrite e, is_prefix_refl in H1. discriminate.
  - rewrite H1, H2. destruct (nattr a), (nattr b); reflexivity.
Qed.

(* anything at or below an element-or-attribute address [a] precedes anything
   at or below [b], when [a] and [b] diverge *)
Lemma cross_lt a b a' b' :
  List.length (npath a) = List.length (npath b) -> npath a <> npath b ->
  doc_compare a b = Lt ->
  is_prefix (npath a) (npath a') = true -> is_prefix (npath b) (npath b') = true ->
  doc_compare a' b' = Lt.
Proof.
  intros HL HN Hab Ha Hb.
  assert (D1 : is_prefix (npath a) (npath b) = false) by (apply same_length_not_prefix; auto).
  assert (D2 : is_prefix (npath b) (npath a) = false) by (apply same_length_not_prefix; auto).
  rewrite doc_compare_diverge in Hab by assumption.
  destruct (is_prefix_inv _ _ Ha) as [x Hx]. destruct (is_prefix_inv _ _ Hb) as [y Hy].
  destruct (diverge_app _ _ x y D1 D2) as [E1 E2].
  destruct (diverge_app _ _ y x D2 D1) as [E3 _].
  rewrite doc_compare_diverge; rewrite Hx, Hy; try assumption.
  rewrite E2. exact Hab.
Qed.

Lemma same_address a b : npath a = npath b -> nattr a = nattr b -> a = b.
Proof. destruct a, b; cbn; intros; subst; reflexivity. Qed.

(* ================================================================== *)
(** * 3. [sorted_doc] *)

Definition doc_lt (a b : node) : Prop := doc_compare a b = Lt.
Definition sorted_doc (l : list node) : Prop := StronglySorted (fun a b => doc_compare a b = Lt) l.

Theorem sorted_doc_NoDup l : sorted_doc l -> NoDup l.
Proof.
  intros H. induction H as [|a l Hl IH HF]; constructor; auto.
  intros Hin. rewrite Forall_forall in HF. specialize (HF _ Hin).
  rewrite doc_compare_refl in HF. discriminate.
Qed.
Print Assumptions sorted_doc_NoDup.

(* two sorted lists with the same members are equal: the order of a result
   is determined by its set of nodes *)
Theorem sorted_doc_unique l1 l2 :
  sorted_doc l1 -> sorted_doc l2 -> (forall n, In n l1 <-> In n l2) -> l1 = l2.
Proof.
  intros H1. revert l2. induction H1 as [|a l1 Hl1 IH HF1]; intros l2 H2 Hiff.
  - destruct l2 as [|b l2]; [reflexivity|]. exfalso. apply (Hiff b). left. reflexivity.
  - destruct l2 as [|b l2]; [exfalso; apply (Hiff a); left; reflexivity|].
    apply StronglySorted_inv in H2. destruct H2 as [H2 HF2].
    rewrite Forall_forall in HF1, HF2.
    assert (Eab : a = b).
    { destruct (proj1 (Hiff a) (or_introl eq_refl)) as [e|Ha]; [auto|].
      destruct (proj2 (Hiff b) (or_introl eq_refl)) as [e|Hb]; [auto|].
      specialize (HF1 _ Hb). specialize (HF2 _ Ha).
      apply doc_compare_antisym in HF1. rewrite HF1 in HF2. discriminate. }
    subst b. f_equal. apply IH; [exact H2|].
    intros n. split; intros Hn.
    + destruct (proj1 (Hiff n) (or_intror Hn)) as [e|Hn']; [|exact Hn'].
      subst n. specialize (HF1 _ Hn). rewrite doc_compare_refl in HF1. discriminate.
    + destruct (proj2 (Hiff n) (or_intror Hn)) as [e|Hn']; [|exact Hn'].
      subst n. specialize (HF2 _ Hn). rewrite doc_compare_refl in HF2. discriminate.
Qed.

(* ================================================================== *)
(** * 4. The enumerations of Doc.v are in document order *)

Lemma children_sorted D n : sorted_doc (children D n).
Proof.
  unfold children. destruct (nattr n); [constructor|].
  apply SS_map_seq. intros i j Hij.
  rewrite doc_compare_elem, path_compare_app_l. cbn.
  apply Nat.compare_lt_iff in Hij. rewrite Hij. reflexivity.
Qed.

Lemma attributes_after_sorted D n : sorted_doc (attributes_after D n).
Proof.
  unfold attributes_after. apply SS_map_seq. intros i j Hij.
  rewrite doc_compare_attr. apply Nat.compare_lt_iff. exact Hij.
Qed.

(* [below] with its local loop named *)
Fixpoint below_go (l : list tree) (i : nat) : list (list nat) :=
  match l with
  | [] => []
  | c :: r => ([i] :: map (cons i) (below c)) ++ below_go r (S i)
  end.

Lemma below_eq t : below t = below_go (t_kids t) 0.
Proof.
  destruct t as [k p l n d a ks]. cbn [t_kids]. simpl below.
  generalize 0. induction ks as [|c r IH]; intros i; [reflexivity|].
  cbn [below_go]. simpl. rewrite IH. reflexivity.
Qed.

Lemma tree_ind' (P : tree -> Prop) :
  (forall k p l n d a ks, Forall P ks -> P (T k p l n d a ks)) -> forall t, P t.
Proof.
  intros H. fix IH 1. intros [k p l n d a ks]. apply H.
  induction ks as [|c r IHr]; constructor; [apply IH|exact IHr].
Qed.

Definition path_lt (a b : list nat) : Prop := path_compare a b = Lt.

Lemma below_go_head ks i :
  Forall (fun r => exists k r', r = k :: r' /\ i <= k) (below_go ks i).
Proof.
  revert i. induction ks as [|c ks IH]; intros i; cbn [below_go]; [constructor|].
  apply Forall_app. split.
  - constructor; [exists i, []; auto|].
    apply Forall_forall. intros y Hy. apply in_map_iff in Hy. destruct Hy as [x [E _]].
    exists i, x. auto.
  - eapply Forall_impl; [|apply (IH (S i))]. cbn. intros r [k [r' [E Hk]]].
    exists k, r'. split; [exact E|lia].
Qed.

Lemma below_nonempty t r : In r (below t) -> r <> [].
Proof.
  rewrite below_eq. intros H.
  pose proof (below_go_head (t_kids t) 0) as HF. rewrite Forall_forall in HF.
  destruct (HF _ H) as [k [r' [E _]]]. subst r. discriminate.
Qed.

Lemma below_go_sorted ks i :
  Forall (fun c => StronglySorted path_lt (below c)) ks ->
  StronglySorted path_lt (below_go ks i).
Proof.
  intros HF. revert i. induction HF as [|c ks Hc HF IH]; intros i; cbn [below_go]; [constructor|].
  apply SS_app.
  - constructor.
    + eapply SS_map; [|exact Hc]. intros a b Hab. unfold path_lt in *. cbn.
      rewrite Nat.compare_refl. exact Hab.
    + apply Forall_forall. intros y Hy. apply in_map_iff in Hy. destruct Hy as [x [E Hx]].
      subst y. unfold path_lt. cbn. rewrite Nat.compare_refl.
      apply below_nonempty in Hx. destruct x; [contradiction|reflexivity].
  - apply IH.
  - intros a b Ha Hb.
    pose proof (below_go_head ks (S i)) as HH. rewrite Forall_forall in HH.
    destruct (HH _ Hb) as [k [r' [E Hk]]]. subst b.
    assert (Ha' : exists x, a = i :: x).
    { destruct Ha as [e|Ha]; [exists []; auto|].
      apply in_map_iff in Ha. destruct Ha as [x [E _]]. exists x. auto. }
    destruct Ha' as [x E]. subst a. unfold path_lt. cbn.
    assert (Hik : i < k) by lia. apply Nat.compare_lt_iff in Hik. rewrite Hik. reflexivity.
Qed.

Lemma below_sorted t : StronglySorted path_lt (below t).
Proof.
  induction t as [k p l n d a ks HF] using tree_ind'.
  rewrite below_eq. cbn [t_kids]. apply below_go_sorted. exact HF.
Qed.

Lemma descendants_sorted D n : sorted_doc (descendants D n).
Proof.
  unfold descendants. destruct (nattr n); [constructor|].
  destruct (node_tree D n) as [s|]; [|constructor].
  eapply SS_map; [|apply below_sorted]. intros a b Hab.
  rewrite doc_compare_elem, path_compare_app_l. exact Hab.
Qed.

Lemma descendants_inv D n m :
  In m (descendants D n) ->
  nattr n = None /\ nattr m = None /\ exists r, r <> [] /\ npath m = npath n ++ r.
Proof.
  unfold descendants. destruct (nattr n); [intros []|].
  destruct (node_tree D n) as [s|]; [|intros []].
  intros H. apply in_map_iff in H. destruct H as [r [E Hr]]. subst m. cbn.
  split; [reflexivity|]. split; [reflexivity|]. exists r. split; [|reflexivity].
  eapply below_nonempty. exact Hr.
Qed.

Lemma desc_or_self_sorted D n : sorted_doc (desc_or_self D n).
Proof.
  unfold desc_or_self. constructor; [apply descendants_sorted|].
  apply Forall_forall. intros m Hm. apply descendants_inv in Hm.
  destruct Hm as [Hn [Hm [r [Hr E]]]].
  destruct n as [p a], m as [q b]. cbn in *. subst a b q.
  rewrite doc_compare_elem. apply path_compare_ext_lt. exact Hr.
Qed.

(* ================================================================== *)
(** * 5. One step from one node *)

Lemma nodes_of_number_from k lvl l : nodes_of (number_from k lvl l) = l.
Proof. revert k. induction l as [|n l IH]; intros k; cbn; [reflexivity|]. f_equal. apply IH. Qed.

Lemma nodes_of_numbered l : nodes_of (numbered l) = l.
Proof. apply nodes_of_number_from. Qed.

Lemma nodes_of_unnumbered l : nodes_of (unnumbered l) = l.
Proof. unfold nodes_of, unnumbered. rewrite map_map. cbn. apply map_id. Qed.

Lemma nodes_of_number_desc k b l : nodes_of (number_desc k b l) = l.
Proof. revert k. induction l as [|n l IH]; intros k; cbn; [reflexivity|]. f_equal. apply IH. Qed.

Lemma nodes_of_flat_map (f : node -> list item) (l : list item) :
  nodes_of (flat_map (fun it => f (it_node it)) l)
  = flat_map (fun n => nodes_of (f n)) (nodes_of l).
Proof.
  induction l as [|it l IH]; cbn; [reflexivity|].
  unfold nodes_of in *. rewrite map_app, IH. reflexivity.
Qed.

Section Steps.
Variable D : tree.
Variable has_ns : bool.

Lemma nodes_of_step_child t n :
  nodes_of (step_child D has_ns t n) = filter (match_test D has_ns t) (children D n).
Proof. unfold step_child. apply nodes_of_numbered. Qed.

Lemma nodes_of_step_descendant self t n :
  nodes_of (step_descendant D has_ns self t n)
  = filter (match_test D has_ns t) ((if self then [n] else []) ++ descendants D n).
Proof. unfold step_descendant. apply nodes_of_number_desc. Qed.

(* No validity hypothesis is needed: the addresses produced are ordered
   whatever the document. *)
Theorem step_child_sorted t n : sorted_doc (nodes_of (step_child D has_ns t n)).
Proof. rewrite nodes_of_step_child. apply SS_filter. apply children_sorted. Qed.

Theorem step_attribute_sorted t n : sorted_doc (nodes_of (step_attribute D has_ns t n)).
Proof.
  unfold step_attribute. destruct (node_type D n); try constructor.
  rewrite nodes_of_unnumbered. apply SS_filter. apply attributes_after_sorted.
Qed.

Theorem step_self_sorted t n : sorted_doc (nodes_of (step_self D has_ns t n)).
Proof.
  unfold step_self. destruct (match_test D has_ns t n); cbn; repeat constructor.
Qed.

Theorem step_descendant_sorted self t n :
  sorted_doc (nodes_of (step_descendant D has_ns self t n)).
Proof.
  rewrite nodes_of_step_descendant. apply SS_filter.
  destruct self; cbn [app]; [apply desc_or_self_sorted|apply descendants_sorted].
Qed.

(* the statements of the task, for a valid non-attribute node *)
Corollary step_child_sorted_valid t n :
  valid D n = true -> nattr n = None -> sorted_doc (nodes_of (step_child D has_ns t n)).
Proof. intros _ _. apply step_child_sorted. Qed.
Corollary step_attribute_sorted_valid t n :
  valid D n = true -> nattr n = None -> sorted_doc (nodes_of (step_attribute D has_ns t n)).
Proof. intros _ _. apply step_attribute_sorted. Qed.
Corollary step_descendant_sorted_valid self t n :
  valid D n = true -> nattr n = None ->
  sorted_doc (nodes_of (step_descendant D has_ns self t n)).
Proof. intros _ _. apply step_descendant_sorted. Qed.

(** ** Where the results of a step lie *)

Lemma step_child_inv t n m :
  In m (nodes_of (step_child D has_ns t n)) ->
  nattr n = None /\ exists i, m = mkNode (npath n ++ [i]) None.
Proof.
  rewrite nodes_of_step_child. intros H. apply filter_In in H. destruct H as [H _].
  unfold children in H. destruct (nattr n); [destruct H|].
  apply in_map_iff in H. destruct H as [i [E _]]. split; [reflexivity|]. exists i. auto.
Qed.

Lemma step_attribute_inv t n m :
  In m (nodes_of (step_attribute D has_ns t n)) ->
  nattr n = None /\ exists j, m = mkNode (npath n) (Some j).
Proof.
  unfold step_attribute. destruct (node_type D n) eqn:E; try (intros []).
  rewrite nodes_of_unnumbered. intros H. apply filter_In in H. destruct H as [H _].
  unfold node_type in E. unfold attributes_after in H.
  destruct (nattr n); [discriminate|].
  apply in_map_iff in H. destruct H as [j [Ej _]]. split; [reflexivity|]. exists j. auto.
Qed.

Lemma step_self_inv t n m : In m (nodes_of (step_self D has_ns t n)) -> m = n.
Proof.
  unfold step_self. destruct (match_test D has_ns t n); cbn; intros H; [|destruct H].
  destruct H as [e|[]]. auto.
Qed.

Lemma step_descendant_inv self t n m :
  In m (nodes_of (step_descendant D has_ns self t n)) ->
  m = n \/ (nattr n = None /\ nattr m = None /\ exists r, r <> [] /\ npath m = npath n ++ r).
Proof.
  rewrite nodes_of_step_descendant. intros H. apply filter_In in H. destruct H as [H _].
  apply in_app_or in H. destruct H as [H|H].
  - destruct self; [|destruct H]. destruct H as [e|[]]. auto.
  - right. eapply descendants_inv. exact H.
Qed.

End Steps.

(* ================================================================== *)
(** * 6. Composition *)

Definition same_depth (l : list node) : Prop :=
  exists d, Forall (fun n => List.length (npath n) = d) l.

(* all elements (non-attribute addresses) or all attributes *)
Definition uniform (l : list node) : Prop :=
  Forall (fun n => nattr n = None) l \/ Forall (fun n => nattr n <> None) l.

(* what holds of the result of a flat path: in document order, all at one
   depth (so that none is an ancestor of another), all of one sort *)
Definition flat_inv (l : list node) : Prop := sorted_doc l /\ same_depth l /\ uniform l.

Lemma flat_map_sorted (f : node -> list node) (l : list node) :
  sorted_doc l -> same_depth l ->
  (forall n, sorted_doc (f n)) ->
  (forall n m, In m (f n) -> is_prefix (npath n) (npath m) = true) ->
  (forall a b a' b', In a l -> In b l -> npath a = npath b -> doc_compare a b = Lt ->
                     In a' (f a) -> In b' (f b) -> doc_compare a' b' = Lt) ->
  sorted_doc (flat_map f l).
Proof.
  intros Hs [d Hd] Hf Hp Hsame. revert Hs Hd Hsame.
  induction l as [|a l IH]; intros Hs Hd Hsame; cbn [flat_map]; [constructor|].
  apply StronglySorted_inv in Hs. destruct Hs as [Hs Ha].
  apply Forall_cons_iff in Hd. destruct Hd as [Hda Hd].
  rewrite Forall_forall in Ha, Hd.
  apply SS_app.
  - apply Hf.
  - apply IH; auto.
    + apply Forall_forall. exact Hd.
    + intros x y x' y' Hx Hy. apply Hsame; right; assumption.
  - intros a' b' Ha' Hb'. apply in_flat_map in Hb'. destruct Hb' as [b [Hb Hb']].
    destruct (list_eq_dec Nat.eq_dec (npath a) (npath b)) as [e|ne].
    + apply (Hsame a b); auto; [left; reflexivity|right; exact Hb].
    + apply (cross_lt a b); auto. rewrite Hda, (Hd _ Hb). reflexivity.
Qed.

Lemma same_path_elems_not_lt a b :
  npath a = npath b -> nattr a = None -> nattr b = None -> doc_compare a b = Lt -> False.
Proof.
  intros Hp Ha Hb Hlt. assert (E : a = b) by (apply same_address; congruence).
  subst b. rewrite doc_compare_refl in Hlt. discriminate.
Qed.

Section Flat.
Variable D : tree.
Variable has_ns : bool.

Lemma child_step_inv t l :
  flat_inv l -> flat_inv (flat_map (fun n => nodes_of (step_child D has_ns t n)) l).
Proof.
  intros [Hs [[d Hd] Hu]]. split; [|split].
  - apply flat_map_sorted; auto.
    + exists d. exact Hd.
    + intros n. apply step_child_sorted.
    + intros n m H. apply step_child_inv in H. destruct H as [_ [i E]]. subst m. cbn.
      apply is_prefix_app.
    + intros a b a' b' _ _ Hp Hlt Ha' Hb'. exfalso.
      apply step_child_inv in Ha'. apply step_child_inv in Hb'.
      destruct Ha' as [Ha _]. destruct Hb' as [Hb _].
      eapply same_path_elems_not_lt; eassumption.
  - exists (S d). apply Forall_flat_map_intro. intros n m Hn Hm.
    apply step_child_inv in Hm. destruct Hm as [_ [i E]]. subst m. cbn.
    rewrite Forall_forall in Hd. rewrite app_length, (Hd _ Hn). cbn. lia.
  - left. apply Forall_flat_map_intro. intros n m Hn Hm.
    apply step_child_inv in Hm. destruct Hm as [_ [i E]]. subst m. reflexivity.
Qed.

Lemma attribute_step_inv t l :
  flat_inv l -> flat_inv (flat_map (fun n => nodes_of (step_attribute D has_ns t n)) l).
Proof.
  intros [Hs [[d Hd] Hu]]. split; [|split].
  - apply flat_map_sorted; auto.
    + exists d. exact Hd.
    + intros n. apply step_attribute_sorted.
    + intros n m H. apply step_attribute_inv in H. destruct H as [_ [i E]]. subst m. cbn.
      apply is_prefix_refl.
    + intros a b a' b' _ _ Hp Hlt Ha' Hb'. exfalso.
      apply step_attribute_inv in Ha'. apply step_attribute_inv in Hb'.
      destruct Ha' as [Ha _]. destruct Hb' as [Hb _].
      eapply same_path_elems_not_lt; eassumption.
  - exists d. apply Forall_flat_map_intro. intros n m Hn Hm.
    apply step_attribute_inv in Hm. destruct Hm as [_ [i E]]. subst m. cbn.
    rewrite Forall_forall in Hd. auto.
  - right. apply Forall_flat_map_intro. intros n m Hn Hm.
    apply step_attribute_inv in Hm. destruct Hm as [_ [i E]]. subst m. cbn. discriminate.
Qed.

Lemma self_step_inv t l :
  flat_inv l -> flat_inv (flat_map (fun n => nodes_of (step_self D has_ns t n)) l).
Proof.
  intros [Hs [[d Hd] Hu]].
  assert (Hsub : forall (Q : node -> Prop), Forall Q l ->
             Forall Q (flat_map (fun n => nodes_of (step_self D has_ns t n)) l)).
  { intros Q HQ. apply Forall_flat_map_intro. intros n m Hn Hm.
    apply step_self_inv in Hm. subst m. rewrite Forall_forall in HQ. auto. }
  split; [|split].
  - apply flat_map_sorted; auto.
    + exists d. exact Hd.
    + intros n. apply step_self_sorted.
    + intros n m H. apply step_self_inv in H. subst m. apply is_prefix_refl.
    + intros a b a' b' _ _ Hp Hlt Ha' Hb'.
      apply step_self_inv in Ha'. apply step_self_inv in Hb'. subst. exact Hlt.
  - exists d. apply Hsub. exact Hd.
  - destruct Hu as [Hu|Hu]; [left|right]; apply Hsub; exact Hu.
Qed.

(* one descendant step after a flat path *)
Lemma descendant_step_sorted self t l :
  flat_inv l -> sorted_doc (flat_map (fun n => nodes_of (step_descendant D has_ns self t n)) l).
Proof.
  intros [Hs [[d Hd] Hu]].
  apply flat_map_sorted; auto.
  - exists d. exact Hd.
  - intros n. apply step_descendant_sorted.
  - intros n m H. apply step_descendant_inv in H.
    destruct H as [e|[_ [_ [r [_ E]]]]]; [subst m; apply is_prefix_refl|].
    rewrite E. apply is_prefix_app.
  - intros a b a' b' Hal Hbl Hp Hlt Ha' Hb'.
    destruct Hu as [Hu|Hu]; rewrite Forall_forall in Hu.
    + exfalso. eapply same_path_elems_not_lt; eauto.
    + apply step_descendant_inv in Ha'. apply step_descendant_inv in Hb'.
      destruct Ha' as [ea|[Ha _]]; [|exfalso; exact (Hu _ Hal Ha)].
      destruct Hb' as [eb|[Hb _]]; [|exfalso; exact (Hu _ Hbl Hb)].
      subst. exact Hlt.
Qed.

End Flat.

Lemma flat_inv_singleton n : flat_inv [n].
Proof.
  split; [|split].
  - repeat constructor.
  - exists (List.length (npath n)). repeat constructor.
  - destruct (nattr n) eqn:E; [right|left]; repeat constructor; congruence.
Qed.

(* ================================================================== *)
(** * 7. Flat queries *)

Inductive flat_query : query -> Prop :=
| FQ_ctx : flat_query QContext
| FQ_abs : flat_query QAbsolute
| FQ_child t i : flat_query i -> flat_query (QChild t i)
| FQ_cchild t i : flat_query i -> flat_query (QCachedChild t i)
| FQ_attr t i : flat_query i -> flat_query (QAttribute t i)
| FQ_self t i : flat_query i -> flat_query (QSelf t i).

Section Sel.
Variable D : tree.
Variable has_ns : bool.
Variable hcode : node -> N.
Variable rm : string -> string -> option bool.
Variable rn : string -> nat.
Variable rr : string -> string -> string -> string.

Notation SEL := (sel D has_ns hcode rm rn rr).

Lemma sel_context c : SEL QContext c = Val [mkItem c 1 0].
Proof. reflexivity. Qed.
Lemma sel_absolute c : SEL QAbsolute c = Val [mkItem root_node 1 0].
Proof. reflexivity. Qed.
Lemma sel_child t i c :
  SEL (QChild t i) c = do l <- SEL i c; Val (flat_map (fun it => step_child D has_ns t (it_node it)) l).
Proof. reflexivity. Qed.
Lemma sel_cached_child t i c :
  SEL (QCachedChild t i) c = do l <- SEL i c; Val (flat_map (fun it => step_child D has_ns t (it_node it)) l).
Proof. reflexivity. Qed.
Lemma sel_attribute t i c :
  SEL (QAttribute t i) c = do l <- SEL i c; Val (flat_map (fun it => step_attribute D has_ns t (it_node it)) l).
Proof. reflexivity. Qed.
Lemma sel_self t i c :
  SEL (QSelf t i) c = do l <- SEL i c; Val (flat_map (fun it => step_self D has_ns t (it_node it)) l).
Proof. reflexivity. Qed.
Lemma sel_descendant self t i c :
  SEL (QDescendant self t i) c
  = do l <- SEL i c; Val (flat_map (fun it => step_descendant D has_ns self t (it_node it)) l).
Proof. reflexivity. Qed.

Lemma obind_val_inv {A B} (x : outcome A) (f : A -> outcome B) (b : B) :
  obind x f = Val b -> exists a, x = Val a /\ f a = Val b.
Proof. destruct x; cbn; intros H; try discriminate. eauto. Qed.

Lemma flat_inv_sel q : flat_query q -> forall c l, SEL q c = Val l -> flat_inv (nodes_of l).
Proof.
  induction 1 as [| |t i Hi IH|t i Hi IH|t i Hi IH|t i Hi IH]; intros c l H.
  - rewrite sel_context in H. inversion H. subst l. apply flat_inv_singleton.
  - rewrite sel_absolute in H. inversion H. subst l. apply flat_inv_singleton.
  - rewrite sel_child in H. apply obind_val_inv in H. destruct H as [l0 [E H]].
    inversion H. subst l. rewrite nodes_of_flat_map. apply child_step_inv. eapply IH. exact E.
  - rewrite sel_cached_child in H. apply obind_val_inv in H. destruct H as [l0 [E H]].
    inversion H. subst l. rewrite nodes_of_flat_map. apply child_step_inv. eapply IH. exact E.
  - rewrite sel_attribute in H. apply obind_val_inv in H. destruct H as [l0 [E H]].
    inversion H. subst l. rewrite nodes_of_flat_map. apply attribute_step_inv. eapply IH. exact E.
  - rewrite sel_self in H. apply obind_val_inv in H. destruct H as [l0 [E H]].
    inversion H. subst l. rewrite nodes_of_flat_map. apply self_step_inv. eapply IH. exact E.
Qed.

Lemma flat_never_fails_sec q : flat_query q -> forall c, exists l, SEL q c = Val l.
Proof.
  induction 1 as [| |t i Hi IH|t i Hi IH|t i Hi IH|t i Hi IH]; intros c.
  - eexists. apply sel_context.
  - eexists. apply sel_absolute.
  - destruct (IH c) as [l E]. rewrite sel_child, E. cbn. eexists. reflexivity.
  - destruct (IH c) as [l E]. rewrite sel_cached_child, E. cbn. eexists. reflexivity.
  - destruct (IH c) as [l E]. rewrite sel_attribute, E. cbn. eexists. reflexivity.
  - destruct (IH c) as [l E]. rewrite sel_self, E. cbn. eexists. reflexivity.
Qed.

Lemma flat_descendant_sorted_sec q self t c l :
  flat_query q -> SEL (QDescendant self t q) c = Val l -> sorted_doc (nodes_of l).
Proof.
  intros Hq H. rewrite sel_descendant in H. apply obind_val_inv in H. destruct H as [l0 [E H]].
  inversion H. subst l. rewrite nodes_of_flat_map. apply descendant_step_sorted.
  eapply flat_inv_sel; eassumption.
Qed.

End Sel.

(** ** Main theorems *)

(* the strongest form: no hypothesis on the context node *)
Theorem flat_sorted_any : forall D has_ns hcode rm rn rr q c l,
  flat_query q ->
  sel D has_ns hcode rm rn rr q c = Val l -> sorted_doc (nodes_of l).
Proof. intros D has_ns hcode rm rn rr q c l Hq H. eapply flat_inv_sel; eassumption. Qed.

Theorem flat_sorted : forall D has_ns hcode rm rn rr q c l,
  flat_query q -> valid D c = true ->
  sel D has_ns hcode rm rn rr q c = Val l -> sorted_doc (nodes_of l).
Proof. intros D has_ns hcode rm rn rr q c l Hq _ H. eapply flat_sorted_any; eassumption. Qed.
Print Assumptions flat_sorted.

Theorem flat_never_fails : forall D has_ns hcode rm rn rr q c,
  flat_query q -> exists l, sel D has_ns hcode rm rn rr q c = Val l.
Proof. intros. apply flat_never_fails_sec. assumption. Qed.
Print Assumptions flat_never_fails.

Corollary flat_nodup : forall D has_ns hcode rm rn rr q c l,
  flat_query q -> valid D c = true ->
  sel D has_ns hcode rm rn rr q c = Val l -> NoDup (nodes_of l).
Proof. intros. apply sorted_doc_NoDup. eapply flat_sorted; eassumption. Qed.
Print Assumptions flat_nodup.

(* all results of a flat path are at one depth and of one sort *)
Theorem flat_same_depth : forall D has_ns hcode rm rn rr q c l,
  flat_query q ->
  sel D has_ns hcode rm rn rr q c = Val l -> same_depth (nodes_of l) /\ uniform (nodes_of l).
Proof. intros D has_ns hcode rm rn rr q c l Hq H. eapply flat_inv_sel; eassumption. Qed.

(** ** A single descendant step *)

Theorem descendant_context_sorted : forall D has_ns hcode rm rn rr self t c l,
  sel D has_ns hcode rm rn rr (QDescendant self t QContext) c = Val l -> sorted_doc (nodes_of l).
Proof. intros. eapply flat_descendant_sorted_sec; [apply FQ_ctx|eassumption]. Qed.

Theorem descendant_absolute_sorted : forall D has_ns hcode rm rn rr self t c l,
  sel D has_ns hcode rm rn rr (QDescendant self t QAbsolute) c = Val l -> sorted_doc (nodes_of l).
Proof. intros. eapply flat_descendant_sorted_sec; [apply FQ_abs|eassumption]. Qed.

(* more generally: a flat path followed by one descendant step, e.g. /a/b//c *)
Theorem flat_descendant_sorted : forall D has_ns hcode rm rn rr q self t c l,
  flat_query q ->
  sel D has_ns hcode rm rn rr (QDescendant self t q) c = Val l -> sorted_doc (nodes_of l).
Proof. intros. eapply flat_descendant_sorted_sec; eassumption. Qed.
Print Assumptions flat_descendant_sorted.

Corollary flat_descendant_nodup : forall D has_ns hcode rm rn rr q self t c l,
  flat_query q ->
  sel D has_ns hcode rm rn rr (QDescendant self t q) c = Val l -> NoDup (nodes_of l).
Proof. intros. apply sorted_doc_NoDup. eapply flat_descendant_sorted; eassumption. Qed.

Theorem flat_descendant_never_fails : forall D has_ns hcode rm rn rr q self t c,
  flat_query q -> exists l, sel D has_ns hcode rm rn rr (QDescendant self t q) c = Val l.
Proof.
  intros D has_ns hcode rm rn rr q self t c Hq.
  destruct (flat_never_fails D has_ns hcode rm rn rr q c Hq) as [l E].
  rewrite sel_descendant, E. cbn. eexists. reflexivity.
Qed.

(* ================================================================== *)
(** * 8. [all_nodes D] lists the nodes in document order *)

Lemma key_elem_lt p q ta tb :
  path_compare p q = Lt -> path_compare (enc p ++ atail ta) (enc q ++ atail tb) = Lt.
Proof.
  revert q. induction p as [|x p IH]; intros [|y q] H; cbn in H; try discriminate.
  - cbn. destruct ta; reflexivity.
  - cbn. destruct (Nat.compare x y); try discriminate; auto.
Qed.

Lemma elem_with_attrs_sorted D n :
  nattr n = None -> sorted_doc (n :: attributes_after D n).
Proof.
  intros Hn. constructor; [apply attributes_after_sorted|].
  apply Forall_forall. intros m Hm. unfold attributes_after in Hm.
  apply in_map_iff in Hm. destruct Hm as [j [E _]]. subst m.
  destruct n as [p a]. cbn in *. subst a. apply doc_compare_elem_attr.
Qed.

Theorem all_nodes_sorted D : sorted_doc (all_nodes D).
Proof.
  unfold all_nodes.
  assert (Hnone : Forall (fun n => nattr n = None) (desc_or_self D root_node)).
  { unfold desc_or_self. constructor; [reflexivity|].
    apply Forall_forall. intros m Hm. apply descendants_inv in Hm. tauto. }
  pose proof (desc_or_self_sorted D root_node) as Hs.
  induction Hs as [|a l Hl IH HF]; cbn [flat_map]; [constructor|].
  apply Forall_cons_iff in Hnone. destruct Hnone as [Ha Hnone].
  rewrite <- app_comm_cons. change (sorted_doc ((a :: attributes_after D a) ++
      flat_map (fun n => n :: attributes_after D n) l)).
  apply SS_app.
  - apply elem_with_attrs_sorted. exact Ha.
  - apply IH. exact Hnone.
  - intros a' b' Ha' Hb'. apply in_flat_map in Hb'. destruct Hb' as [b [Hb Hb']].
    rewrite Forall_forall in HF, Hnone. specialize (HF _ Hb). specialize (Hnone _ Hb).
    assert (Hpa : exists ta, key a' = enc (npath a) ++ atail ta).
    { destruct Ha' as [e|Ha'].
      - subst a'. exists None. unfold key. rewrite Ha. reflexivity.
      - unfold attributes_after in Ha'. apply in_map_iff in Ha'. destruct Ha' as [j [E _]].
        subst a'. exists (Some j). reflexivity. }
    assert (Hpb : exists tb, key b' = enc (npath b) ++ atail tb).
    { destruct Hb' as [e|Hb'].
      - subst b'. exists None. unfold key. rewrite Hnone. reflexivity.
      - unfold attributes_after in Hb'. apply in_map_iff in Hb'. destruct Hb' as [j [E _]].
        subst b'. exists (Some j). reflexivity. }
    destruct Hpa as [ta Ea]. destruct Hpb as [tb Eb].
    rewrite doc_compare_key, Ea, Eb. apply key_elem_lt.
    destruct a as [pa aa], b as [pb ab]. cbn in *. subst aa ab.
    rewrite doc_compare_elem in HF. exact HF.
Qed.
Print Assumptions all_nodes_sorted.

Corollary all_nodes_NoDup D : NoDup (all_nodes D).
Proof. apply sorted_doc_NoDup. apply all_nodes_sorted. Qed.

(* ================================================================== *)
(** * 9. Examples *)

Module Examples.

Definition el (name : string) (attrs : list attr) (kids : list tree) : tree :=
  T KElem "" name "" "" attrs kids.
Definition tx (s : string) : tree := T KText "" "" "" s [] [].
Definition at_ (name v : string) : attr := mkAttr "" name "" v.

(* <a x="1" y="2"><b z="3"><d/></b>text<c><e/></c></a> *)
Definition doc : tree :=
  T KRoot "" "" "" "" []
    [ el "a" [at_ "x" "1"; at_ "y" "2"]
         [ el "b" [at_ "z" "3"] [el "d" [] []];
           tx "text";
           el "c" [] [el "e" [] []] ] ].

Definition star : ntest := mkTest NTAll "" "" false "".
Definition named (s : string) : ntest := mkTest NTElem "" s false "".

Definition run (q : query) (c : node) : outcome (list node) :=
  omap nodes_of
       (sel doc false (fun _ => 0%N) (fun _ _ => None) (fun _ => 0) (fun _ s _ => s) q c).

Definition e (p : list nat) : node := mkNode p None.
Definition a (p : list nat) (i : nat) : node := mkNode p (Some i).

(* /a/node() *)
Definition q1 : query := QChild star (QChild (named "a") QAbsolute).
Example q1_flat : flat_query q1.
Proof. repeat constructor. Qed.
Example q1_result : run q1 root_node = Val [e [0;0]; e [0;1]; e [0;2]].
Proof. vm_compute. reflexivity. Qed.
Example q1_sorted : sorted_doc [e [0;0]; e [0;1]; e [0;2]].
Proof.
  pose proof (flat_never_fails doc false (fun _ => 0%N) (fun _ _ => None) (fun _ => 0)
                               (fun _ s _ => s) q1 root_node q1_flat) as [l E].
  pose proof (flat_sorted doc false _ _ _ _ q1 root_node l q1_flat eq_refl E) as H.
  pose proof q1_result as R. unfold run in R. rewrite E in R. cbn [omap obind] in R.
  injection R as R'. rewrite <- R'. exact H.
Qed.

(* ./*/self::node()/@*  from the context node <a>: attributes of several elements *)
Definition q2 : query := QAttribute star (QSelf star (QCachedChild star QContext)).
Example q2_flat : flat_query q2.
Proof. repeat constructor. Qed.
Example q2_result : run q2 (e [0]) = Val [a [0;0] 0].
Proof. vm_compute. reflexivity. Qed.

(* /*/@* | then nothing below an attribute *)
Definition q3 : query := QAttribute star (QChild star QAbsolute).
Example q3_result : run q3 root_node = Val [a [0] 0; a [0] 1].
Proof. vm_compute. reflexivity. Qed.
Example q3_child_empty : run (QChild star q3) root_node = Val [].
Proof. vm_compute. reflexivity. Qed.

(* an attribute as context node: self::node() keeps it *)
Example q_attr_ctx : valid doc (a [0] 1) = true /\ run (QSelf star QContext) (a [0] 1) = Val [a [0] 1].
Proof. vm_compute. split; reflexivity. Qed.

(* /a/descendant-or-self::node() : a flat path followed by one descendant step *)
Definition q4 : query := QDescendant true star (QChild (named "a") QAbsolute).
Example q4_result :
  run q4 root_node = Val [e [0]; e [0;0]; e [0;0;0]; e [0;1]; e [0;2]; e [0;2;0]].
Proof. vm_compute. reflexivity. Qed.

(* /a/*//*  : descendants of several siblings *)
Definition q5 : query := QDescendant false star (QChild star (QChild (named "a") QAbsolute)).
Example q5_result : run q5 root_node = Val [e [0;0;0]; e [0;2;0]].
Proof. vm_compute. reflexivity. Qed.

(* the whole document in document order *)
Example all_nodes_doc :
  all_nodes doc = [e []; e [0]; a [0] 0; a [0] 1; e [0;0]; a [0;0] 0; e [0;0;0];
                   e [0;1]; e [0;2]; e [0;2;0]].
Proof. vm_compute. reflexivity. Qed.

(* Why the restriction to ONE descendant step: two descendant steps in a row
   return a node once per matching ancestor, and out of document order. *)
Definition q_bad : query := QDescendant false star (QDescendant false star QAbsolute).
Example q_bad_result :
  run q_bad root_node
  = Val [e [0;0]; e [0;0;0]; e [0;1]; e [0;2]; e [0;2;0]; e [0;0;0]; e [0;2;0]].
Proof. vm_compute. reflexivity. Qed.
Example q_bad_not_sorted : forall l, run q_bad root_node = Val l -> ~ NoDup l.
Proof.
  intros l H. rewrite q_bad_result in H. inversion H. subst l. intros HN.
  repeat match goal with H : NoDup (_ :: _) |- _ => inversion H; clear H; subst end.
  match goal with H : ~ In (e [0;0;0]) _ |- _ => apply H; cbn; tauto end.
Qed.

End Examples.
