(* Proofs/BuildOps.v — properties C07 / C08, builder link.

   [process] on an operator node  AOp op l r :  the operands are built with
   the flags None, firstInput threaded left to right; the result is the
   numeric / logical / boolean / union query over the operand queries.

   Then the end-to-end corollaries: IF the text parses to  AOp op a1 a2  and
   the operands build to q1 and q2 THEN Compile of the text returns the
   operator query over q1 q2, and its VALUE is the XPath 1.0 meaning of the
   operator applied to the values of q1 and q2 (Compare.v, Arith.v, HashInj.v).
   With the round trip of RoundTripPaths.v the parse hypothesis is discharged
   for printed expressions  E1 op E2  and  -E. *)
From XP Require Import Base F64 Doc Ast Scan Parse Build Hash Eval Api.
From XP.Spec Require Import Values.
From XP.Proofs Require Import BuildFacts HashInj AxesSound Compare Arith
                              ParseTerm ScanTokens RoundTripOps RoundTripPaths.
Require Import Lia ZArith.
Open Scope string_scope.
Open Scope nat_scope.
Open Scope list_scope.

(* ------------------------------------------------------------------ *)
(** * 1. The operator switch of processOperator                         *)
(* ------------------------------------------------------------------ *)

Definition op_query (op : string) (ql qr : query) : query :=
  match arith_of op, cmp_of op with
  | Some o, _ => QNumeric o ql qr
  | _, Some o => QLogical o ql qr
  | None, None =>
    if String.eqb op "or" then QBoolean true ql qr
    else if String.eqb op "and" then QBoolean false ql qr
    else if String.eqb op "|" then QUnion ql qr
    else QNil
  end.

(* the union marks its result as not flat; nothing else is added *)
Definition op_props (op : string) (pr : props) : props :=
  if String.eqb op "|" then set_nonflat pr else pr.

(* the five classes of operator names *)
Inductive op_class : string -> (query -> query -> query) -> Prop :=
| OC_arith : forall op o, arith_of op = Some o -> op_class op (QNumeric o)
| OC_cmp : forall op o, cmp_of op = Some o -> op_class op (QLogical o)
| OC_or : op_class "or" (QBoolean true)
| OC_and : op_class "and" (QBoolean false)
| OC_union : op_class "|" QUnion.

Lemma cmp_not_arith : forall op o, cmp_of op = Some o -> arith_of op = None.
Proof.
  intros op o H. unfold cmp_of in H.
  repeat match type of H with
  | (if String.eqb ?x ?y then _ else _) = _ =>
      let E := fresh "E" in
      destruct (String.eqb x y) eqn:E; [apply String.eqb_eq in E; subst; reflexivity|]
  end.
  discriminate.
Qed.

Lemma arith_of_cases : forall op o, arith_of op = Some o ->
  (op = "+" /\ o = OAdd) \/ (op = "-" /\ o = OSub) \/ (op = "*" /\ o = OMul) \/
  (op = "div" /\ o = ODiv) \/ (op = "mod" /\ o = OMod).
Proof.
  intros op o H. unfold arith_of in H.
  repeat match type of H with
  | (if String.eqb ?x ?y then _ else _) = _ =>
      let E := fresh "E" in
      destruct (String.eqb x y) eqn:E;
      [apply String.eqb_eq in E; inversion H; subst; tauto|]
  end.
  discriminate.
Qed.

Lemma cmp_of_cases : forall op o, cmp_of op = Some o ->
  (op = "=" /\ o = CEq) \/ (op = "!=" /\ o = CNe) \/ (op = "<" /\ o = CLt) \/
  (op = "<=" /\ o = CLe) \/ (op = ">" /\ o = CGt) \/ (op = ">=" /\ o = CGe).
Proof.
  intros op o H. unfold cmp_of in H.
  repeat match type of H with
  | (if String.eqb ?x ?y then _ else _) = _ =>
      let E := fresh "E" in
      destruct (String.eqb x y) eqn:E;
      [apply String.eqb_eq in E; inversion H; subst; tauto|]
  end.
  discriminate.
Qed.

Lemma op_class_query : forall op Q, op_class op Q -> forall ql qr, op_query op ql qr = Q ql qr.
Proof.
  intros op Q H ql qr. destruct H as [op o H|op o H| | |]; unfold op_query.
  - rewrite H. reflexivity.
  - rewrite (cmp_not_arith op o H), H. reflexivity.
  - reflexivity.
  - reflexivity.
  - reflexivity.
Qed.

Lemma op_class_props : forall op Q, op_class op Q -> forall pr,
  op_props op pr = match Q QNil QNil with QUnion _ _ => set_nonflat pr | _ => pr end.
Proof.
  intros op Q H pr. destruct H as [op o H|op o H| | |]; unfold op_props; try reflexivity.
  - destruct (arith_of_cases op o H) as [[-> _]|[[-> _]|[[-> _]|[[-> _]|[-> _]]]]]; reflexivity.
  - destruct (cmp_of_cases op o H) as [[-> _]|[[-> _]|[[-> _]|[[-> _]|[[-> _]|[-> _]]]]]]; reflexivity.
Qed.

(* each of the 14 operator names is in exactly one class *)
Theorem known_op_class : forall op, known_op op = true -> exists Q, op_class op Q.
Proof.
  intros op H. unfold known_op, op_names in H. cbn [existsb] in H.
  repeat (apply Bool.orb_prop in H; destruct H as [H|H];
          [apply String.eqb_eq in H; subst op; eexists;
           first [apply OC_or | apply OC_and | apply OC_union
                 | apply OC_cmp; reflexivity | apply OC_arith; reflexivity]|]).
  discriminate.
Qed.

Theorem op_class_known : forall op Q, op_class op Q -> known_op op = true.
Proof.
  intros op Q H. destruct H as [op o H|op o H| | |]; try reflexivity.
  - destruct (arith_of_cases op o H) as [[-> _]|[[-> _]|[[-> _]|[[-> _]|[-> _]]]]]; reflexivity.
  - destruct (cmp_of_cases op o H) as [[-> _]|[[-> _]|[[-> _]|[[-> _]|[[-> _]|[-> _]]]]]]; reflexivity.
Qed.

Lemma op_class_not_nil : forall op Q, op_class op Q -> forall ql qr, Q ql qr <> QNil.
Proof. intros op Q H ql qr. destruct H; discriminate. Qed.

Section Process.
Variable re_ok : string -> bool.

(* processOperator, unfolded once *)
Lemma process_op_eq : forall d op l r fl fi,
  process re_ok d (AOp op l r) fl fi =
  if Nat.ltb max_build_depth (S d) then Err "the xpath expressions is too complex"
  else
    let* (ql, prl, fi1) := process re_ok (S d) l fl_none fi in
    let* (qr, prr, fi2) := process re_ok (S d) r fl_none fi1 in
    Ok (op_query op ql qr, op_props op (pr_or prl prr), mkFi (fi_q fi2) false).
Proof.
  intros d op l r fl fi. cbn [process].
  destruct (Nat.ltb max_build_depth (S d)); [reflexivity|]. cbv zeta.
  destruct (process re_ok (S d) l fl_none fi) as [[[ql prl] fi1]| |]; cbn [cbind]; try reflexivity.
  destruct (process re_ok (S d) r fl_none fi1) as [[[qr prr] fi2]| |]; cbn [cbind]; try reflexivity.
  unfold op_query, op_props.
  destruct (arith_of op) as [o|] eqn:Ea.
  - destruct (arith_of_cases op o Ea) as [[-> _]|[[-> _]|[[-> _]|[[-> _]|[-> _]]]]]; reflexivity.
  - destruct (cmp_of op) as [o|] eqn:Ec.
    + destruct (cmp_of_cases op o Ec) as [[-> _]|[[-> _]|[[-> _]|[[-> _]|[[-> _]|[-> _]]]]]]; reflexivity.
    + destruct (String.eqb op "or") eqn:E1.
      { apply String.eqb_eq in E1. subst op. reflexivity. }
      destruct (String.eqb op "and") eqn:E2.
      { apply String.eqb_eq in E2. subst op. reflexivity. }
      destruct (String.eqb op "|"); reflexivity.
Qed.

Lemma process_ok_depth : forall d a fl fi r,
  process re_ok d a fl fi = Ok r -> d < max_build_depth.
Proof.
  intros d a fl fi r H. destruct (Nat.lt_ge_cases d max_build_depth) as [Hd|Hd]; [exact Hd|].
  rewrite (process_depth_guard re_ok d a fl fi Hd) in H. discriminate.
Qed.

(** the shape of the query built for an operator node *)
Theorem process_operator_shape : forall d op Q l r fl fi ql prl fi1 qr prr fi2,
  op_class op Q ->
  process re_ok (S d) l fl_none fi = Ok (ql, prl, fi1) ->
  process re_ok (S d) r fl_none fi1 = Ok (qr, prr, fi2) ->
  process re_ok d (AOp op l r) fl fi =
    Ok (Q ql qr, op_props op (pr_or prl prr), mkFi (fi_q fi2) false).
Proof.
  intros d op Q l r fl fi ql prl fi1 qr prr fi2 HQ Hl Hr.
  rewrite process_op_eq.
  pose proof (process_ok_depth _ _ _ _ _ Hl) as Hd.
  replace (Nat.ltb max_build_depth (S d)) with false by (symmetry; apply Nat.ltb_ge; lia).
  rewrite Hl. cbn [cbind]. rewrite Hr. cbn [cbind].
  rewrite (op_class_query op Q HQ). reflexivity.
Qed.

(* the five classes, spelled out *)
Corollary process_arith : forall d op o l r fl fi ql prl fi1 qr prr fi2,
  arith_of op = Some o ->
  process re_ok (S d) l fl_none fi = Ok (ql, prl, fi1) ->
  process re_ok (S d) r fl_none fi1 = Ok (qr, prr, fi2) ->
  process re_ok d (AOp op l r) fl fi = Ok (QNumeric o ql qr, pr_or prl prr, mkFi (fi_q fi2) false).
Proof.
  intros d op o l r fl fi ql prl fi1 qr prr fi2 Ho Hl Hr.
  rewrite (process_operator_shape d op (QNumeric o) l r fl fi ql prl fi1 qr prr fi2 (OC_arith op o Ho) Hl Hr).
  rewrite (op_class_props op _ (OC_arith op o Ho)). reflexivity.
Qed.

Corollary process_cmp : forall d op o l r fl fi ql prl fi1 qr prr fi2,
  cmp_of op = Some o ->
  process re_ok (S d) l fl_none fi = Ok (ql, prl, fi1) ->
  process re_ok (S d) r fl_none fi1 = Ok (qr, prr, fi2) ->
  process re_ok d (AOp op l r) fl fi = Ok (QLogical o ql qr, pr_or prl prr, mkFi (fi_q fi2) false).
Proof.
  intros d op o l r fl fi ql prl fi1 qr prr fi2 Ho Hl Hr.
  rewrite (process_operator_shape d op (QLogical o) l r fl fi ql prl fi1 qr prr fi2 (OC_cmp op o Ho) Hl Hr).
  rewrite (op_class_props op _ (OC_cmp op o Ho)). reflexivity.
Qed.

Corollary process_or : forall d l r fl fi ql prl fi1 qr prr fi2,
  process re_ok (S d) l fl_none fi = Ok (ql, prl, fi1) ->
  process re_ok (S d) r fl_none fi1 = Ok (qr, prr, fi2) ->
  process re_ok d (AOp "or" l r) fl fi = Ok (QBoolean true ql qr, pr_or prl prr, mkFi (fi_q fi2) false).
Proof. intros. eapply (process_operator_shape d "or" (QBoolean true)); [constructor|eassumption..]. Qed.

Corollary process_and : forall d l r fl fi ql prl fi1 qr prr fi2,
  process re_ok (S d) l fl_none fi = Ok (ql, prl, fi1) ->
  process re_ok (S d) r fl_none fi1 = Ok (qr, prr, fi2) ->
  process re_ok d (AOp "and" l r) fl fi = Ok (QBoolean false ql qr, pr_or prl prr, mkFi (fi_q fi2) false).
Proof. intros. eapply (process_operator_shape d "and" (QBoolean false)); [constructor|eassumption..]. Qed.

Corollary process_union : forall d l r fl fi ql prl fi1 qr prr fi2,
  process re_ok (S d) l fl_none fi = Ok (ql, prl, fi1) ->
  process re_ok (S d) r fl_none fi1 = Ok (qr, prr, fi2) ->
  process re_ok d (AOp "|" l r) fl fi =
    Ok (QUnion ql qr, set_nonflat (pr_or prl prr), mkFi (fi_q fi2) false).
Proof. intros. eapply (process_operator_shape d "|" QUnion); [constructor|eassumption..]. Qed.

(* unary minus:  -E  is  E * -1 *)
Corollary process_unary_minus : forall d a fl fi q pr fi1,
  process re_ok (S d) a fl_none fi = Ok (q, pr, fi1) ->
  process re_ok d (AOp "*" a (ANum fminus_one)) fl fi =
    Ok (QNumeric OMul q (QNum fminus_one), pr_or pr pr_none, mkFi (fi_q fi1) false).
Proof.
  intros d a fl fi q pr fi1 H.
  assert (Hd : S d < max_build_depth) by (eapply process_ok_depth; exact H).
  apply (process_arith d "*" OMul a (ANum fminus_one) fl fi q pr fi1 (QNum fminus_one) pr_none
           (mkFi (fi_q fi1) false) eq_refl H).
  cbn [process]. replace (Nat.ltb max_build_depth (S (S d))) with false
    by (symmetry; apply Nat.ltb_ge; lia). reflexivity.
Qed.

(** conversely: whenever an operator node builds, its operands built, in
    this order and with these flags, and the result is the operator query *)
Theorem process_operator_inv : forall d op l r fl fi q pr fo,
  process re_ok d (AOp op l r) fl fi = Ok (q, pr, fo) ->
  exists ql prl fi1 qr prr fi2,
    process re_ok (S d) l fl_none fi = Ok (ql, prl, fi1) /\
    process re_ok (S d) r fl_none fi1 = Ok (qr, prr, fi2) /\
    q = op_query op ql qr /\ pr = op_props op (pr_or prl prr) /\ fo = mkFi (fi_q fi2) false.
Proof.
  intros d op l r fl fi q pr fo H. rewrite process_op_eq in H.
  destruct (Nat.ltb max_build_depth (S d)); [discriminate|].
  destruct (process re_ok (S d) l fl_none fi) as [[[ql prl] fi1]| |] eqn:El; cbn [cbind] in H; try discriminate.
  destruct (process re_ok (S d) r fl_none fi1) as [[[qr prr] fi2]| |] eqn:Er; cbn [cbind] in H; try discriminate.
  inversion H; subst. exists ql, prl, fi1, qr, prr, fi2. repeat split; assumption.
Qed.

(* ------------------------------------------------------------------ *)
(** * 2. Compile of a text whose parse tree is an operator node         *)
(* ------------------------------------------------------------------ *)

(* the two operands build (as Compile builds them: depth 1, flags None,
   firstInput threaded from the left operand to the right one) *)
Definition operands_build (a1 a2 : anode) (q1 q2 : query) : Prop :=
  exists pr1 fi1 pr2 fi2,
    process re_ok 1 a1 fl_none fi_nil = Ok (q1, pr1, fi1) /\
    process re_ok 1 a2 fl_none fi1 = Ok (q2, pr2, fi2).

Lemma parse_empty : forall ns a, parse "" ns <> Ok a.
Proof. intros ns a. vm_compute. discriminate. Qed.

Theorem compile_operator : forall text ns op Q a1 a2 q1 q2,
  parse text ns = Ok (AOp op a1 a2) -> op_class op Q -> operands_build a1 a2 q1 q2 ->
  compile re_ok text ns = Ok (Q q1 q2).
Proof.
  intros text ns op Q a1 a2 q1 q2 Hp HQ (pr1 & fi1 & pr2 & fi2 & H1 & H2).
  assert (Hne : text <> "") by (intros ->; exact (parse_empty _ _ Hp)).
  unfold compile, compile_fuel, build_fuel. apply String.eqb_neq in Hne. rewrite Hne.
  unfold parse in Hp. rewrite Hp. cbn [cbind].
  rewrite (process_operator_shape 0 op Q a1 a2 fl_none fi_nil q1 pr1 fi1 q2 pr2 fi2 HQ H1 H2).
  cbn [cbind]. pose proof (op_class_not_nil op Q HQ q1 q2) as Hn.
  destruct (Q q1 q2); try reflexivity. congruence.
Qed.

(* conversely, Compile succeeds on an operator tree only if the operands build *)
Theorem compile_operator_inv : forall text ns op a1 a2 q,
  parse text ns = Ok (AOp op a1 a2) -> compile re_ok text ns = Ok q ->
  exists q1 q2, operands_build a1 a2 q1 q2 /\ q = op_query op q1 q2.
Proof.
  intros text ns op a1 a2 q Hp Hc.
  unfold compile, compile_fuel, build_fuel in Hc.
  destruct (String.eqb text ""); [discriminate|].
  unfold parse in Hp. rewrite Hp in Hc. cbn [cbind] in Hc.
  destruct (process re_ok 0 (AOp op a1 a2) fl_none fi_nil) as [[[q0 pr0] fo]| |] eqn:E;
    cbn [cbind] in Hc; try discriminate.
  destruct (process_operator_inv _ _ _ _ _ _ _ _ _ E) as (ql & prl & fi1 & qr & prr & fi2 & H1 & H2 & Eq & _ & _).
  exists ql, qr. split; [exists prl, fi1, prr, fi2; auto|].
  subst q0. destruct (op_query op ql qr); inversion Hc; reflexivity.
Qed.

End Process.
Print Assumptions process_operator_shape.
Print Assumptions process_operator_inv.
Print Assumptions compile_operator.

(* ------------------------------------------------------------------ *)
(** * 3. End to end: the value of the compiled operator expression      *)
(* ------------------------------------------------------------------ *)

Section Value.
Variable re_ok : string -> bool.
Variable D : tree.
Variable has_ns : bool.
Variable hcode : node -> N.
Variable rm : string -> string -> option bool.
Variable rn : string -> nat.
Variable rr : string -> string -> string -> string.

Notation ev := (eval D has_ns hcode rm rn rr).
Notation SEL := (sel D has_ns hcode rm rn rr).
Notation xcmp := (xcompare string_to_number).

(** C07: comparison operators  =  !=  <  <=  >  >= *)
Theorem compiled_comparison : forall text ns op o a1 a2 q1 q2,
  parse text ns = Ok (AOp op a1 a2) -> cmp_of op = Some o ->
  operands_build re_ok a1 a2 q1 q2 ->
  compile re_ok text ns = Ok (QLogical o q1 q2) /\
  (* the operands are evaluated left then right at the context node and compared *)
  (forall c, ev (QLogical o q1 q2) c = do m <- ev q1 c; do n <- ev q2 c; compare_values D o m n) /\
  (* hence the XPath 1.0 comparison of the operand values *)
  (forall c m n x y,
     ev q1 c = Val m -> ev q2 c = Val n -> abs D m = Some x -> abs D n = Some y ->
     follows_spec o x y = true ->
     ev (QLogical o q1 q2) c = Val (VBool (xcmp o x y))) /\
  (* and no comparison of XPath values aborts *)
  (forall c m n, ev q1 c = Val m -> ev q2 c = Val n -> xpath_typed m -> xpath_typed n ->
     exists b, ev (QLogical o q1 q2) c = Val (VBool b)).
Proof.
  intros text ns op o a1 a2 q1 q2 Hp Ho Hb. split; [|split; [|split]].
  - apply (compile_operator re_ok text ns op (QLogical o) a1 a2 q1 q2 Hp (OC_cmp op o Ho) Hb).
  - intros c. reflexivity.
  - intros c m n x y. apply eval_logical_spec.
  - intros c m n. apply eval_logical_never_aborts.
Qed.

(** C08: arithmetic operators  +  -  *  div  mod *)
Theorem compiled_arithmetic : forall text ns op o a1 a2 q1 q2,
  parse text ns = Ok (AOp op a1 a2) -> arith_of op = Some o ->
  operands_build re_ok a1 a2 q1 q2 ->
  compile re_ok text ns = Ok (QNumeric o q1 q2) /\
  (* number(left) op number(right), in IEEE 754 binary64; it never fails by itself *)
  (forall c m n, ev q1 c = Val m -> ev q2 c = Val n ->
     ev (QNumeric o q1 q2) c = Val (VNum (arith_op o (as_number D m) (as_number D n)))) /\
  (* the only failures are those of the operands, left first *)
  (forall c, ev (QNumeric o q1 q2) c =
     match ev q1 c with
     | Val m => match ev q2 c with
                | Val n => Val (VNum (arith_op o (as_number D m) (as_number D n)))
                | Complaint e => Complaint e
                | Crash k => Crash k
                end
     | Complaint e => Complaint e
     | Crash k => Crash k
     end).
Proof.
  intros text ns op o a1 a2 q1 q2 Hp Ho Hb. split; [|split].
  - apply (compile_operator re_ok text ns op (QNumeric o) a1 a2 q1 q2 Hp (OC_arith op o Ho) Hb).
  - intros c m n. apply eval_numeric.
  - intros c. apply eval_numeric_outcome.
Qed.

(** unary minus: the parser writes  -E  as  E * -1 *)
Theorem compiled_unary_minus : forall text ns a q pr fi1,
  parse text ns = Ok (AOp "*" a (ANum fminus_one)) ->
  process re_ok 1 a fl_none fi_nil = Ok (q, pr, fi1) ->
  compile re_ok text ns = Ok (QNumeric OMul q (QNum fminus_one)) /\
  (forall c m, ev q c = Val m ->
     ev (QNumeric OMul q (QNum fminus_one)) c = Val (VNum (fmul (as_number D m) fminus_one))) /\
  (* on a (valid) binary64 number this is the IEEE negation: -0 for 0, NaN for NaN *)
  (forall c m, ev q c = Val m -> valid_binary prec emax (as_number D m) = true ->
     ev (QNumeric OMul q (QNum fminus_one)) c = Val (VNum (fneg (as_number D m)))).
Proof.
  intros text ns a q pr fi1 Hp Hb. split; [|split].
  - apply (compile_operator re_ok text ns "*" (QNumeric OMul) a (ANum fminus_one) q (QNum fminus_one) Hp
             (OC_arith "*" OMul eq_refl)).
    exists pr, fi1, pr_none, (mkFi (fi_q fi1) false). split; [exact Hb|].
    pose proof (process_ok_depth re_ok _ _ _ _ _ Hb) as Hd.
    cbn [process]. replace (Nat.ltb max_build_depth 2) with false
      by (symmetry; apply Nat.ltb_ge; lia). reflexivity.
  - intros c m. apply eval_unary_minus.
  - intros c m. apply eval_unary_minus_neg.
Qed.

(** C07: or / and with their short circuit *)
Theorem compiled_and_or : forall text ns (isor : bool) a1 a2 q1 q2,
  parse text ns = Ok (AOp (if isor then "or" else "and") a1 a2) ->
  operands_build re_ok a1 a2 q1 q2 ->
  compile re_ok text ns = Ok (QBoolean isor q1 q2) /\
  (* the left operand decides: the right one is not evaluated at all *)
  (forall c m, ev q1 c = Val m -> not_int m -> truth m = isor ->
     ev (QBoolean isor q1 q2) c = Val (VBool isor)) /\
  (* otherwise the result is boolean(right operand) ... *)
  (forall c m n, ev q1 c = Val m -> not_int m -> truth m = negb isor ->
     ev q2 c = Val n -> not_int n ->
     ev (QBoolean isor q1 q2) c = Val (VBool (truth n))) /\
  (* ... or the failure of the right operand *)
  (forall c m, ev q1 c = Val m -> not_int m -> truth m = negb isor ->
     (forall v, ev q2 c <> Val v) -> ev (QBoolean isor q1 q2) c = ev q2 c) /\
  (* together: the short-circuit operators of the specification *)
  (forall c m x, ev q1 c = Val m -> abs D m = Some x ->
     match (if isor then xor_else x (fun _ => lift D (ev q2 c))
            else xand_then x (fun _ => lift D (ev q2 c))) with
     | inr b => ev (QBoolean isor q1 q2) c = Val (VBool b)
     | inl (Val _) => True
     | inl e => ev (QBoolean isor q1 q2) c = e
     end).
Proof.
  intros text ns isor a1 a2 q1 q2 Hp Hb. split; [|split; [|split; [|split]]].
  - apply (compile_operator re_ok text ns _ (QBoolean isor) a1 a2 q1 q2 Hp); [|exact Hb].
    destruct isor; constructor.
  - intros c m Hm Hi Ht. destruct isor.
    + eapply eval_or_left_true; eassumption.
    + eapply eval_and_left_false; eassumption.
  - intros c m n Hm Hi Ht Hn Hj. destruct isor; cbn [negb] in Ht.
    + eapply eval_or_left_false; eassumption.
    + eapply eval_and_left_true; eassumption.
  - intros c m Hm Hi Ht Hr. eapply eval_bool_right_fails; eassumption.
  - intros c m x Hm Hx. destruct isor.
    + apply (eval_or_spec D has_ns hcode rm rn rr q1 q2 c m x Hm Hx).
    + apply (eval_and_spec D has_ns hcode rm rn rr q1 q2 c m x Hm Hx).
Qed.

(** the union operator  |  : no node twice; with collision-free identity
    codes, exactly the nodes of the two operands, first occurrences kept *)
Theorem compiled_union : forall text ns a1 a2 q1 q2,
  parse text ns = Ok (AOp "|" a1 a2) -> operands_build re_ok a1 a2 q1 q2 ->
  compile re_ok text ns = Ok (QUnion q1 q2) /\
  (forall c a b, SEL q1 c = Val a -> SEL q2 c = Val b ->
     exists u, SEL (QUnion q1 q2) c = Val u /\ NoDup (nodes_of u) /\
       (forall x, In x (nodes_of u) -> In x (nodes_of a) \/ In x (nodes_of b)) /\
       (hash_ok hcode (nodes_of a ++ nodes_of b) ->
          (forall x, In x (nodes_of u) <-> In x (nodes_of a) \/ In x (nodes_of b)) /\
          nodes_of u = dedup_first (nodes_of a ++ nodes_of b))).
Proof.
  intros text ns a1 a2 q1 q2 Hp Hb. split.
  - apply (compile_operator re_ok text ns "|" QUnion a1 a2 q1 q2 Hp OC_union Hb).
  - intros c a b. apply sel_union.
Qed.

End Value.
Print Assumptions compiled_comparison.
Print Assumptions compiled_arithmetic.
Print Assumptions compiled_unary_minus.
Print Assumptions compiled_and_or.
Print Assumptions compiled_union.

(* ------------------------------------------------------------------ *)
(** * 4. On printed expressions: the parse hypothesis discharged        *)
(* ------------------------------------------------------------------ *)

Lemma opname_class : forall b, exists Q, op_class (opname b) Q.
Proof.
  destruct b; eexists; cbn [opname];
    first [apply OC_or | apply OC_and | apply OC_union
          | apply OC_cmp; reflexivity | apply OC_arith; reflexivity].
Qed.

(* E1 op E2, written in XPath syntax: Compile of the text is the operator
   query over the queries of the two operand TREES *)
Theorem compiled_binop_text : forall re_ok ns b Q l r q1 q2,
  xwf (XBin b l r) -> xok (XBin b l r) -> xdepth (XBin b l r) < max_depth ->
  op_class (opname b) Q ->
  operands_build re_ok (xast l) (xast r) q1 q2 ->
  compile re_ok (print_min (XBin b l r)) ns = Ok (Q q1 q2) /\
  compile re_ok (print_sp (XBin b l r)) ns = Ok (Q q1 q2).
Proof.
  intros re_ok ns b Q l r q1 q2 Hwf Hok Hd HQ Hb. split.
  - apply (compile_operator re_ok _ ns (opname b) Q (xast l) (xast r) q1 q2); [|exact HQ|exact Hb].
    apply (roundtrip_print_min ns (XBin b l r) Hwf Hok Hd).
  - apply (compile_operator re_ok _ ns (opname b) Q (xast l) (xast r) q1 q2); [|exact HQ|exact Hb].
    apply (roundtrip_print_sp ns (XBin b l r) Hwf Hok Hd).
Qed.
Print Assumptions compiled_binop_text.

(* -E *)
Theorem compiled_neg_text : forall re_ok ns e q pr fi1,
  xwf (XNeg 1 e) -> xok (XNeg 1 e) -> xdepth e < max_depth ->
  process re_ok 1 (xast e) fl_none fi_nil = Ok (q, pr, fi1) ->
  compile re_ok (print_min (XNeg 1 e)) ns = Ok (QNumeric OMul q (QNum fminus_one)).
Proof.
  intros re_ok ns e q pr fi1 Hwf Hok Hd Hb.
  pose proof (roundtrip_print_min ns (XNeg 1 e) Hwf Hok Hd) as Hp.
  change (xast (XNeg 1 e)) with (AOp "*" (xast e) (ANum fminus_one)) in Hp.
  apply (compile_operator re_ok _ ns "*" (QNumeric OMul) (xast e) (ANum fminus_one) q (QNum fminus_one) Hp
           (OC_arith "*" OMul eq_refl)).
  exists pr, fi1, pr_none, (mkFi (fi_q fi1) false). split; [exact Hb|].
  pose proof (process_ok_depth re_ok _ _ _ _ _ Hb) as Hd1.
  cbn [process]. replace (Nat.ltb max_build_depth 2) with false
    by (symmetry; apply Nat.ltb_ge; lia). reflexivity.
Qed.

(* ------------------------------------------------------------------ *)
(** * 5. Examples                                                       *)
(* ------------------------------------------------------------------ *)
Module Examples.
Import AxesSound.Examples.

Notation EV := (eval exD true (hash_code exD) lit_match lit_numsubexp lit_replace_all).

(* the 14 operator names and their queries *)
Example classes :
  op_class "or" (QBoolean true) /\ op_class "and" (QBoolean false) /\ op_class "|" QUnion /\
  op_class "=" (QLogical CEq) /\ op_class "!=" (QLogical CNe) /\ op_class "<" (QLogical CLt) /\
  op_class "<=" (QLogical CLe) /\ op_class ">" (QLogical CGt) /\ op_class ">=" (QLogical CGe) /\
  op_class "+" (QNumeric OAdd) /\ op_class "-" (QNumeric OSub) /\ op_class "*" (QNumeric OMul) /\
  op_class "div" (QNumeric ODiv) /\ op_class "mod" (QNumeric OMod).
Proof.
  repeat split; first [apply OC_or | apply OC_and | apply OC_union
                      | apply OC_cmp; reflexivity | apply OC_arith; reflexivity].
Qed.

(* an unknown operator name builds the nil query (never produced by the parser) *)
Example unknown_op : op_query "xor" QContext QContext = QNil.
Proof. reflexivity. Qed.

(* ---- comparison:  a/@x = '1'  on  <a x="1" y="2">...</a> ---- *)
Definition t_cmp : string := "a/@x='1'".
Definition a_cmp1 : anode :=
  AAxis "attribute" NTAttr "" "x" "" false "" (Some (AAxis "child" NTElem "" "a" "" false "" None)).
Definition q_cmp1 : query := QAttribute (mkTest NTAttr "" "x" false "") (QChild (name_t "a") QContext).

Example cmp_parse : parse t_cmp None = Ok (AOp "=" a_cmp1 (AStr "1")).
Proof. vm_compute. reflexivity. Qed.
Example cmp_build : operands_build Api.lit_ok a_cmp1 (AStr "1") q_cmp1 (QStr "1").
Proof. do 4 eexists. split; vm_compute; reflexivity. Qed.

Example cmp_value :
  compile Api.lit_ok t_cmp None = Ok (QLogical CEq q_cmp1 (QStr "1")) /\
  EV (QLogical CEq q_cmp1 (QStr "1")) root_node = Val (VBool true).
Proof.
  destruct (compiled_comparison Api.lit_ok exD true (hash_code exD) lit_match lit_numsubexp lit_replace_all
              t_cmp None "=" CEq a_cmp1 (AStr "1") q_cmp1 (QStr "1") cmp_parse eq_refl cmp_build)
    as (Hc & _ & Hv & _).
  split; [exact Hc|].
  (* the XPath comparison of the node-set {"1"} with the string "1" *)
  apply (Hv root_node (VNodes [mkItem n_ax 1 0]) (VStr "1") (XSet ["1"]) (Values.XStr "1"));
    vm_compute; reflexivity.
Qed.

(* ---- arithmetic:  a/@y * 3  ---- *)
Definition t_ar : string := "a/@y*3".
Definition a_ar1 : anode :=
  AAxis "attribute" NTAttr "" "y" "" false "" (Some (AAxis "child" NTElem "" "a" "" false "" None)).
Definition q_ar1 : query := QAttribute (mkTest NTAttr "" "y" false "") (QChild (name_t "a") QContext).

Example ar_parse : parse t_ar None = Ok (AOp "*" a_ar1 (ANum (of_Z 3))).
Proof. vm_compute. reflexivity. Qed.
Example ar_build : operands_build Api.lit_ok a_ar1 (ANum (of_Z 3)) q_ar1 (QNum (of_Z 3)).
Proof. do 4 eexists. split; vm_compute; reflexivity. Qed.

Example ar_value :
  compile Api.lit_ok t_ar None = Ok (QNumeric OMul q_ar1 (QNum (of_Z 3))) /\
  EV (QNumeric OMul q_ar1 (QNum (of_Z 3))) root_node = Val (VNum (of_Z 6)).
Proof.
  destruct (compiled_arithmetic Api.lit_ok exD true (hash_code exD) lit_match lit_numsubexp lit_replace_all
              t_ar None "*" OMul a_ar1 (ANum (of_Z 3)) q_ar1 (QNum (of_Z 3)) ar_parse eq_refl ar_build)
    as (Hc & Hv & _).
  split; [exact Hc|].
  rewrite (Hv root_node (VNodes [mkItem n_ay 1 0]) (VNum (of_Z 3))); vm_compute; reflexivity.
Qed.

(* ---- unary minus:  -a/@y  ---- *)
Example neg_value :
  compile Api.lit_ok "-a/@y" None = Ok (QNumeric OMul q_ar1 (QNum fminus_one)) /\
  EV (QNumeric OMul q_ar1 (QNum fminus_one)) root_node = Val (VNum (of_Z (-2))).
Proof.
  destruct (compiled_unary_minus Api.lit_ok exD true (hash_code exD) lit_match lit_numsubexp lit_replace_all
              "-a/@y" None a_ar1 q_ar1 pr_none (mkFi (Some q_ar1) true))
    as (Hc & _ & Hv); [vm_compute; reflexivity..|].
  split; [exact Hc|].
  rewrite (Hv root_node (VNodes [mkItem n_ay 1 0])); vm_compute; reflexivity.
Qed.

(* ---- or with its short circuit:  a or zzz(1)  does not compile (unknown
   function), but  a or 1 div 0 = 5  is true without looking right ---- *)
Definition t_or : string := "a or b=5".
Example or_parse : parse t_or None =
  Ok (AOp "or" (AAxis "child" NTElem "" "a" "" false "" None)
               (AOp "=" (AAxis "child" NTElem "" "b" "" false "" None) (ANum (of_Z 5)))).
Proof. vm_compute. reflexivity. Qed.

Definition q_or2 : query := QLogical CEq (QChild (name_t "b") QContext) (QNum (of_Z 5)).
Example or_value :
  compile Api.lit_ok t_or None = Ok (QBoolean true (QChild (name_t "a") QContext) q_or2) /\
  EV (QBoolean true (QChild (name_t "a") QContext) q_or2) root_node = Val (VBool true).
Proof.
  destruct (compiled_and_or Api.lit_ok exD true (hash_code exD) lit_match lit_numsubexp lit_replace_all
              t_or None true _ _ (QChild (name_t "a") QContext) q_or2 or_parse)
    as (Hc & Hl & _).
  { do 4 eexists. split; vm_compute; reflexivity. }
  split; [exact Hc|].
  apply (Hl root_node (VNodes [mkItem n_a 1 0])); [vm_compute; reflexivity|exact I|reflexivity].
Qed.

(* ---- printed expressions: the parse hypothesis is discharged ---- *)
Definition e_bin : px :=
  XBin BLe (XPath PRel (ROne (SAxis AxChild (NName "a") PNil))) (XNum (list_of_string "7")).
Example e_bin_text : print_min e_bin = "a<=7" /\ print_sp e_bin = "a <= 7".
Proof. split; vm_compute; reflexivity. Qed.
Example e_bin_compile :
  compile Api.lit_ok "a<=7" None = Ok (QLogical CLe (QChild (name_t "a") QContext) (QNum (of_Z 7))) /\
  compile Api.lit_ok "a <= 7" None = Ok (QLogical CLe (QChild (name_t "a") QContext) (QNum (of_Z 7))).
Proof.
  destruct e_bin_text as [E1 E2]. rewrite <- E1, <- E2. unfold e_bin.
  apply (compiled_binop_text Api.lit_ok None BLe (QLogical CLe) _ _ _ _).
  - cbn [xwf xlvl level rwf swf nt_ok pwf]. repeat split; lia.
  - vm_compute. reflexivity.
  - cbn [xdepth rdepth sdepth pdepth_ps Nat.max]. unfold max_depth. lia.
  - apply OC_cmp. reflexivity.
  - do 4 eexists. split; vm_compute; reflexivity.
Qed.

End Examples.
