(* CompileTotal.v — Compile never runs out of fuel: parser termination
   (ParseTerm) + the builder has no fuel (BuildFacts). *)
From Coq Require Import List String.
From XP Require Import Base F64 Doc Ast Scan Parse Build Api.
From XP.Proofs Require Import ParseTerm BuildFacts.

Lemma compile_terminates : forall re_ok text ns, compile re_ok text ns <> OutOfFuel.
Proof.
  intros re_ok text ns. unfold compile, compile_fuel.
  destruct (String.eqb text "") eqn:E; [discriminate|].
  unfold build_fuel.
  pose proof (parse_terminates text ns) as HP. unfold parse in HP.
  destruct (parse_fuel (default_fuel text) text ns) as [root|m|] eqn:EP; cbn [cbind].
  - pose proof (process_no_outoffuel re_ok root 0 fl_none fi_nil) as HB.
    destruct (process re_ok 0 root fl_none fi_nil) as [[[q pr] fi]|m|] eqn:EB; cbn [cbind].
    + destruct q; discriminate.
    + discriminate.
    + contradiction.
  - discriminate.
  - contradiction.
Qed.

(* exactly one of (usable expression, error) *)
Theorem compile_one_of : forall re_ok text ns,
  (exists q, compile re_ok text ns = Ok q /\ q <> QNil /\ qok q = true) \/
  (exists m, compile re_ok text ns = Err m).
Proof.
  intros re_ok text ns.
  destruct (compile_trichotomy re_ok text ns) as [(q & Hq & Hn)|[(m & Hm)|H]].
  - left. exists q. repeat split; auto. eapply compile_qok; eauto.
  - right. eauto.
  - exfalso. exact (compile_terminates re_ok text ns H).
Qed.
