#!/bin/bash
# usage: bin/confirm_seed.sh <dir with patch.diff + demo *_test.go>
# Confirms in a scratch worktree of /repo (removed afterwards): the demo passes without the patch,
# the patch applies, the package builds, the existing suite passes, the demo fails with the patch.
set -u
export GOFLAGS=-mod=mod GOPROXY=off GOSUMDB=off GOTOOLCHAIN=local
d=$(realpath "$1")
w=$(mktemp -d /tmp/confirm.XXXXXX)
git -C /repo worktree add -f "$w" HEAD >/dev/null 2>&1 || { echo "worktree failed"; exit 2; }
trap 'git -C /repo worktree remove --force "$w" >/dev/null 2>&1; rm -rf "$w"' EXIT
demos=$(ls "$d"/*_test.go 2>/dev/null)
race=""
grep -qi "race" "$d"/README.md 2>/dev/null && race="-race"
cp $demos "$w"/
names=$(grep -ho 'func Test[A-Za-z0-9_]*' $demos | sed 's/func //' | paste -sd'|')
cd "$w"
r1=$(timeout 600 go test -vet=off -count=1 $race -run "^($names)\$" . 2>&1 | tail -3); ok1=$?
echo "$r1" | grep -q '^ok' && pre=PASS || pre=FAIL
git apply "$d/patch.diff" || { echo "CONFIRM $(basename $(dirname $d))/$(basename $d): patch does not apply"; exit 1; }
go build ./... >/dev/null 2>&1 && build=ok || build=FAIL
for f in $demos; do mv "$w/$(basename $f)" "$w/$(basename $f).off"; done
s=$(timeout 900 go test -vet=off -count=1 ./... 2>&1 | tail -2); echo "$s" | grep -q '^ok' && suite=PASS || suite=FAIL
for f in $demos; do mv "$w/$(basename $f).off" "$w/$(basename $f)"; done
r2=$(timeout 600 go test -vet=off -count=1 $race -run "^($names)\$" . 2>&1 | tail -5)
echo "$r2" | grep -q '^ok' && post=PASS || post=FAIL
echo "CONFIRM $d: demo-without-patch=$pre build=$build suite-with-patch=$suite demo-with-patch=$post race=$race"
