(* Proofs/CountReverse.v — count(), reverse(), Evaluate vs Select.

   Property (C12): "count() of a node-set expression equals the length of
   its sequence; reverse() yields it reversed; Evaluate returns the same
   sequence as Select".

   count() in the Go code re-tests every node of the argument's result with
   the argument query's own Test method (the node test of its last step) and
   counts those that pass; the model has this as
       length (filter (query_test a) (nodes_of l)).
   The point proved here is that this filter never drops anything.

   Main results
     step_*_test               every node a step function returns passes the step's node test
     sel_satisfies_own_test    every node an axis query yields passes [query_test] of that query
     count_is_length           count(a) = length of a's sequence, for EVERY argument query a
     count_select              ... = length of what Select returns (node-set valued a)
     reverse_is_rev            reverse(P) yields P's sequence reversed
     reverse_involutive, count_reverse
     evaluate_same_sequence    Evaluate on a node-set valued query = VNodes of Select's sequence
     evaluate_nodes_select     conversely, whenever Evaluate returns a node-set it is Select's
*)
From XP Require Import Base F64 Doc Ast Hash Eval Api.
From XP.Proofs Require Import Arith HashInj AxesSound Absolute.
Open Scope string_scope.
Open Scope nat_scope.
Open Scope list_scope.

(* ------------------------------------------------------------------ *)
(** * 1. Every step function filters by its node test *)

Section Steps.
Variable D : tree.
Variable has_ns : bool.
Notation TEST := (match_test D has_ns).

Lemma step_child_test : forall t k m,
  In m (nodes_of (step_child D has_ns t k)) -> TEST t m = true.
Proof. intros t k m H. unfold step_child in H. rewrite nodes_of_numbered in H. now apply filter_In in H. Qed.

Lemma step_attribute_test : forall t k m,
  In m (nodes_of (step_attribute D has_ns t k)) -> TEST t m = true.
Proof.
  intros t k m H. unfold step_attribute in H.
  destruct (node_type D k); try (destruct H; fail).
  rewrite AxesSound.nodes_of_unnumbered in H. now apply filter_In in H.
Qed.

Lemma step_descendant_test : forall self t k m,
  In m (nodes_of (step_descendant D has_ns self t k)) -> TEST t m = true.
Proof. intros self t k m H. rewrite nodes_of_step_descendant in H. now apply filter_In in H. Qed.

Lemma step_parent_test : forall t k m,
  In m (nodes_of (step_parent D has_ns t k)) -> TEST t m = true.
Proof.
  intros t k m H. unfold step_parent in H. destruct (move_parent k) as [p|]; [|destruct H].
  destruct (TEST t p) eqn:E; [|destruct H]. destruct H as [<-|[]]. exact E.
Qed.

Lemma step_self_test : forall t k m,
  In m (nodes_of (step_self D has_ns t k)) -> TEST t m = true.
Proof.
  intros t k m H. unfold step_self in H.
  destruct (TEST t k) eqn:E; [|destruct H]. destruct H as [<-|[]]. exact E.
Qed.

Lemma step_following_sibling_test : forall t k m,
  In m (nodes_of (step_following_sibling D has_ns t k)) -> TEST t m = true.
Proof.
  intros t k m H. unfold step_following_sibling in H. rewrite nodes_of_numbered in H.
  now apply filter_In in H.
Qed.

Lemma step_preceding_sibling_test : forall t k m,
  In m (nodes_of (step_preceding_sibling D has_ns t k)) -> TEST t m = true.
Proof.
  intros t k m H. unfold step_preceding_sibling in H. rewrite nodes_of_numbered in H.
  now apply filter_In in H.
Qed.

Lemma step_following_test : forall t k m,
  In m (nodes_of (step_following D has_ns t k)) -> TEST t m = true.
Proof. intros t k m H. rewrite nodes_of_step_following in H. now apply filter_In in H. Qed.

Lemma step_preceding_test : forall t k m,
  In m (nodes_of (step_preceding D has_ns t k)) -> TEST t m = true.
Proof. intros t k m H. rewrite nodes_of_step_preceding in H. now apply filter_In in H. Qed.

Lemma step_ancestor_raw_test : forall self t k m,
  In m (step_ancestor_raw D has_ns self t k) -> TEST t m = true.
Proof. intros self t k m H. unfold step_ancestor_raw in H. now apply filter_In in H. Qed.

Lemma ancestors_all_test : forall hcode self t inputs seen m,
  In m (ancestors_all D has_ns hcode self t seen inputs) -> TEST t m = true.
Proof.
  intros hcode self t. induction inputs as [|k r IH]; intros seen m H; cbn [ancestors_all] in H.
  - destruct H.
  - destruct (dedup_hash hcode seen (step_ancestor_raw D has_ns self t k)) as [l seen'] eqn:E.
    apply in_app_or in H. destruct H as [H|H].
    + apply (step_ancestor_raw_test self t k).
      apply (dedup_hash_sound hcode seen). rewrite E. exact H.
    + apply (IH seen'). exact H.
Qed.

(* a mapped step *)
Lemma flat_map_step_test : forall (f : node -> list item) t (l : list item) m,
  (forall k x, In x (nodes_of (f k)) -> TEST t x = true) ->
  In m (nodes_of (flat_map (fun it => f (it_node it)) l)) -> TEST t m = true.
Proof.
  intros f t l m Hf H. rewrite nodes_of_flat_map in H. apply in_flat_map in H.
  destruct H as (it & _ & H). now apply (Hf (it_node it)).
Qed.

End Steps.

(* ------------------------------------------------------------------ *)
(** * 2. count() *)

(* the queries that have a Test method in the Go code *)
Definition has_test (q : query) : bool :=
  match q with
  | QAncestor _ _ _ | QAttribute _ _ | QChild _ _ | QCachedChild _ _ | QDescendant _ _ _
  | QFollowing _ _ _ | QPreceding _ _ _ | QParent _ _ | QSelf _ _ => true
  | _ => false
  end.

Lemma query_test_no_test : forall D has_ns q m, has_test q = false -> query_test D has_ns q m = true.
Proof. intros D has_ns q m H. destruct q; try reflexivity; discriminate H. Qed.

Lemma has_test_nodeset : forall q, has_test q = true -> nodeset_query q = true.
Proof. intros q H. destruct q; try discriminate H; reflexivity. Qed.

Lemma filter_all_true : forall {A} (f : A -> bool) l, (forall x, In x l -> f x = true) -> filter f l = l.
Proof.
  intros A f. induction l as [|x l IH]; intros H; [reflexivity|].
  cbn [filter]. rewrite (H x) by now left. f_equal. apply IH. intros y Hy. apply H. now right.
Qed.

Section Count.
Variable D : tree.
Variable has_ns : bool.
Variable hcode : node -> N.
Variable rm : string -> string -> option bool.
Variable rn : string -> nat.
Variable rr : string -> string -> string -> string.

Notation SEL := (sel D has_ns hcode rm rn rr).
Notation EVAL := (eval D has_ns hcode rm rn rr).
Notation TEST := (match_test D has_ns).
Notation sel_unf := (Absolute.sel_unf D has_ns hcode rm rn rr).

Lemma sel_step_inv : forall i (f : node -> list item) c l t m,
  (do x <- SEL i c; Val (flat_map (fun it => f (it_node it)) x)) = Val l ->
  (forall k x, In x (nodes_of (f k)) -> TEST t x = true) ->
  In m (nodes_of l) -> TEST t m = true.
Proof.
  intros i f c l t m H Hf Hm. destruct (SEL i c) as [x| |]; try discriminate H.
  cbn [obind] in H. injection H as <-. now apply (flat_map_step_test D has_ns f t x m Hf).
Qed.

(* MAIN: whatever an axis query yields passes that query's own node test --
   from any context node (valid or not), for any input query *)
Theorem sel_satisfies_own_test : forall q c l m,
  has_test q = true -> SEL q c = Val l -> In m (nodes_of l) -> query_test D has_ns q m = true.
Proof.
  intros q c l m Hq H Hm. rewrite sel_unf in H.
  destruct q; try discriminate Hq; cbn [query_test sel_body] in *.
  - (* QAncestor *)
    destruct (SEL q c) as [x| |]; try discriminate H. cbn [obind] in H. injection H as <-.
    rewrite AxesSound.nodes_of_unnumbered in Hm. now apply ancestors_all_test in Hm.
  - (* QAttribute *) apply (sel_step_inv _ _ _ _ t m H); [apply step_attribute_test|exact Hm].
  - (* QChild *) apply (sel_step_inv _ _ _ _ t m H); [apply step_child_test|exact Hm].
  - (* QCachedChild *) apply (sel_step_inv _ _ _ _ t m H); [apply step_child_test|exact Hm].
  - (* QDescendant *) apply (sel_step_inv _ _ _ _ t m H); [apply step_descendant_test|exact Hm].
  - (* QFollowing *) destruct sibling.
    + apply (sel_step_inv _ _ _ _ t m H); [apply step_following_sibling_test|exact Hm].
    + apply (sel_step_inv _ _ _ _ t m H); [apply step_following_test|exact Hm].
  - (* QPreceding *) destruct sibling.
    + apply (sel_step_inv _ _ _ _ t m H); [apply step_preceding_sibling_test|exact Hm].
    + apply (sel_step_inv _ _ _ _ t m H); [apply step_preceding_test|exact Hm].
  - (* QParent *) apply (sel_step_inv _ _ _ _ t m H); [apply step_parent_test|exact Hm].
  - (* QSelf *) apply (sel_step_inv _ _ _ _ t m H); [apply step_self_test|exact Hm].
Qed.

(* the same on the value level *)
Lemma eval_nodes_sel : forall q c l,
  nodeset_query q = true -> EVAL q c = Val (VNodes l) -> SEL q c = Val l.
Proof.
  intros q c l Hq H. rewrite (eval_nodeset D has_ns hcode rm rn rr q c Hq) in H.
  destruct (SEL q c) as [x| |]; try discriminate H. cbn [obind] in H. congruence.
Qed.

Theorem eval_satisfies_own_test : forall q c l m,
  EVAL q c = Val (VNodes l) -> In m (nodes_of l) -> query_test D has_ns q m = true.
Proof.
  intros q c l m H Hm. destruct (has_test q) eqn:Hq.
  - apply (sel_satisfies_own_test q c l m Hq); [|exact Hm].
    apply eval_nodes_sel; [now apply has_test_nodeset|exact H].
  - now apply query_test_no_test.
Qed.

(* the re-test of count() (and of string-join()) drops nothing *)
Corollary count_filter_id : forall a c l,
  EVAL a c = Val (VNodes l) -> filter (query_test D has_ns a) (nodes_of l) = nodes_of l.
Proof.
  intros a c l H. apply filter_all_true. intros m Hm. now apply (eval_satisfies_own_test a c l m).
Qed.

(* MAIN: count(a) is the length of a's sequence -- for every argument query
   a that evaluates to a node-set, duplicates included *)
Theorem count_is_length : forall a c l,
  EVAL a c = Val (VNodes l) ->
  EVAL (QFn1 FCount a) c = Val (VNum (of_Z (Z.of_nat (List.length l)))).
Proof.
  intros a c l H.
  rewrite (eval_count_nodes D has_ns hcode rm rn rr a c l H).
  rewrite (count_filter_id a c l H). unfold nodes_of. now rewrite map_length.
Qed.

(* in terms of Select, for the queries that evaluate to what they select *)
Corollary count_select : forall q c l,
  nodeset_query q = true -> SEL q c = Val l ->
  EVAL (QFn1 FCount q) c = Val (VNum (of_Z (Z.of_nat (List.length l)))).
Proof.
  intros q c l Hq H. apply count_is_length.
  rewrite (eval_nodeset D has_ns hcode rm rn rr q c Hq), H. reflexivity.
Qed.

(* (P): the group evaluates to what P evaluates to *)
Corollary count_group : forall q c l,
  nodeset_query q = true -> SEL q c = Val l ->
  EVAL (QFn1 FCount (QGroup q)) c = Val (VNum (of_Z (Z.of_nat (List.length l)))).
Proof.
  intros q c l Hq H. apply count_is_length. rewrite eval_group.
  rewrite (eval_nodeset D has_ns hcode rm rn rr q c Hq), H. reflexivity.
Qed.

(* failures of the argument are failures of count() *)
Lemma count_complaint : forall a c m,
  EVAL a c = Complaint m -> EVAL (QFn1 FCount a) c = Complaint m.
Proof.
  intros a c m H. rewrite (eval_fn1_arith_eq D has_ns hcode rm rn rr FCount a c I). rewrite H. reflexivity.
Qed.

(* the count as an exact integer *)
Corollary count_go_int : forall a c l,
  EVAL a c = Val (VNodes l) -> (Z.of_nat (List.length l) < 2 ^ 53)%Z ->
  exists f, EVAL (QFn1 FCount a) c = Val (VNum f) /\ valid_binary prec emax f = true.
Proof.
  intros a c l H Hl. eexists. split; [exact (count_is_length a c l H)|]. apply of_Z_valid. lia.
Qed.

(* ------------------------------------------------------------------ *)
(** * 3. reverse() *)

Lemma sel_reverse : forall i c,
  SEL (QReverse i) c = do l <- SEL i c; Val (unnumbered (rev (nodes_of l))).
Proof. intros i c. rewrite sel_unf. reflexivity. Qed.

(* MAIN: reverse(P) yields the sequence of P backwards *)
Theorem reverse_is_rev : forall i c r l,
  SEL (QReverse i) c = Val r -> SEL i c = Val l -> nodes_of r = rev (nodes_of l).
Proof.
  intros i c r l Hr Hl. rewrite sel_reverse, Hl in Hr. cbn [obind] in Hr. injection Hr as <-.
  apply AxesSound.nodes_of_unnumbered.
Qed.

(* total form: reverse succeeds exactly when its input does *)
Theorem reverse_val : forall i c l,
  SEL i c = Val l -> SEL (QReverse i) c = Val (unnumbered (rev (nodes_of l))).
Proof. intros i c l H. rewrite sel_reverse, H. reflexivity. Qed.

Theorem reverse_inv : forall i c r,
  SEL (QReverse i) c = Val r -> exists l, SEL i c = Val l /\ nodes_of r = rev (nodes_of l).
Proof.
  intros i c r H. rewrite sel_reverse in H. destruct (SEL i c) as [l| |]; try discriminate H.
  exists l. split; [reflexivity|]. cbn [obind] in H. injection H as <-.
  apply AxesSound.nodes_of_unnumbered.
Qed.

Theorem reverse_complaint : forall i c m,
  SEL i c = Complaint m -> SEL (QReverse i) c = Complaint m.
Proof. intros i c m H. rewrite sel_reverse, H. reflexivity. Qed.

(* same nodes, same multiplicities, same length *)
Corollary reverse_same_members : forall i c r l x,
  SEL (QReverse i) c = Val r -> SEL i c = Val l -> (In x (nodes_of r) <-> In x (nodes_of l)).
Proof. intros i c r l x Hr Hl. rewrite (reverse_is_rev i c r l Hr Hl). symmetry. apply in_rev. Qed.

Corollary reverse_length : forall i c r l,
  SEL (QReverse i) c = Val r -> SEL i c = Val l -> List.length r = List.length l.
Proof.
  intros i c r l Hr Hl. pose proof (reverse_is_rev i c r l Hr Hl) as H.
  apply (f_equal (@List.length node)) in H. unfold nodes_of in H.
  now rewrite rev_length, !map_length in H.
Qed.

(* reverse(reverse(P)) has the sequence of P *)
Corollary reverse_involutive : forall i c l,
  SEL i c = Val l ->
  exists r, SEL (QReverse (QReverse i)) c = Val r /\ nodes_of r = nodes_of l.
Proof.
  intros i c l H. eexists. split.
  - apply reverse_val. apply reverse_val. exact H.
  - rewrite !AxesSound.nodes_of_unnumbered. apply rev_involutive.
Qed.

(* every item reverse() hands out has position 1 (the transform query does
   not count) *)
Lemma reverse_positions : forall i c r it,
  SEL (QReverse i) c = Val r -> In it r -> it_pos it = 1 /\ it_lvl it = 0.
Proof.
  intros i c r it H Hin. rewrite sel_reverse in H. destruct (SEL i c) as [l| |]; try discriminate H.
  cbn [obind] in H. injection H as <-. unfold unnumbered in Hin. apply in_map_iff in Hin.
  destruct Hin as (x & <- & _). split; reflexivity.
Qed.

(* count(reverse(P)) = count(P) *)
Corollary count_reverse : forall i c l,
  SEL i c = Val l ->
  EVAL (QFn1 FCount (QReverse i)) c = Val (VNum (of_Z (Z.of_nat (List.length l)))).
Proof.
  intros i c l H. rewrite (count_select (QReverse i) c _ eq_refl (reverse_val i c l H)).
  unfold unnumbered, nodes_of. now rewrite map_length, rev_length, map_length.
Qed.

End Count.
Print Assumptions sel_satisfies_own_test.
Print Assumptions count_is_length.
Print Assumptions count_select.
Print Assumptions reverse_is_rev.
Print Assumptions count_reverse.

(* ------------------------------------------------------------------ *)
(** * 4. Expr.Evaluate vs Expr.Select (Api.v) *)

Section ApiLevel.
Variable rm : string -> string -> option bool.
Variable rn : string -> nat.
Variable rr : string -> string -> string -> string.
Variable hcode : tree -> node -> N.

Notation SELECT := (select rm rn rr hcode).
Notation EVALUATE := (evaluate rm rn rr hcode).

(* MAIN: on a node-set valued query, Evaluate returns the node-set made of
   exactly the nodes Select returns, in the same order *)
Theorem evaluate_same_sequence : forall D has_ns q c ns,
  nodeset_query q = true -> SELECT D has_ns q c = Val ns ->
  EVALUATE D has_ns q c = Val (VNodes (unnumbered ns)).
Proof.
  intros D has_ns q c ns Hq H. unfold evaluate. rewrite H.
  unfold select in H.
  rewrite (eval_nodeset D has_ns (hcode D) rm rn rr q c Hq).
  destruct (sel D has_ns (hcode D) rm rn rr q c) as [l| |]; try discriminate H. reflexivity.
Qed.

Corollary evaluate_same_nodes : forall D has_ns q c ns,
  nodeset_query q = true -> SELECT D has_ns q c = Val ns ->
  exists l, EVALUATE D has_ns q c = Val (VNodes l) /\ nodes_of l = ns.
Proof.
  intros D has_ns q c ns Hq H. eexists. split; [exact (evaluate_same_sequence D has_ns q c ns Hq H)|].
  apply AxesSound.nodes_of_unnumbered.
Qed.

(* conversely, for ANY query: a node-set returned by Evaluate is Select's sequence *)
Theorem evaluate_nodes_select : forall D has_ns q c l,
  EVALUATE D has_ns q c = Val (VNodes l) -> SELECT D has_ns q c = Val (nodes_of l).
Proof.
  intros D has_ns q c l H. unfold evaluate in H.
  destruct (eval D has_ns (hcode D) rm rn rr q c) as [v| |] eqn:E; try discriminate H.
  destruct v; try discriminate H.
  destruct (SELECT D has_ns q c) as [ns| |]; try discriminate H.
  cbn [obind] in H. injection H as <-. now rewrite AxesSound.nodes_of_unnumbered.
Qed.

(* failures agree too *)
Theorem evaluate_complaint : forall D has_ns q c m,
  nodeset_query q = true -> SELECT D has_ns q c = Complaint m -> EVALUATE D has_ns q c = Complaint m.
Proof.
  intros D has_ns q c m Hq H. unfold evaluate, select in *.
  rewrite (eval_nodeset D has_ns (hcode D) rm rn rr q c Hq).
  destruct (sel D has_ns (hcode D) rm rn rr q c) as [l| |]; try discriminate H.
  cbn [obind] in *. congruence.
Qed.

(* a scalar result is passed through *)
Theorem evaluate_scalar : forall D has_ns q c v,
  eval D has_ns (hcode D) rm rn rr q c = Val v -> (forall l, v <> VNodes l) ->
  EVALUATE D has_ns q c = Val v.
Proof.
  intros D has_ns q c v H Hv. unfold evaluate. rewrite H. destruct v; try reflexivity.
  exfalso. eapply Hv. reflexivity.
Qed.

(* Evaluate("count(P)") = the number of nodes Select("P") returns *)
Theorem evaluate_count_select : forall D has_ns q c ns,
  nodeset_query q = true -> SELECT D has_ns q c = Val ns ->
  EVALUATE D has_ns (QFn1 FCount q) c = Val (VNum (of_Z (Z.of_nat (List.length ns)))).
Proof.
  intros D has_ns q c ns Hq H. unfold select in H.
  destruct (sel D has_ns (hcode D) rm rn rr q c) as [l| |] eqn:E; try discriminate H.
  cbn [obind] in H. injection H as <-.
  apply evaluate_scalar; [|discriminate].
  rewrite (count_select D has_ns (hcode D) rm rn rr q c l Hq E).
  unfold nodes_of. now rewrite map_length.
Qed.

(* Select("reverse(P)") = rev (Select("P")) *)
Theorem select_reverse : forall D has_ns i c ns,
  SELECT D has_ns i c = Val ns -> SELECT D has_ns (QReverse i) c = Val (rev ns).
Proof.
  intros D has_ns i c ns H. unfold select in *.
  destruct (sel D has_ns (hcode D) rm rn rr i c) as [l| |] eqn:E; try discriminate H.
  cbn [obind] in H. injection H as <-.
  rewrite (reverse_val D has_ns (hcode D) rm rn rr i c l E). cbn [obind].
  now rewrite AxesSound.nodes_of_unnumbered.
Qed.

End ApiLevel.
Print Assumptions evaluate_same_sequence.
Print Assumptions evaluate_nodes_select.
Print Assumptions evaluate_count_select.
Print Assumptions select_reverse.

(* ------------------------------------------------------------------ *)
(** * 5. Examples on HashInj's sample document
     <a x p:x y>t<p:b x>t</p:b>t<!--t--></a><!--t-->                  *)
Module CountReverseExamples.

Definition no_re_m : string -> string -> option bool := fun _ _ => None.
Definition no_re_n : string -> nat := fun _ => 0.
Definition no_re_r : string -> string -> string -> string := fun _ s _ => s.
Definition SELs := sel sample_doc false (hash_code sample_doc) no_re_m no_re_n no_re_r.
Definition EVALs := eval sample_doc false (hash_code sample_doc) no_re_m no_re_n no_re_r.
Definition SELECTs := select no_re_m no_re_n no_re_r hash_code sample_doc false.
Definition EVALUATEs := evaluate no_re_m no_re_n no_re_r hash_code sample_doc false.

Definition text_t : ntest := mkTest NTText "" "" false "".
(*  /descendant::text()  *)
Definition texts : query := QDescendant false text_t QAbsolute.
(*  /descendant-or-self::node()/descendant::text() : the three text nodes, repeated *)
Definition dup_texts : query :=
  QDescendant false text_t (QDescendant true any_test QAbsolute).

Example ex_texts :
  SELECTs texts root_node = Val [mkNode [0;0] None; mkNode [0;1;0] None; mkNode [0;2] None].
Proof. vm_compute. reflexivity. Qed.

Example ex_count :
  EVALs (QFn1 FCount texts) (mkNode [0;1] None) = Val (VNum (of_Z 3)).
Proof. vm_compute. reflexivity. Qed.

(* the theorem's reading of the same fact *)
Example ex_count_thm :
  exists l, SELs texts root_node = Val l /\ List.length l = 3 /\
            EVALs (QFn1 FCount texts) root_node = Val (VNum (of_Z (Z.of_nat (List.length l)))).
Proof.
  destruct (SELs texts root_node) as [l| |] eqn:E; try (vm_compute in E; discriminate E).
  exists l. split; [reflexivity|]. split.
  - vm_compute in E. injection E as <-. reflexivity.
  - apply (count_select sample_doc false (hash_code sample_doc) no_re_m no_re_n no_re_r texts root_node l
             eq_refl E).
Qed.

(* count() counts a sequence, duplicates included: the text below p:b is
   reached from the root, from a and from p:b, the other two twice *)
Example ex_count_sequence :
  omap (@List.length item) (SELs dup_texts root_node) = Val 7 /\
  EVALs (QFn1 FCount dup_texts) root_node = Val (VNum (of_Z 7)).
Proof. split; vm_compute; reflexivity. Qed.

Example ex_reverse :
  SELECTs (QReverse texts) root_node = Val [mkNode [0;2] None; mkNode [0;1;0] None; mkNode [0;0] None].
Proof. vm_compute. reflexivity. Qed.

Example ex_evaluate :
  EVALUATEs texts root_node =
  Val (VNodes (unnumbered [mkNode [0;0] None; mkNode [0;1;0] None; mkNode [0;2] None])) /\
  EVALUATEs (QFn1 FCount (QReverse texts)) root_node = Val (VNum (of_Z 3)).
Proof. split; vm_compute; reflexivity. Qed.

(* the sequence Select hands out carries the step's counters (1,2,3), the
   node-set Evaluate returns is the drained iterator (all counters 1): same
   nodes, same order *)
Example ex_evaluate_vs_select_items :
  omap (map it_pos) (SELs texts root_node) = Val [1; 2; 3] /\
  (exists l, EVALUATEs texts root_node = Val (VNodes l) /\ map it_pos l = [1; 1; 1]).
Proof. split; [vm_compute; reflexivity|]. eexists. split; vm_compute; reflexivity. Qed.

End CountReverseExamples.
