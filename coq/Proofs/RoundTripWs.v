(* RoundTripWs.v — C10, stage 4: inserting or removing optional white space
   between tokens never changes the parse.

   [print_ws w e] prints the tokens of [e] with the white-space string [w i]
   in front of token number i (and [w n] after the last one); where [w i] is
   empty and the two neighbouring tokens would fuse ("a" "-" ; "1" "div" is
   fine for this scanner, "a" "div" is not) a single space is kept.  For EVERY
   choice of [w] the result parses to the same tree as the minimal print. *)
From XP Require Import Base F64 Doc Ast Scan Parse.
From XP.Proofs Require Import ParseTerm ParseAssoc ScanTokens RoundTripOps RoundTripPaths.
Require Import Lia.
Open Scope nat_scope.
Open Scope string_scope.
Open Scope list_scope.

Fixpoint lay_w (w : nat -> list ascii) (i : nat) (ts : list token) : layout :=
  match ts with
  | [] => []
  | t :: r => (w i, t) :: lay_w w (S i) r
  end.

Definition ws_fun (w : nat -> list ascii) : Prop := forall i, forallb ws_char (w i) = true.

Lemma map_snd_lay_w : forall w ts i, map snd (lay_w w i ts) = ts.
Proof. intros w ts. induction ts as [|t r IH]; intros i; cbn; [reflexivity|]. rewrite IH. reflexivity. Qed.

Lemma ws_lay_w : forall w ts i, ws_fun w ->
  forallb (fun p => forallb ws_char (fst p)) (lay_w w i ts) = true.
Proof.
  intros w ts. induction ts as [|t r IH]; intros i Hw; cbn; [reflexivity|].
  rewrite (Hw i), IH by exact Hw. reflexivity.
Qed.

Definition text_ws (w : nat -> list ascii) (ts : list token) : string :=
  string_of_list (render (fix_lay (lay_w w 0 ts ++ [(w (List.length ts), TEOF)]))).

(* ---- the full language of stage 3 ---- *)
Definition print_ws (w : nat -> list ascii) (e : px) : string := text_ws w (xtoks e).

Lemma print_ws_none : forall e, print_ws (fun _ => []) e = print_min e.
Proof.
  intros e. unfold print_ws, text_ws, print_min. do 3 f_equal.
  generalize 0. induction (xtoks e) as [|t r IH]; intros i; cbn; [reflexivity|]. rewrite IH. reflexivity.
Qed.

Theorem C10_white_space : forall ns w e,
  ws_fun w -> xwf e -> xok e -> xdepth e < max_depth ->
  parse (print_ws w e) ns = parse (print_min e) ns.
Proof.
  intros ns w e Hw Hwf Hok Hd. unfold print_ws, text_ws.
  apply ws_irrelevant_paths; try assumption.
  - apply fix_lay_ok; [apply ws_lay_w; exact Hw|rewrite map_snd_lay_w; exact Hok|apply Hw].
  - rewrite map_snd_fix_lay, map_app, map_snd_lay_w. reflexivity.
Qed.
Print Assumptions C10_white_space.

(* two arbitrary white-space choices give the same parse, and it is the intended tree *)
Corollary C10_white_space_2 : forall ns w1 w2 e,
  ws_fun w1 -> ws_fun w2 -> xwf e -> xok e -> xdepth e < max_depth ->
  parse (print_ws w1 e) ns = parse (print_ws w2 e) ns /\ parse (print_ws w1 e) ns = Ok (xast e).
Proof.
  intros ns w1 w2 e H1 H2 Hwf Hok Hd.
  rewrite (C10_white_space ns w1 e), (C10_white_space ns w2 e) by assumption.
  split; [reflexivity|]. apply roundtrip_print_min; assumption.
Qed.

(* ---- the operator skeleton of stage 2, against its pretty printer ---- *)
Definition print_ws_ops (w : nat -> list ascii) (e : ex) : string := text_ws w (toks e).

Theorem C10_white_space_ops : forall ns w e,
  ws_fun w -> wf e -> lit_ok e -> forallb tok_ok' (toks e) = true -> pdepth e < max_depth ->
  parse (print_ws_ops w e) ns = parse (print e) ns.
Proof.
  intros ns w e Hw Hwf Hlit Hok Hd. unfold print_ws_ops, text_ws.
  apply ws_irrelevant; try assumption.
  - apply fix_lay_ok; [apply ws_lay_w; exact Hw|rewrite map_snd_lay_w; exact Hok|apply Hw].
  - rewrite map_snd_fix_lay, map_app, map_snd_lay_w. reflexivity.
Qed.
Print Assumptions C10_white_space_ops.

(* ---- examples ---- *)
Definition tab : ascii := "009"%char.
Definition nl : ascii := "010"%char.
Definition cr : ascii := "013"%char.

(* white space chosen by position: tabs, newlines, nothing *)
Definition w_ex (i : nat) : list ascii :=
  match i mod 4 with 0 => [] | 1 => [tab] | 2 => [nl; " "%char] | _ => [cr; nl] end.
Lemma w_ex_ok : ws_fun w_ex.
Proof. intros i. unfold w_ex. destruct (i mod 4) as [|[|[|k]]]; reflexivity. Qed.

Example ws_text : print_ws w_ex ex1 =
  String.append "a" (String tab (String.append "/" (String nl (String.append " b" (String cr (String nl
  (String.append "[1" (String tab (String.append "]" (String nl (String.append " |" (String cr (String nl
  (String.append "c+" (String tab (String.append "2" (String nl (String.append " *" (String cr (String nl "3")))))))))))))))))))).
Proof. vm_compute. reflexivity. Qed.

Example ws_parse : parse (print_ws w_ex ex1) None = parse "a/b[1]|c+2*3" None.
Proof.
  change "a/b[1]|c+2*3" with (print_min ex1).
  apply C10_white_space; [apply w_ex_ok|cbn; repeat split; (lia || reflexivity)|vm_compute; reflexivity|
                          cbn; unfold max_depth; lia].
Qed.

(* where a separator is needed it is kept: "a - b" never becomes "a-b" *)
Example ws_needed :
  print_ws (fun _ => []) (XBin BSub (XPath PRel (ROne (nm_step "a"))) (XPath PRel (ROne (nm_step "b"))))
  = "a -b".
Proof. vm_compute. reflexivity. Qed.

Example ws_ops_parse :
  parse (print_ws_ops w_ex chain) None = parse "1 or 2 and 3 = 4 < 5 + 6 * -7 | 8" None.
Proof.
  change "1 or 2 and 3 = 4 < 5 + 6 * -7 | 8" with (print chain).
  apply C10_white_space_ops;
    [apply w_ex_ok | cbn; repeat split; lia | cbn; repeat split; reflexivity
    | vm_compute; reflexivity | cbn; unfold max_depth; lia].
Qed.
