(* C10 — expressions parse with XPath 1.0 precedence, associativity and token
   rules.  Property theorems only; proofs in Proofs/ScanTokens.v,
   Proofs/RoundTripOps.v, Proofs/RoundTripPaths.v, Proofs/RoundTripWs.v,
   Proofs/ParseAssoc.v, Proofs/ParseTerm.v.
   [px] (RoundTripPaths.v) is the syntax of XPath expressions written as the
   GRAMMAR structures them — the nine tiers or < and < equality < relational <
   additive < multiplicative < unary minus < union < path as a datatype with a
   well-formedness predicate [xwf] (left operand of a level-k operator at level >= k,
   right operand at level > k: left associativity), location paths with all axes,
   node tests, predicates, function calls, variables, parentheses, filter
   expressions; [xast e] is the parse tree the grammar assigns; [print_min],
   [print_ws] print the token list of e.  The round trip
   parse (print e) = Ok (xast e) therefore says that the parser groups every
   expression, of ANY size, as the grammar prescribes.
   Not covered by [px] (decided by the correspondence check only): qualified names
   p:a, decimals and double-quoted strings, a bare "/" operand, the step form
   (a, b), non-ASCII text. *)
From Coq Require Import List String Ascii.
From XP Require Import Base Ast Scan Parse.
From XP.Proofs Require Import ParseTerm ParseAssoc ScanTokens RoundTripOps RoundTripPaths RoundTripWs.

(* precedence and associativity: round trip through the real scanner and parser *)
Theorem C10_round_trip : forall ns e,
  xwf e -> xok e -> xdepth e < max_depth -> parse (print_min e) ns = Ok (xast e).
Proof. exact roundtrip_print_min. Qed.
Print Assumptions C10_round_trip.

(* ... for every admissible layout of the same tokens (any white space anywhere
   between tokens, as long as neighbouring tokens do not fuse) *)
Theorem C10_round_trip_any_layout : forall ns e L,
  xwf e -> xdepth e < max_depth -> lay_ok L = true -> map snd L = (xtoks e ++ (TEOF :: nil))%list ->
  parse (string_of_list (render L)) ns = Ok (xast e).
Proof. exact roundtrip_paths_layout. Qed.
Print Assumptions C10_round_trip_any_layout.

(* white space: two arbitrary choices of white space at every token boundary give
   the same parse tree (the one of the grammar) *)
Theorem C10_white_space : forall ns w1 w2 e,
  ws_fun w1 -> ws_fun w2 -> xwf e -> xok e -> xdepth e < max_depth ->
  parse (print_ws w1 e) ns = parse (print_ws w2 e) ns /\ parse (print_ws w1 e) ns = Ok (xast e).
Proof. exact C10_white_space_2. Qed.
Print Assumptions C10_white_space.

(* at the scanner: white space in front of a token never changes the token *)
Theorem C10_white_space_before_token : forall s ws ws' l,
  forallb ws_char ws = true -> forallb ws_char ws' = true -> s_rest s = (ws ++ l)%list ->
  next_item s = next_item (set_rest s (ws' ++ l)%list).
Proof. exact C10_ws_before_token. Qed.
Print Assumptions C10_white_space_before_token.

(* abbreviations: a = child::a, @a = attribute::a, . = self::node(), .. = parent::node(),
   // = /descendant-or-self::node()/ : both spellings parse, to the same tree up to
   the unused [prop] field of a step and the spelling recorded in the root node *)
Theorem C10_abbreviations_mean_their_expansion : forall ns e,
  xwf e -> xok e -> xdepth e < max_depth ->
  exists a a', parse (print_min e) ns = Ok a /\ parse (print_min (expand e)) ns = Ok a' /\ erase a = erase a'.
Proof. exact C10_abbreviations. Qed.
Print Assumptions C10_abbreviations_mean_their_expansion.

(* the mechanism: every binary level is the same left-associative loop ... *)
Theorem C10_left_associative : forall getop sub st0 a0 st1 ops stf fuel,
  sub st0 = Ok (a0, st1) -> bin_run getop sub st1 ops stf -> List.length ops < fuel ->
  bin_level fuel getop sub st0 = Ok (left_fold a0 ops, stf).
Proof. exact bin_level_left_assoc. Qed.
Print Assumptions C10_left_associative.

Theorem C10_only_left_folds : forall getop sub fuel st r stf,
  bin_level fuel getop sub st = Ok (r, stf) ->
  exists a0 st1 ops, sub st = Ok (a0, st1) /\ bin_run getop sub st1 ops stf /\ r = left_fold a0 ops.
Proof. exact bin_level_inv. Qed.
Print Assumptions C10_only_left_folds.

(* ... and the tiers are nested in the stated order *)
Theorem C10_tiers : forall f pexpr pstep n,
  or_expr_b f pexpr pstep n = bin_level f op_or (and_expr_b f pexpr pstep n) /\
  and_expr_b f pexpr pstep n = bin_level f op_and (eq_expr_b f pexpr pstep n) /\
  eq_expr_b f pexpr pstep n = bin_level f op_eq (rel_expr_b f pexpr pstep n) /\
  rel_expr_b f pexpr pstep n = bin_level f op_rel (add_expr_b f pexpr pstep n) /\
  add_expr_b f pexpr pstep n = bin_level f op_add (mul_expr_b f pexpr pstep n) /\
  mul_expr_b f pexpr pstep n = bin_level f op_mul (unary_expr_b f pexpr pstep n) /\
  union_expr_b f pexpr pstep n = bin_level f op_union (path_expr_b f pexpr pstep n).
Proof. exact levels_are_bin_level. Qed.
Print Assumptions C10_tiers.

Theorem C10_parse_terminates : forall text ns, parse text ns <> OutOfFuel.
Proof. exact parse_terminates. Qed.
Print Assumptions C10_parse_terminates.

(* ------------------------------------------------------------------ *)
(* SYNTAX OUTSIDE THE ROUND-TRIP DATATYPE (Proofs/RoundTripMore.v): decimal literals  12.5  5.  .5 ,
   double-quoted strings, qualified names  p:a  (with and without a namespace binding) and the bare
   "/" , each as the LEFTMOST operand: alone and followed by any of the 14 operators and any
   round-trip expression E allowed to its right ([rhs w top lts we E k]: the tokens of  op E  in an
   admissible white-space layout), parse to the expected tree. *)
From XP Require Import F64.
From XP.Proofs Require Import EndToEndName RoundTripMore.
Open Scope list_scope.

Theorem C10_decimal_literal : forall ns ip fp,
  ip <> [] -> forallb digit_char_b ip = true -> forallb digit_char_b fp = true ->
  not_inf (of_decimal false ip fp) = true ->
  (forall we, forallb ws_char we = true ->
     parse (string_of_list ((ip ++ dot_c :: fp) ++ we)) ns = Ok (ANum (of_decimal false ip fp))) /\
  (forall w top lts we E k, rhs w top lts we E k -> next_not_digit (rhs_text w top lts we) = true ->
     parse (string_of_list ((ip ++ dot_c :: fp) ++ rhs_text w top lts we)) ns
       = Ok (AOp (opstr top) (ANum (of_decimal false ip fp)) (xast E))).
Proof.
  intros ns ip fp H1 H2 H3 H4. split.
  - intros we Hw. exact (RT_decimal_alone ns ip fp we H1 H2 H3 H4 Hw).
  - intros w top lts we E k Hr Hn. exact (RT_decimal_binop ns ip fp w top lts we E k H1 H2 H3 H4 Hr Hn).
Qed.
Print Assumptions C10_decimal_literal.

Theorem C10_fraction_literal : forall ns fp,
  fp <> [] -> forallb digit_char_b fp = true -> not_inf (of_decimal false [] fp) = true ->
  (forall we, forallb ws_char we = true ->
     parse (string_of_list ((dot_c :: fp) ++ we)) ns = Ok (ANum (of_decimal false [] fp))) /\
  (forall w top lts we E k, rhs w top lts we E k -> next_not_digit (rhs_text w top lts we) = true ->
     parse (string_of_list ((dot_c :: fp) ++ rhs_text w top lts we)) ns
       = Ok (AOp (opstr top) (ANum (of_decimal false [] fp)) (xast E))).
Proof.
  intros ns fp H1 H2 H3. split.
  - intros we Hw. exact (RT_fraction_alone ns fp we H1 H2 H3 Hw).
  - intros w top lts we E k Hr Hn. exact (RT_fraction_binop ns fp w top lts we E k H1 H2 H3 Hr Hn).
Qed.
Print Assumptions C10_fraction_literal.

Theorem C10_double_quoted_string : forall ns b,
  forallb dq_char (list_of_string b) = true ->
  (forall we, forallb ws_char we = true ->
     parse (string_of_list ((dq_c :: list_of_string b ++ [dq_c]) ++ we)) ns = Ok (AStr b)) /\
  (forall w top lts we E k, rhs w top lts we E k ->
     parse (string_of_list ((dq_c :: list_of_string b ++ [dq_c]) ++ rhs_text w top lts we)) ns
       = Ok (AOp (opstr top) (AStr b) (xast E))).
Proof.
  intros ns b H1. split.
  - intros we Hw. exact (RT_dq_string_alone ns b we H1 Hw).
  - intros w top lts we E k Hr. exact (RT_dq_string_binop ns b w top lts we E k H1 Hr).
Qed.
Print Assumptions C10_double_quoted_string.

Theorem C10_qualified_name : forall ns pfx nm a,
  name_ok pfx = true -> name_ok nm = true -> qname_ast ns pfx nm = Some a ->
  parse (string_of_list ((list_of_string pfx ++ colon :: list_of_string nm) ++ [])) ns = Ok a /\
  (forall w top lts we E k, rhs w top lts we E k -> sep_qname (rhs_text w top lts we) = true ->
     parse (string_of_list ((list_of_string pfx ++ colon :: list_of_string nm) ++ rhs_text w top lts we)) ns
       = Ok (AOp (opstr top) a (xast E))).
Proof.
  intros ns pfx nm a H1 H2 H3. split.
  - exact (RT_qname_alone ns pfx nm a H1 H2 H3).
  - intros w top lts we E k Hr Hs. exact (RT_qname_binop ns pfx nm a w top lts we E k H1 H2 H3 Hr Hs).
Qed.
Print Assumptions C10_qualified_name.

Theorem C10_bare_root : forall ns,
  (forall we, forallb ws_char we = true -> parse (string_of_list ([slash_c] ++ we)) ns = Ok (ARoot "/")) /\
  (forall w top lts we E k, rhs w top lts we E k -> is_step (ttyp top) = false ->
     sep_slash (rhs_text w top lts we) = true ->
     parse (string_of_list ([slash_c] ++ rhs_text w top lts we)) ns = Ok (AOp (opstr top) (ARoot "/") (xast E))).
Proof.
  intro ns. split.
  - intros we Hw. exact (RT_root_alone ns we Hw).
  - intros w top lts we E k Hr Hi Hs. exact (RT_root_binop ns w top lts we E k Hr Hi Hs).
Qed.
Print Assumptions C10_bare_root.

(* ------------------------------------------------------------------ *)
(* WHITE SPACE, at the level of VALUES: for every round-trip expression e and every admissible
   white-space layout w, Compile of the laid-out text is Compile of the minimal text, so Select and
   Evaluate give the same results — value(w(e)) = value(e). *)
From XP Require Import Doc Build Api.
From XP.Proofs Require Import EndToEndLayout.

Theorem C10_white_space_preserves_values : forall re_ok ns w e,
  ws_fun w -> xwf e -> xok e -> xdepth e < max_depth ->
  compile re_ok (print_ws w e) ns = compile re_ok (print_min e) ns /\
  compile re_ok (print_sp e) ns = compile re_ok (print_min e) ns /\
  forall q, compile re_ok (print_min e) ns = Ok q ->
    compile re_ok (print_ws w e) ns = Ok q /\
    forall rm rn rr (hc : tree -> node -> N) D has_ns c q',
      compile re_ok (print_ws w e) ns = Ok q' ->
      evaluate rm rn rr hc D has_ns q' c = evaluate rm rn rr hc D has_ns q c /\
      select rm rn rr hc D has_ns q' c = select rm rn rr hc D has_ns q c.
Proof. exact evaluate_layout_independent. Qed.
Print Assumptions C10_white_space_preserves_values.
