(* Proofs/EndToEndLayout.v — the text-level value theorems (C07 / C08 / C09,
   Proofs/EndToEndValues.v) for EVERY white-space layout of the tokens.

   [evaluate_layout_independent]: for any expression e of the round-trip
   grammar and any white-space function w, Compile of  print_ws w e  is Compile
   of  print_min e ; hence any statement "Compile(print_min e) = Ok q and Q q"
   holds verbatim for  print_ws w e  and  print_sp e  ([text_theorem_any_layout]).
   The corollaries restate the value theorems in that form. *)
From XP Require Import Base F64 Doc Ast Scan Parse Build Hash Eval Api.
From XP.Spec Require Import Axes Paths Values StrSpec.
From XP.Proofs Require Import ParseTerm ScanTokens RoundTripOps RoundTripPaths RoundTripWs
                              HashInj Compare Arith StrFuncs BuildOps
                              EndToEndPaths EndToEndPred EndToEndUnion EndToEndValues.
Require Import Lia ZArith.
Open Scope string_scope.
Open Scope nat_scope.
Open Scope list_scope.

(** the compiled query, hence every value Select / Evaluate return, does not depend on the layout *)
Theorem evaluate_layout_independent : forall re_ok ns w e,
  ws_fun w -> xwf e -> xok e -> xdepth e < max_depth ->
  compile re_ok (print_ws w e) ns = compile re_ok (print_min e) ns /\
  compile re_ok (print_sp e) ns = compile re_ok (print_min e) ns /\
  forall q, compile re_ok (print_min e) ns = Ok q ->
    compile re_ok (print_ws w e) ns = Ok q /\
    forall rm rn rr (hc : tree -> node -> N) D has_ns c q',
      compile re_ok (print_ws w e) ns = Ok q' ->
      evaluate rm rn rr hc D has_ns q' c = evaluate rm rn rr hc D has_ns q c /\
      select rm rn rr hc D has_ns q' c = select rm rn rr hc D has_ns q c.
Proof.
  intros re_ok ns w e Hw Hwf Hok Hd.
  destruct (compile_layout_independent re_ok ns w e Hw Hwf Hok Hd) as [E1 E2].
  split; [exact E1|]. split; [exact E2|].
  intros q Hq. split; [rewrite E1; exact Hq|].
  intros rm rn rr hc D has_ns c q' Hq'. rewrite E1, Hq in Hq'. inversion Hq'; subst q'. split; reflexivity.
Qed.
Print Assumptions evaluate_layout_independent.

Theorem text_theorem_any_layout : forall re_ok ns e (Q : query -> Prop),
  xwf e -> xok e -> xdepth e < max_depth ->
  (exists q, compile re_ok (print_min e) ns = Ok q /\ Q q) ->
  forall w, ws_fun w ->
  exists q, compile re_ok (print_ws w e) ns = Ok q /\ compile re_ok (print_sp e) ns = Ok q /\
            compile re_ok (print_min e) ns = Ok q /\ Q q.
Proof.
  intros re_ok ns e Q Hwf Hok Hd (q & Hq & HQ) w Hw.
  destruct (compile_layout_independent re_ok ns w e Hw Hwf Hok Hd) as [E1 E2].
  exists q. rewrite E1, E2. auto.
Qed.

(* ---- well-formedness of the texts of EndToEndValues ---- *)
Lemma binop_operands_wf : forall b l r, is_operand_px l -> is_operand_px r -> level b < 8 ->
  xwf (XBin b l r) /\ xdepth (XBin b l r) < max_depth.
Proof.
  intros b l r Hl Hr Hlev.
  destruct (operand_wf l Hl) as (Wl & Dl & Ll). destruct (operand_wf r Hr) as (Wr & Dr & Lr).
  split; [cbn [xwf]; rewrite Ll, Lr; repeat split; try assumption; lia|].
  cbn [xdepth]. rewrite Dl, Dr. unfold max_depth. cbn. lia.
Qed.

Lemma call2_wf : forall fn l r, node_type_name fn = false -> is_operand_px l -> is_operand_px r ->
  xwf (XCall fn (args2 l r)) /\ xdepth (XCall fn (args2 l r)) < max_depth.
Proof.
  intros fn l r Hn Hl Hr. destruct (operand_depth l Hl) as (Wl & Dl). destruct (operand_depth r Hr) as (Wr & Dr).
  split; [cbn; auto|]. cbn [xdepth args2 RoundTripPaths.adepth]. rewrite Dl, Dr. unfold max_depth. cbn. lia.
Qed.

Lemma call1_wf : forall fn l, node_type_name fn = false -> is_operand_px l ->
  xwf (XCall fn (AOne l)) /\ xdepth (XCall fn (AOne l)) < max_depth.
Proof.
  intros fn l Hn Hl. destruct (operand_depth l Hl) as (Wl & Dl).
  split; [cbn; auto|]. cbn [xdepth RoundTripPaths.adepth]. rewrite Dl. unfold max_depth. lia.
Qed.

Lemma call3_wf : forall fn a b x, node_type_name fn = false ->
  is_operand_px a -> is_operand_px b -> is_operand_px x ->
  xwf (XCall fn (args3 a b x)) /\ xdepth (XCall fn (args3 a b x)) < max_depth.
Proof.
  intros fn a b x Hn Ha Hb Hx. destruct (operand_depth a Ha) as (Wa & Da).
  destruct (operand_depth b Hb) as (Wb & Db). destruct (operand_depth x Hx) as (Wx & Dx).
  split; [cbn; auto|]. cbn [xdepth args3 RoundTripPaths.adepth]. rewrite Da, Db, Dx. unfold max_depth. cbn. lia.
Qed.

Section Corollaries.
Variable D : tree.
Variable has_ns : bool.
Variable hc : tree -> node -> N.
Variable rm : string -> string -> option bool.
Variable rn : string -> nat.
Variable rr : string -> string -> string -> string.
Hypothesis Hhash : hash_ok (hc D) (all_nodes D).
Variable re_ok : string -> bool.
Variable ns : nsmap.

Notation EVALUATE := (evaluate rm rn rr hc D has_ns).
Notation OPVAL := (EndToEndValues.opval D has_ns).
Notation sof := (str_or_first D).

(** C07, any layout *)
Corollary C07_text_comparison_ws : forall w b o l r,
  ws_fun w -> is_operand_px l -> is_operand_px r -> cmp_of (opname b) = Some o ->
  xok (XBin b l r) -> 1 + osize l <= max_build_depth -> 1 + osize r <= max_build_depth ->
  exists q,
    compile re_ok (print_ws w (XBin b l r)) ns = Ok q /\
    forall c, Doc.valid D c = true ->
    exists m n, OPVAL l c m /\ OPVAL r c n /\
      EVALUATE q c = compare_values D o m n /\
      (forall x y, Compare.abs D m = Some x -> Compare.abs D n = Some y -> follows_spec o x y = true ->
         EVALUATE q c = Val (VBool (xcompare string_to_number o x y))).
Proof.
  intros w b o l r Hw Hl Hr Ho Hok Hsl Hsr.
  assert (Hlev : level b < 8) by (destruct b; try discriminate Ho; cbn; lia).
  destruct (binop_operands_wf b l r Hl Hr Hlev) as [Hwf Hd].
  destruct (C07_text_comparison D has_ns hc rm rn rr Hhash re_ok ns b o l r Hl Hr Ho Hok Hsl Hsr)
    as (q & C & _ & HV).
  exists q. split; [rewrite (proj1 (compile_layout_independent re_ok ns w _ Hw Hwf Hok Hd)); exact C|].
  intros c Hc. destruct (HV c Hc) as (m & n & Hm & Hn & E & _ & Hs). exists m, n. auto.
Qed.

(** C08, any layout *)
Corollary C08_text_arithmetic_ws : forall w b o l r,
  ws_fun w -> is_operand_px l -> is_operand_px r -> arith_of (opname b) = Some o ->
  xok (XBin b l r) -> 1 + osize l <= max_build_depth -> 1 + osize r <= max_build_depth ->
  exists q,
    compile re_ok (print_ws w (XBin b l r)) ns = Ok q /\
    forall c, Doc.valid D c = true ->
    exists m n, OPVAL l c m /\ OPVAL r c n /\
      EVALUATE q c = Val (VNum (arith_op o (as_number D m) (as_number D n))).
Proof.
  intros w b o l r Hw Hl Hr Ho Hok Hsl Hsr.
  assert (Hlev : level b < 8) by (destruct b; try discriminate Ho; cbn; lia).
  destruct (binop_operands_wf b l r Hl Hr Hlev) as [Hwf Hd].
  destruct (C08_text_arithmetic D has_ns hc rm rn rr Hhash re_ok ns b o l r Hl Hr Ho Hok Hsl Hsr)
    as (q & C & _ & HV).
  exists q. split; [rewrite (proj1 (compile_layout_independent re_ok ns w _ Hw Hwf Hok Hd)); exact C|exact HV].
Qed.

(** C09 contains / starts-with / ends-with, any layout *)
Corollary C09_text_contains_family_ws : forall w fn F l s,
  ws_fun w ->
  In (fn, F) [("contains", FContains); ("starts-with", FStartsWith); ("ends-with", FEndsWith)] ->
  is_operand_px l -> not_number l ->
  xok (XCall fn (args2 l (XStr s))) -> 1 + osize l <= max_build_depth ->
  exists q,
    compile re_ok (print_ws w (XCall fn (args2 l (XStr s)))) ns = Ok q /\
    forall c, Doc.valid D c = true ->
    exists m b, OPVAL l c m /\ EVALUATE q c = Val (VBool b) /\
      match F with
      | FContains => b = true <-> is_substring s (sof m)
      | FStartsWith => b = true <-> is_prefix s (sof m)
      | _ => b = true <-> is_suffix s (sof m)
      end.
Proof.
  intros w fn F l s Hw Hin Hl Hnn Hok Hsl.
  assert (Hnt : node_type_name fn = false).
  { cbn [In] in Hin. destruct Hin as [H|[H|[H|[]]]]; inversion H; reflexivity. }
  destruct (call2_wf fn l (XStr s) Hnt Hl I) as [Hwf Hd].
  destruct (C09_text_contains_family D has_ns hc rm rn rr Hhash re_ok ns fn F l s Hin Hl Hnn Hok Hsl)
    as (q & C & _ & HV).
  exists q. split; [rewrite (proj1 (compile_layout_independent re_ok ns w _ Hw Hwf Hok Hd)); exact C|exact HV].
Qed.

(** C09 substring-before / substring-after, any layout *)
Corollary C09_text_substring_before_after_ws : forall w (after : bool) l r,
  ws_fun w -> is_operand_px l -> is_operand_px r ->
  let fn := if after then "substring-after" else "substring-before" in
  xok (XCall fn (args2 l r)) -> 1 + osize l <= max_build_depth -> 1 + osize r <= max_build_depth ->
  exists q,
    compile re_ok (print_ws w (XCall fn (args2 l r))) ns = Ok q /\
    forall c, Doc.valid D c = true ->
    exists m n res, OPVAL l c m /\ OPVAL r c n /\ EVALUATE q c = Val (VStr res) /\
      if after then is_substring_after (sof m) (sof n) res
      else is_substring_before (sof m) (sof n) res.
Proof.
  intros w after l r Hw Hl Hr fn Hok Hsl Hsr.
  assert (Hnt : node_type_name fn = false) by (unfold fn; destruct after; reflexivity).
  destruct (call2_wf fn l r Hnt Hl Hr) as [Hwf Hd].
  destruct (C09_text_substring_before_after D has_ns hc rm rn rr Hhash re_ok ns after l r Hl Hr Hok Hsl Hsr)
    as (q & C & _ & HV).
  exists q. split; [rewrite (proj1 (compile_layout_independent re_ok ns w _ Hw Hwf Hok Hd)); exact C|exact HV].
Qed.

(** C09 concat, string-length, normalize-space, translate: any layout *)
Corollary C09_text_concat_ws : forall w l r,
  ws_fun w -> is_operand_px l -> is_operand_px r ->
  xok (XCall "concat" (args2 l r)) -> 1 + osize l <= max_build_depth -> 1 + osize r <= max_build_depth ->
  exists q,
    compile re_ok (print_ws w (XCall "concat" (args2 l r))) ns = Ok q /\
    forall c, Doc.valid D c = true ->
    exists m n, OPVAL l c m /\ OPVAL r c n /\ EVALUATE q c = Val (VStr (sof m ++ sof n)).
Proof.
  intros w l r Hw Hl Hr Hok Hsl Hsr.
  destruct (call2_wf "concat" l r eq_refl Hl Hr) as [Hwf Hd].
  destruct (C09_text_concat D has_ns hc rm rn rr Hhash re_ok ns l r Hl Hr Hok Hsl Hsr) as (q & C & _ & HV).
  exists q. split; [rewrite (proj1 (compile_layout_independent re_ok ns w _ Hw Hwf Hok Hd)); exact C|exact HV].
Qed.

Corollary C09_text_string_length_ws : forall w l,
  ws_fun w -> is_operand_px l -> xok (XCall "string-length" (AOne l)) -> 1 + osize l <= max_build_depth ->
  exists q,
    compile re_ok (print_ws w (XCall "string-length" (AOne l))) ns = Ok q /\
    forall c, Doc.valid D c = true ->
    exists m, OPVAL l c m /\ EVALUATE q c = Val (VNum (of_Z (Z.of_nat (String.length (sof m))))).
Proof.
  intros w l Hw Hl Hok Hsl.
  destruct (call1_wf "string-length" l eq_refl Hl) as [Hwf Hd].
  destruct (C09_text_string_length D has_ns hc rm rn rr Hhash re_ok ns l Hl Hok Hsl) as (q & C & _ & HV).
  exists q. split; [rewrite (proj1 (compile_layout_independent re_ok ns w _ Hw Hwf Hok Hd)); exact C|exact HV].
Qed.

Corollary C09_text_normalize_space_ws : forall w l,
  ws_fun w -> is_operand_px l -> xok (XCall "normalize-space" (AOne l)) -> 1 + osize l <= max_build_depth ->
  exists q,
    compile re_ok (print_ws w (XCall "normalize-space" (AOne l))) ns = Ok q /\
    forall c, Doc.valid D c = true ->
    exists m, OPVAL l c m /\ EVALUATE q c = Val (VStr (normalize_space_spec (sof m))).
Proof.
  intros w l Hw Hl Hok Hsl.
  destruct (call1_wf "normalize-space" l eq_refl Hl) as [Hwf Hd].
  destruct (C09_text_normalize_space D has_ns hc rm rn rr Hhash re_ok ns l Hl Hok Hsl) as (q & C & _ & HV).
  exists q. split; [rewrite (proj1 (compile_layout_independent re_ok ns w _ Hw Hwf Hok Hd)); exact C|exact HV].
Qed.

Corollary C09_text_translate_ws : forall w a b x,
  ws_fun w -> is_operand_px a -> is_operand_px b -> is_operand_px x ->
  not_number a -> not_number b -> not_number x ->
  xok (XCall "translate" (args3 a b x)) ->
  1 + osize a <= max_build_depth -> 1 + osize b <= max_build_depth -> 1 + osize x <= max_build_depth ->
  exists q,
    compile re_ok (print_ws w (XCall "translate" (args3 a b x))) ns = Ok q /\
    forall c, Doc.valid D c = true ->
    exists va vb vx, OPVAL a c va /\ OPVAL b c vb /\ OPVAL x c vx /\
      EVALUATE q c = Val (VStr (translate_spec (sof va) (sof vb) (sof vx))).
Proof.
  intros w a b x Hw Ha Hb Hx Na Nb Nx Hok Sa Sb Sx.
  destruct (call3_wf "translate" a b x eq_refl Ha Hb Hx) as [Hwf Hd].
  destruct (C09_text_translate D has_ns hc rm rn rr Hhash re_ok ns a b x Ha Hb Hx Na Nb Nx Hok Sa Sb Sx)
    as (q & C & _ & HV).
  exists q. split; [rewrite (proj1 (compile_layout_independent re_ok ns w _ Hw Hwf Hok Hd)); exact C|exact HV].
Qed.

End Corollaries.

Print Assumptions C07_text_comparison_ws.
Print Assumptions C08_text_arithmetic_ws.
Print Assumptions C09_text_contains_family_ws.
Print Assumptions C09_text_translate_ws.

(* ------------------------------------------------------------------ *)
(** * Example: tabs and newlines in  a/@x = 1                            *)
(* ------------------------------------------------------------------ *)
Module Examples.
Import AxesSound.Examples EndToEndPaths.Examples EndToEndValues.Examples.

Example ws_comparison :
  exists q, compile Api.lit_ok (print_ws w_ex (XBin BEq p_ax n1)) None = Ok q /\
            evaluate lit_match lit_numsubexp lit_replace_all hash_code exD true q root_node = Val (VBool true) /\
            print_ws w_ex (XBin BEq p_ax n1) <> print_min (XBin BEq p_ax n1).
Proof.
  destruct (C07_text_comparison_ws exD true hash_code lit_match lit_numsubexp lit_replace_all hx Api.lit_ok None
              w_ex BEq CEq p_ax n1 w_ex_ok (op_path p_ax eq_refl) I eq_refl ltac:(vm_compute; reflexivity)
              ltac:(vm_compute; lia) ltac:(vm_compute; lia)) as (q & C & _).
  exists q. split; [exact C|]. split.
  - vm_compute in C. inversion C; subst q. vm_compute. reflexivity.
  - vm_compute. discriminate.
Qed.

End Examples.
