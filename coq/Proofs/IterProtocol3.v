(* Proofs/IterProtocol3.v — the iterator protocol at cursor level for the complete model
   (Model1/Iter3.v), from ARBITRARY states:

     "MoveNext keeps returning false once it has returned false":
        once a Select call has returned nil, every further Select call returns nil, and
        leaves t.Current() where it is                        (nil_is_final3, run3_after_nil)
     "a Select call leaves t.Current() where it was", for the node-set query types
                                                              (context_preserved3)
     "Current is positioned on the node just reported":
        the NodeIterator driver (MoveNext = Select + MoveTo(result)) has t.Current() on the
        node it reports after every successful step, and reports the same items as the
        Select loop                                           (move_next_positions, run_iter3_items)

   The first two hold for every well-typed tree ([wt3]: the inputs of node-set operators are
   node-set queries), whatever the states -- also for lastFuncQuery, also in half-consumed or
   junk states.  They extend Good / Stable of IterRefine.v, IterRefine2.v to filterQuery with a
   real predicate, descendantOverDescendantQuery, transformFunctionQuery, booleanQuery,
   logicalQuery and the queries whose Select is nil. *)
From XP Require Import Base F64 Doc Ast Hash Eval.
From XP.Model1 Require Import Iter Iter2 Iter3.
From XP.Proofs Require Import AxesSound IterRefine IterRefine2 Filter IterRefine3 IterRefine4.
Open Scope nat_scope.
Open Scope list_scope.

(* a call that returns nil leaves a dead state *)
Definition NilDead {X} (sel : X -> node -> res X) (Dead : X -> Prop) : Prop :=
  forall s cur s' cur', sel s cur = R None s' cur' -> Dead s'.

Lemma Good_NilDead : forall {X} (sel : X -> node -> res X) Dead, Good sel Dead -> NilDead sel Dead.
Proof. intros X sel Dead H s cur s' cur' E. destruct (H _ _ _ _ _ E) as [_ Hd]. apply Hd. reflexivity. Qed.

(* Good of IterRefine.v, relative to a well-formedness invariant of the states:
   a call from a well-formed state gives a well-formed state, leaves t.Current() alone, and
   if it returns nil the state is dead *)
Definition GoodI {X} (sel : X -> node -> res X) (Inv Dead : X -> Prop) : Prop :=
  forall s cur o s' cur', Inv s -> sel s cur = R o s' cur' -> Inv s' /\ cur' = cur /\ (o = None -> Dead s').

(* ================================================================== *)
(** * 1. The iterators, one by one *)

Section Iters.
Context {St : Type}.
Variable D : tree.
Variable hcode : node -> N.
Variable isel : St -> node -> res St.
Variable InvI DeadI : St -> Prop.
Hypothesis HG : GoodI isel InvI DeadI.
Variable test : node -> bool.
Variable F : nat.

Ltac fin := repeat split; auto; try discriminate.

Lemma self_goodI : GoodI (self_select isel test F) InvI DeadI.
Proof.
  unfold self_select. induction F as [|f IH]; intros s cur o s' cur' Hi E; cbn [iter_loop] in E; [discriminate|].
  unfold self_body at 1 in E. destruct (isel s cur) as [o1 s1 cur1|] eqn:Ei; [|discriminate].
  destruct (HG _ _ _ _ _ Hi Ei) as (Hi1 & -> & Hd). destruct o1 as [n|].
  - destruct (test n); [inversion E; subst; fin|(refine (IH _ _ _ _ _ _ E); exact Hi1)].
  - inversion E; subst. fin.
Qed.

Lemma parent_goodI : GoodI (parent_select isel test F) InvI DeadI.
Proof.
  unfold parent_select. induction F as [|f IH]; intros s cur o s' cur' Hi E; cbn [iter_loop] in E; [discriminate|].
  unfold parent_body at 1 in E. destruct (isel s cur) as [o1 s1 cur1|] eqn:Ei; [|discriminate].
  destruct (HG _ _ _ _ _ Hi Ei) as (Hi1 & -> & Hd). destruct o1 as [n|].
  - destruct (move_parent n) as [p|]; [destruct (test p)|];
      [inversion E; subst; fin|(refine (IH _ _ _ _ _ _ E); exact Hi1)|(refine (IH _ _ _ _ _ _ E); exact Hi1)].
  - inversion E; subst. fin.
Qed.

Lemma child_goodI : GoodI (child_select D isel test F) (fun st => InvI (c_in st)) (DeadC DeadI).
Proof.
  unfold child_select. induction F as [|f IH]; intros st cur o st' cur' Hi E; cbn [iter_loop] in E; [discriminate|].
  assert (Hpump : forall k nd first s cur1, InvI s ->
             child_pump D test (iter_loop (child_body D isel test) f) k nd first s cur1 = R o st' cur' ->
             InvI (c_in st') /\ cur' = cur1 /\ (o = None -> DeadC DeadI st')).
  { intros k nd first s cur1 Hs Ep. unfold child_pump in Ep.
    destruct (child_iter_run D test (dfuel D) nd first) as [[[[x|] nd'] f']|]; [| |discriminate].
    - inversion Ep; subst. fin.
    - (refine (IH _ _ _ _ _ _ Ep); exact Hs). }
  unfold child_body at 1 in E. destruct (c_it st) as [|nd first].
  - destruct (isel (c_in st) cur) as [o1 s1 cur1|] eqn:Ei; [|discriminate].
    destruct (HG _ _ _ _ _ Hi Ei) as (Hi1 & -> & Hd). destruct o1 as [n|].
    + apply (Hpump _ _ _ _ _ Hi1 E).
    + inversion E; subst. unfold DeadC. fin.
  - apply (Hpump _ _ _ _ _ Hi E).
Qed.

Lemma attr_goodI : GoodI (attr_select D isel test F) (fun st => InvI (a_in st)) (DeadA DeadI).
Proof.
  unfold attr_select. induction F as [|f IH]; intros st cur o st' cur' Hi E; cbn [iter_loop] in E; [discriminate|].
  assert (Hpump : forall nd s cur1, InvI s ->
             attr_pump D test (iter_loop (attr_body D isel test) f) nd s cur1 = R o st' cur' ->
             InvI (a_in st') /\ cur' = cur1 /\ (o = None -> DeadA DeadI st')).
  { intros nd s cur1 Hs Ep. unfold attr_pump in Ep.
    destruct (attr_iter_run D test (dfuel D) nd) as [[[x|] nd']|]; [| |discriminate].
    - inversion Ep; subst. fin.
    - (refine (IH _ _ _ _ _ _ Ep); exact Hs). }
  unfold attr_body at 1 in E. destruct (a_it st) as [|nd].
  - destruct (isel (a_in st) cur) as [o1 s1 cur1|] eqn:Ei; [|discriminate].
    destruct (HG _ _ _ _ _ Hi Ei) as (Hi1 & -> & Hd). destruct o1 as [n|].
    + destruct (ntype_eqb (node_type D n) NTElem); [apply (Hpump _ _ _ Hi1 E)|(refine (IH _ _ _ _ _ _ E); exact Hi1)].
    + inversion E; subst. unfold DeadA. fin.
  - apply (Hpump _ _ _ Hi E).
Qed.

Lemma desc_goodI : forall self, GoodI (desc_select D isel self test F) (fun st => InvI (d_in st)) (DeadD DeadI).
Proof.
  intros self. unfold desc_select.
  induction F as [|f IH]; intros st cur o st' cur' Hi E; cbn [iter_loop] in E; [discriminate|].
  assert (Hpump : forall k nd first lv s cur1, InvI s ->
             desc_pump D self test (iter_loop (desc_body D isel self test) f) k nd first lv s cur1 = R o st' cur' ->
             InvI (d_in st') /\ cur' = cur1 /\ (o = None -> DeadD DeadI st')).
  { intros k nd first lv s cur1 Hs Ep. unfold desc_pump in Ep.
    destruct (desc_iter_run D self test nd first lv) as [[[[x|] nd'] lv']|]; [| |discriminate].
    - inversion Ep; subst. fin.
    - (refine (IH _ _ _ _ _ _ Ep); exact Hs). }
  unfold desc_body at 1 in E. destruct (d_it st) as [|nd first].
  - destruct (isel (d_in st) cur) as [o1 s1 cur1|] eqn:Ei; [|discriminate].
    destruct (HG _ _ _ _ _ Hi Ei) as (Hi1 & -> & Hd). destruct o1 as [n|].
    + apply (Hpump _ _ _ _ _ _ Hi1 E).
    + inversion E; subst. unfold DeadD. fin.
  - apply (Hpump _ _ _ _ _ _ Hi E).
Qed.

Lemma fol_goodI : forall sibling, GoodI (fol_select D isel sibling test F) (fun st => InvI (fo_in st)) (DeadFo DeadI).
Proof.
  intros sibling. unfold fol_select.
  induction F as [|f IH]; intros st cur o st' cur' Hi E; cbn [iter_loop] in E; [discriminate|].
  assert (Hsib : forall k nd s cur1, InvI s ->
             fol_sib_pump D test (iter_loop (fol_body D isel sibling test) f) k nd s cur1 = R o st' cur' ->
             InvI (fo_in st') /\ cur' = cur1 /\ (o = None -> DeadFo DeadI st')).
  { intros k nd s cur1 Hs Ep. unfold fol_sib_pump in Ep.
    destruct (sib_next_run D test (dfuel D) nd) as [[[x|] nd']|]; [| |discriminate].
    - inversion Ep; subst. fin.
    - (refine (IH _ _ _ _ _ _ Ep); exact Hs). }
  assert (Hdoc : forall k nd q s cur1, InvI s ->
             fol_doc_pump D test (iter_loop (fol_body D isel sibling test) f) k nd q s cur1 = R o st' cur' ->
             InvI (fo_in st') /\ cur' = cur1 /\ (o = None -> DeadFo DeadI st')).
  { intros k nd q s cur1 Hs Ep. unfold fol_doc_pump in Ep.
    destruct (fol_doc_run D test (fol_fuel D nd) nd q k) as [[[[[x|] nd'] q'] p']|]; [| |discriminate].
    - inversion Ep; subst. fin.
    - (refine (IH _ _ _ _ _ _ Ep); exact Hs). }
  unfold fol_body at 1 in E. destruct (fo_it st) as [|nd|nd q].
  - destruct (isel (fo_in st) cur) as [o1 s1 cur1|] eqn:Ei; [|discriminate].
    destruct (HG _ _ _ _ _ Hi Ei) as (Hi1 & -> & Hd). destruct o1 as [n|].
    + destruct sibling; [apply (Hsib _ _ _ _ Hi1 E)|].
      destruct (ntype_eqb (node_type D n) NTAttr); apply (Hdoc _ _ _ _ _ Hi1 E).
    + inversion E; subst. unfold DeadFo. fin.
  - apply (Hsib _ _ _ _ Hi E).
  - apply (Hdoc _ _ _ _ _ Hi E).
Qed.

Lemma pre_goodI : forall sibling, GoodI (pre_select D isel sibling test F) (fun st => InvI (pr_in st)) (DeadPr DeadI).
Proof.
  intros sibling. unfold pre_select.
  induction F as [|f IH]; intros st cur o st' cur' Hi E; cbn [iter_loop] in E; [discriminate|].
  assert (Hsib : forall k nd s cur1, InvI s ->
             pre_sib_pump test (iter_loop (pre_body D isel sibling test) f) k nd s cur1 = R o st' cur' ->
             InvI (pr_in st') /\ cur' = cur1 /\ (o = None -> DeadPr DeadI st')).
  { intros k nd s cur1 Hs Ep. unfold pre_sib_pump in Ep.
    destruct (sib_prev_run test (prev_fuel nd) nd) as [[[x|] nd']|]; [| |discriminate].
    - inversion Ep; subst. fin.
    - (refine (IH _ _ _ _ _ _ Ep); exact Hs). }
  assert (Hdoc : forall k nd q s cur1, InvI s ->
             pre_doc_pump D test (iter_loop (pre_body D isel sibling test) f) k nd q s cur1 = R o st' cur' ->
             InvI (pr_in st') /\ cur' = cur1 /\ (o = None -> DeadPr DeadI st')).
  { intros k nd q s cur1 Hs Ep. unfold pre_doc_pump in Ep.
    destruct (pre_doc_run D test (pre_fuel nd) nd q k) as [[[[[x|] nd'] q'] p']|]; [| |discriminate].
    - inversion Ep; subst. fin.
    - (refine (IH _ _ _ _ _ _ Ep); exact Hs). }
  unfold pre_body at 1 in E. destruct (pr_it st) as [|nd|nd q].
  - destruct (isel (pr_in st) cur) as [o1 s1 cur1|] eqn:Ei; [|discriminate].
    destruct (HG _ _ _ _ _ Hi Ei) as (Hi1 & -> & Hd). destruct o1 as [n|].
    + destruct sibling; [apply (Hsib _ _ _ _ Hi1 E)|apply (Hdoc _ _ _ _ _ Hi1 E)].
    + inversion E; subst. unfold DeadPr. fin.
  - apply (Hsib _ _ _ _ Hi E).
  - apply (Hdoc _ _ _ _ _ Hi E).
Qed.

Lemma anc_goodI : forall self, GoodI (anc_select hcode isel self test F) (fun st => InvI (n_in st)) (DeadN DeadI).
Proof.
  intros self. unfold anc_select.
  induction F as [|f IH]; intros st cur o st' cur' Hi E; cbn [iter_loop] in E; [discriminate|].
  assert (Hpump : forall nd first tbl s cur1, InvI s ->
             anc_pump hcode self test (iter_loop (anc_body hcode isel self test) f) nd first tbl s cur1
             = R o st' cur' -> InvI (n_in st') /\ cur' = cur1 /\ (o = None -> DeadN DeadI st')).
  { intros nd first tbl s cur1 Hs Ep. unfold anc_pump in Ep.
    destruct (anc_dedup hcode self test (S (climb_fuel nd)) nd first tbl) as [[[[x|] nd'] t']|]; [| |discriminate].
    - inversion Ep; subst. fin.
    - (refine (IH _ _ _ _ _ _ Ep); exact Hs). }
  unfold anc_body at 1 in E. destruct (n_it st) as [|nd first].
  - destruct (isel (n_in st) cur) as [o1 s1 cur1|] eqn:Ei; [|discriminate].
    destruct (HG _ _ _ _ _ Hi Ei) as (Hi1 & -> & Hd). destruct o1 as [n|].
    + apply (Hpump _ _ _ _ _ Hi1 E).
    + inversion E; subst. unfold DeadN. fin.
  - apply (Hpump _ _ _ _ _ Hi E).
Qed.

Lemma group_goodI : GoodI (group_select isel) (fun st => InvI (g_in st)) (DeadG DeadI).
Proof.
  intros st cur o st' cur' Hi E. unfold group_select in E.
  destruct (isel (g_in st) cur) as [o1 s1 cur1|] eqn:Ei; [|discriminate].
  destruct (HG _ _ _ _ _ Hi Ei) as (Hi1 & -> & Hd). destruct o1; inversion E; subst; unfold DeadG; fin.
Qed.

(** ** filterQuery with a predicate query: whatever the predicate does to the cursor, root is put back *)
Definition DeadF3 {P} (st : filter3_st St P) : Prop := DeadI (f3_in st).

Lemma filter3_goodI : forall {P} ipos ilvl (pev : P -> node -> eres P) (psel : P -> node -> res P),
  GoodI (filter3_select isel ipos ilvl pev psel F) (fun st => InvI (f3_in st)) DeadF3.
Proof.
  intros P ipos ilvl pev psel. unfold filter3_select.
  assert (H : forall f st cur o st' cur', InvI (f3_in st) ->
             iter_loop (filter3_body isel ipos ilvl pev psel) f st cur = R o st' cur' ->
             InvI (f3_in st') /\ cur' = cur /\ (o = None -> DeadF3 st')).
  { induction f as [|f IH]; intros st cur o st' cur' Hi E; cbn [iter_loop] in E; [discriminate|].
    unfold filter3_body at 1 in E. destruct (isel (f3_in st) cur) as [o1 s1 cur1|] eqn:Ei; [|discriminate].
    destruct (HG _ _ _ _ _ Hi Ei) as (Hi1 & -> & Hd). destruct o1 as [n|].
    - destruct (filter_do pev psel (ipos s1) (f3_pred st) n) as [ok ps' c'| |]; try discriminate.
      destruct ok; [inversion E; subst; fin|(refine (IH _ _ _ _ _ _ E); exact Hi1)].
    - inversion E; subst. unfold DeadF3. fin. }
  intros st cur o st' cur' Hi E. refine (H _ _ _ _ _ _ _ E). exact Hi.
Qed.

(** ** descendantOverDescendantQuery *)
Definition DeadDD (st : dod_st St) : Prop := dd_level st = 0 /\ DeadI (dd_in st).

Lemma dod_goodI : forall ms, GoodI (dod_select D isel ms test F) (fun st => InvI (dd_in st)) DeadDD.
Proof.
  intros ms. unfold dod_select.
  induction F as [|f IH]; intros st cur o st' cur' Hi E; cbn [iter_loop] in E; [discriminate|].
  assert (Hpump : forall k nd lv s cur1, InvI s ->
             dod_pump D test (iter_loop (dod_body D isel ms test) f) k nd lv s cur1 = R o st' cur' ->
             InvI (dd_in st') /\ cur' = cur1 /\ (o = None -> DeadDD st')).
  { intros k nd lv s cur1 Hs Ep. unfold dod_pump in Ep.
    destruct (dod_walk D test (S (dfuel D)) nd lv) as [[[[x|] nd'] l']|]; [| |discriminate].
    - inversion Ep; subst. fin.
    - (refine (IH _ _ _ _ _ _ Ep); exact Hs). }
  unfold dod_body at 1 in E. destruct (dd_level st) as [|l0].
  - destruct (isel (dd_in st) cur) as [o1 s1 cur1|] eqn:Ei; [|discriminate].
    destruct (HG _ _ _ _ _ Hi Ei) as (Hi1 & -> & Hd). destruct o1 as [n|].
    + destruct (andb ms (test n)); [inversion E; subst; fin|].
      destruct (move_child D n) as [n1|]; [|(refine (IH _ _ _ _ _ _ E); exact Hi1)].
      destruct (dod_descend D test (dfuel D) n1 1) as [[[[x|] nd2] l2]|]; [| |discriminate].
      * inversion E; subst. fin.
      * apply (Hpump _ _ _ _ _ Hi1 E).
    + inversion E; subst. unfold DeadDD. fin.
  - apply (Hpump _ _ _ _ _ Hi E).
Qed.

(** ** transformFunctionQuery (reverse).  Its closure's index never exceeds the length of its
    list; from a state violating that Go would panic (index out of range) where the model
    answers nil, so the invariant is needed here *)
Definition rev_wf (st : rev_st St) : Prop :=
  match rv_it st with LI_none => True | LI_iter lst i => i <= List.length lst end.
Definition DeadRv (st : rev_st St) : Prop := exists lst, rv_it st = LI_iter lst 0.

Lemma mcollect_inv : forall fuel s cur acc lst s' cur', InvI s ->
  mcollect isel fuel s cur acc = Some (lst, s', cur') -> InvI s' /\ cur' = cur.
Proof.
  induction fuel as [|k IH]; intros s cur acc lst s' cur' Hi E; [discriminate|].
  cbn [mcollect] in E. destruct (isel s cur) as [o s1 cur1|] eqn:Es; [|discriminate].
  destruct (HG _ _ _ _ _ Hi Es) as (Hi1 & -> & _). destruct o as [n|].
  - apply (IH _ _ _ _ _ _ Hi1 E).
  - inversion E; subst. auto.
Qed.

Lemma rev_goodI : GoodI (rev_select isel F) (fun st => rev_wf st /\ InvI (rv_in st)) DeadRv.
Proof.
  intros st cur o st' cur' [Hw Hi] E. unfold rev_select in E. unfold rev_wf in Hw.
  destruct (rv_it st) as [|lst i].
  - destruct (mcollect isel F (rv_in st) cur []) as [[[lst s1] c1]|] eqn:Em; [|discriminate].
    destruct (mcollect_inv _ _ _ _ _ _ _ Hi Em) as [Hi1 ->].
    destruct (List.length lst) as [|j] eqn:El; cbn [rev_next] in E; inversion E; subst;
      unfold rev_wf, DeadRv; cbn [rv_it rv_in]; repeat split; auto; try lia;
      try (intros Hn; first [apply nth_error_None in Hn; lia | eauto]).
  - destruct i as [|j]; cbn [rev_next] in E; inversion E; subst;
      unfold rev_wf, DeadRv; cbn [rv_it rv_in]; repeat split; auto; try lia;
      try (intros Hn; first [apply nth_error_None in Hn; lia | eauto]).
Qed.

(* ---- nil is final ---- *)
Hypothesis HS : Stable isel DeadI.
Hypothesis HF : 1 <= F.

Lemma filter3_stable : forall {P} ipos ilvl (pev : P -> node -> eres P) (psel : P -> node -> res P),
  Stable (filter3_select isel ipos ilvl pev psel F) DeadF3.
Proof.
  intros P ipos ilvl pev psel [k pm s ps] cur Hd. unfold DeadF3 in *. cbn [f3_in] in *.
  unfold filter3_select. destruct F as [|f]; [lia|]. cbn [iter_loop].
  unfold filter3_body at 1. cbn [f3_in f3_pm f3_posit f3_pred]. destruct (HS s cur Hd) as (s' & E & Hd'). rewrite E.
  eexists. split; [reflexivity|]. exact Hd'.
Qed.

Lemma dod_stable : forall ms, Stable (dod_select D isel ms test F) DeadDD.
Proof.
  intros ms [lv k nd s] cur [Hl Hd]. cbn [dd_level dd_in] in *. subst lv.
  unfold dod_select. destruct F as [|f]; [lia|]. cbn [iter_loop].
  unfold dod_body at 1. cbn [dd_level dd_in dd_posit dd_node]. destruct (HS s cur Hd) as (s' & E & Hd'). rewrite E.
  eexists. split; [reflexivity|]. split; [reflexivity|exact Hd'].
Qed.

Lemma rev_stable : Stable (rev_select isel F) DeadRv.
Proof.
  intros [it s] cur (lst & Hit). cbn [rv_it] in Hit. subst it. unfold rev_select. cbn [rv_it rv_in rev_next].
  eexists. split; [reflexivity|]. exists lst. reflexivity.
Qed.

End Iters.

Section Binary.
Context {L R' St C : Type}.
Variable hcode : node -> N.
Variable F : nat.

Lemma ucollect_inv : forall (rsel : R' -> node -> res R') InvR DeadR, GoodI rsel InvR DeadR ->
  forall fuel s cur m acc m' acc' s' cur', InvR s ->
    ucollect hcode rsel fuel s cur m acc = Some (m', acc', s', cur') -> InvR s' /\ cur' = cur.
Proof.
  intros rsel InvR DeadR HG. induction fuel as [|k IH]; intros s cur m acc m' acc' s' cur' Hi E; [discriminate|].
  cbn [ucollect] in E. destruct (rsel s cur) as [o s1 cur1|] eqn:Es; [|discriminate].
  destruct (HG _ _ _ _ _ Hi Es) as (Hi1 & -> & _). destruct o as [n|].
  - destruct (existsb (N.eqb (hcode n)) m); apply (IH _ _ _ _ _ _ _ _ Hi1 E).
  - inversion E; subst. auto.
Qed.

Lemma union_goodI : forall (lsel : L -> node -> res L) (rsel : R' -> node -> res R') InvR DeadR,
  GoodI rsel InvR DeadR -> GoodI (union_select hcode lsel rsel F) (fun st => InvR (u_r st)) DeadU.
Proof.
  intros lsel rsel InvR DeadR HG st cur o st' cur' Hi E. unfold union_select in E.
  assert (Hnext : forall lst i sl sr cur1, InvR sr ->
             (let '(o0, i') := list_next lst i in R o0 (mkUnion (LI_iter lst i') sl sr) cur1) = R o st' cur' ->
             InvR (u_r st') /\ cur' = cur1 /\ (o = None -> DeadU st')).
  { intros lst i sl sr cur1 Hr En. unfold list_next in En. destruct (nth_error lst i) as [x|] eqn:Ex;
      inversion En; subst; cbn [u_r]; repeat split; auto; try discriminate.
    intros _. exists lst, i. cbn [u_it]. auto. }
  destruct (u_it st) as [|lst i].
  - destruct (ucollect hcode lsel F (u_l st) cur [] []) as [[[[m1 l1] sl'] c1]|]; [|discriminate].
    destruct (ucollect hcode rsel F (u_r st) cur m1 l1) as [[[[m2 l2] sr'] c3]|] eqn:E2; [|discriminate].
    destruct (ucollect_inv rsel InvR DeadR HG _ _ _ _ _ _ _ _ _ Hi E2) as [Hr ->].
    apply (Hnext _ _ _ _ _ Hr E).
  - apply (Hnext _ _ _ _ _ Hi E).
Qed.

Lemma merge_goodI : forall (isel : St -> node -> res St) InvI DeadI (csel : C -> node -> res C) (ceval : C -> C),
  GoodI isel InvI DeadI ->
  GoodI (merge_select isel csel ceval F) (fun st => InvI (m_in st)) (DeadM DeadI).
Proof.
  intros isel InvI DeadI csel ceval HG. unfold merge_select. generalize F at 2. intros f.
  induction f as [|f IH]; intros st cur o st' cur' Hi E; cbn [iter_loop] in E; [discriminate|].
  assert (Hpump : forall lst i s ch cur1, InvI s ->
             merge_pump (iter_loop (merge_body isel csel ceval F) f) lst i s ch cur1 = R o st' cur' ->
             InvI (m_in st') /\ cur' = cur1 /\ (o = None -> DeadM DeadI st')).
  { intros lst i s ch cur1 Hs Ep. unfold merge_pump, list_next in Ep. destruct (nth_error lst i) as [x|].
    - inversion Ep; subst. repeat split; auto; discriminate.
    - refine (IH _ _ _ _ _ _ Ep). exact Hs. }
  unfold merge_body at 1, merge_body_gen in E. destruct (m_it st) as [|lst i].
  - destruct (isel (m_in st) cur) as [o1 s1 cur1|] eqn:Ei; [|discriminate].
    destruct (HG _ _ _ _ _ Hi Ei) as (Hi1 & -> & Hd). destruct o1 as [root|].
    + destruct (mcollect csel F (ceval (m_ch st)) root []) as [[[lst ch2] cur2]|]; [|discriminate].
      apply (Hpump _ _ _ _ _ Hi1 E).
    + inversion E; subst. unfold DeadM. repeat split; auto.
  - apply (Hpump _ _ _ _ _ Hi E).
Qed.

(** ** booleanQuery.Select: dead when its list is used up *)
Definition DeadB (st : bool_st L R') : Prop :=
  exists lst i, bo_it st = LI_iter lst i /\ nth_error lst i = None.

Lemma bool_nildead : forall (lsel : L -> node -> res L) (rsel : R' -> node -> res R') isor,
  NilDead (bool_select lsel rsel isor F) DeadB.
Proof.
  intros lsel rsel isor st cur st' cur' E. unfold bool_select in E.
  assert (Hnext : forall lst i sl sr cur1,
             (let '(o0, i') := list_next lst i in R o0 (mkBoolSt (LI_iter lst i') sl sr) cur1) = R None st' cur' ->
             DeadB st').
  { intros lst i sl sr cur1 En. unfold list_next in En. destruct (nth_error lst i) as [x|] eqn:Ex;
      inversion En; subst. exists lst, i. cbn [bo_it]. auto. }
  destruct (bo_it st) as [|lst i].
  - destruct (mcollect lsel F (bo_l st) cur []) as [[[la l'] c1]|]; [|discriminate].
    destruct (mcollect rsel F (bo_r st) cur []) as [[[lb r'] c3]|]; [|discriminate].
    apply (Hnext _ _ _ _ _ E).
  - apply (Hnext _ _ _ _ _ E).
Qed.

Lemma bool_stable : forall (lsel : L -> node -> res L) (rsel : R' -> node -> res R') isor,
  Stable (bool_select lsel rsel isor F) DeadB.
Proof.
  intros lsel rsel isor [it sl sr] cur (lst & i & Hit & Hn). cbn [bo_it] in Hit. subst it.
  unfold bool_select. cbn [bo_it bo_l bo_r]. unfold list_next. rewrite Hn.
  eexists. split; [reflexivity|]. exists lst, i. cbn [bo_it]. auto.
Qed.

(** ** logicalQuery.Select: dead when done *)
Definition DeadLg (st : logic_st L R') : Prop := lg_done st = true.

Lemma logical_nildead : forall D op (lev : L -> node -> eres L) (rev' : R' -> node -> eres R'),
  NilDead (logical_select D F op lev rev') DeadLg.
Proof.
  intros D op lev rev' st cur st' cur' E. unfold logical_select in E. destruct (lg_done st) eqn:Hd.
  - inversion E; subst. exact Hd.
  - destruct (logical_ev D F op lev rev' st cur) as [b st1 c1| |]; try discriminate.
    inversion E; subst. reflexivity.
Qed.

Lemma logical_stable : forall D op (lev : L -> node -> eres L) (rev' : R' -> node -> eres R'),
  Stable (logical_select D F op lev rev') DeadLg.
Proof.
  intros D op lev rev' st cur Hd. unfold DeadLg in Hd. unfold logical_select. rewrite Hd. eauto.
Qed.

End Binary.

(* ================================================================== *)
(** * 2. The whole query tree *)

(* typing of the node-set spine: inputs of node-set operators are node-set queries *)
Fixpoint wt3 (q : query) : bool :=
  match q with
  | QAncestor _ _ i | QAttribute _ i | QChild _ i | QCachedChild _ i | QDescendant _ _ i
  | QFollowing _ _ i | QPreceding _ _ i | QParent _ i | QSelf _ i | QReverse i | QDoD _ _ i
  | QFilter _ i _ | QMerge i _ => andb (is_ns i) (wt3 i)
  | QUnion _ r => andb (is_ns r) (wt3 r)
  | QGroup i => wt3 i
  | _ => true
  end.

Lemma m1_supported4_wt3 : forall q, m1_supported4 q = true -> wt3 q = true.
Proof.
  induction q; cbn [m1_supported4 wt3]; intros H; try discriminate; auto;
    repeat match goal with H : andb _ _ = true |- _ => apply andb_prop in H; destruct H end;
    repeat (apply andb_true_intro; split); auto.
Qed.

(* data-structure invariant of the states along the spine: the index of a reverse iterator is
   within its list (everything else may be junk) *)
Fixpoint Inv3 (q : query) : state3 q -> Prop :=
  match q return state3 q -> Prop with
  | QAncestor _ _ i => fun s => Inv3 i (n_in s)
  | QAttribute _ i => fun s => Inv3 i (a_in s)
  | QChild _ i | QCachedChild _ i => fun s => Inv3 i (c_in s)
  | QDescendant _ _ i => fun s => Inv3 i (d_in s)
  | QFollowing _ _ i => fun s => Inv3 i (fo_in s)
  | QPreceding _ _ i => fun s => Inv3 i (pr_in s)
  | QParent _ i | QSelf _ i => Inv3 i
  | QFilter _ i _ => fun s => Inv3 i (f3_in s)
  | QReverse i => fun s => rev_wf s /\ Inv3 i (rv_in s)
  | QGroup i => fun s => Inv3 i (g_in s)
  | QUnion _ r => fun s => Inv3 r (u_r s)
  | QDoD _ _ i => fun s => Inv3 i (dd_in s)
  | QMerge i _ => fun s => Inv3 i (m_in s)
  | _ => fun _ => True
  end.

Lemma Inv3_init : forall q, Inv3 q (init3 q).
Proof.
  induction q; cbn [Inv3 init3 n_in a_in c_in d_in fo_in pr_in f3_in rv_in g_in u_r dd_in m_in]; auto.
  split; [exact I|exact IHq].
Qed.

Lemma Inv3_reset : forall q s, Inv3 q s -> Inv3 q (reset3 q s).
Proof.
  induction q; intros st H; cbn [Inv3 reset3 n_in a_in c_in d_in fo_in pr_in f3_in rv_in g_in u_r dd_in m_in] in *; auto.
  destruct H as [_ H]. split; [exact I|auto].
Qed.

(* exhausted for good *)
Fixpoint Dead3 (q : query) : state3 q -> Prop :=
  match q return state3 q -> Prop with
  | QContext | QAbsolute => fun s => 0 < s
  | QAncestor _ _ i => DeadN (Dead3 i)
  | QAttribute _ i => DeadA (Dead3 i)
  | QChild _ i | QCachedChild _ i => DeadC (Dead3 i)
  | QDescendant _ _ i => DeadD (Dead3 i)
  | QFollowing _ _ i => DeadFo (Dead3 i)
  | QPreceding _ _ i => DeadPr (Dead3 i)
  | QParent _ i | QSelf _ i => Dead3 i
  | QFilter _ i _ => DeadF3 (Dead3 i)
  | QReverse i => DeadRv
  | QGroup i => DeadG (Dead3 i)
  | QUnion _ _ => DeadU
  | QDoD _ _ i => DeadDD (Dead3 i)
  | QMerge i _ => DeadM (Dead3 i)
  | QBoolean _ _ _ => DeadB
  | QLogical _ _ _ => DeadLg
  | _ => fun _ => True
  end.

Section Global3.
Variable D : tree.
Variable has_ns : bool.
Variable hc : node -> N.
Variable rm : string -> string -> option bool.
Variable rn : string -> nat.
Variable rr : string -> string -> string -> string.
Notation S3 := (sel3 D has_ns hc rm rn rr).
Notation E3 := (ev3 D has_ns hc rm rn rr).

(* one Select call from a well-formed state *)
Definition Prot (F : nat) (q : query) : Prop :=
  forall s cur o s' cur', Inv3 q s -> S3 F q s cur = R o s' cur' ->
    Inv3 q s' /\ (o = None -> Dead3 q s') /\ (is_ns q = true -> cur' = cur).

Lemma Prot_GoodI : forall F q, is_ns q = true -> Prot F q -> GoodI (S3 F q) (Inv3 q) (Dead3 q).
Proof.
  intros F q Hns H s cur o s' cur' Hi E. destruct (H _ _ _ _ _ Hi E) as (A & B & C). auto.
Qed.

Lemma GoodI_Prot : forall F q, GoodI (S3 F q) (Inv3 q) (Dead3 q) -> Prot F q.
Proof.
  intros F q H s cur o s' cur' Hi E. destruct (H _ _ _ _ _ Hi E) as (A & B & C). auto.
Qed.

Lemma nilconst_Prot : forall F q,
  (S3 F q = fun st cur => R None st cur) -> (Inv3 q = fun _ => True) -> (Dead3 q = fun _ => True) -> Prot F q.
Proof.
  intros F q Hs Hi Hd s cur o s' cur' _ E. rewrite Hs in E. inversion E; subst. rewrite Hi, Hd. auto.
Qed.

Theorem prot3 : forall F q, wt3 q = true -> Prot F q.
Proof.
  intros F. induction q; intros Hw; cbn [wt3] in Hw;
    try (apply andb_prop in Hw; destruct Hw as [Hns Hw]);
    try (apply nilconst_Prot; reflexivity).
  - (* context *) intros s cur o s' cur' _ E. change (S3 F QContext) with ctx_select in E. unfold ctx_select in E.
    destruct (Nat.ltb_spec 0 s); inversion E; subst; cbn [Inv3 Dead3 is_ns]; repeat split; auto; discriminate.
  - intros s cur o s' cur' _ E. change (S3 F QAbsolute) with abs_select in E. unfold abs_select in E.
    destruct (Nat.ltb_spec 0 s); inversion E; subst; cbn [Inv3 Dead3 is_ns]; repeat split; auto; discriminate.
  - apply GoodI_Prot. apply (anc_goodI hc (S3 F q) (Inv3 q) (Dead3 q) (Prot_GoodI F q Hns (IHq Hw))).
  - apply GoodI_Prot. apply (attr_goodI D (S3 F q) (Inv3 q) (Dead3 q) (Prot_GoodI F q Hns (IHq Hw))).
  - apply GoodI_Prot. apply (child_goodI D (S3 F q) (Inv3 q) (Dead3 q) (Prot_GoodI F q Hns (IHq Hw))).
  - apply GoodI_Prot. apply (child_goodI D (S3 F q) (Inv3 q) (Dead3 q) (Prot_GoodI F q Hns (IHq Hw))).
  - apply GoodI_Prot. apply (desc_goodI D (S3 F q) (Inv3 q) (Dead3 q) (Prot_GoodI F q Hns (IHq Hw))).
  - apply GoodI_Prot. apply (fol_goodI D (S3 F q) (Inv3 q) (Dead3 q) (Prot_GoodI F q Hns (IHq Hw))).
  - apply GoodI_Prot. apply (pre_goodI D (S3 F q) (Inv3 q) (Dead3 q) (Prot_GoodI F q Hns (IHq Hw))).
  - apply GoodI_Prot. apply (parent_goodI (S3 F q) (Inv3 q) (Dead3 q) (Prot_GoodI F q Hns (IHq Hw))).
  - apply GoodI_Prot. apply (self_goodI (S3 F q) (Inv3 q) (Dead3 q) (Prot_GoodI F q Hns (IHq Hw))).
  - apply GoodI_Prot.
    apply (filter3_goodI (S3 F q1) (Inv3 q1) (Dead3 q1) (Prot_GoodI F q1 Hns (IHq1 Hw))).
  - apply GoodI_Prot. apply (rev_goodI (S3 F q) (Inv3 q) (Dead3 q) (Prot_GoodI F q Hns (IHq Hw))).
  - (* group *)
    intros [k s] cur o s' cur' Hi E. change (S3 F (QGroup q)) with (group_select (S3 F q)) in E.
    unfold group_select in E. cbn [g_in g_posit Inv3] in *.
    destruct (S3 F q s cur) as [o1 s1 cur1|] eqn:Ei; [|discriminate].
    destruct (IHq Hw _ _ _ _ _ Hi Ei) as (A & B & C).
    destruct o1; inversion E; subst; cbn [Inv3 Dead3 is_ns g_in]; unfold DeadG; cbn [g_in];
      repeat split; auto; discriminate.
  - (* logical *)
    intros s cur o s' cur' _ E. split; [exact I|]. split; [|discriminate].
    intros ->. change (S3 F (QLogical op q1 q2)) with (logical_select D F op (E3 F q1) (E3 F q2)) in E.
    apply (logical_nildead F D op _ _ _ _ _ _ E).
  - (* boolean *)
    intros s cur o s' cur' _ E. split; [exact I|]. split; [|discriminate].
    intros ->. change (S3 F (QBoolean isor q1 q2)) with (bool_select (S3 F q1) (S3 F q2) isor F) in E.
    apply (bool_nildead F _ _ _ _ _ _ _ E).
  - apply GoodI_Prot.
    apply (union_goodI hc F (S3 F q1) (S3 F q2) (Inv3 q2) (Dead3 q2) (Prot_GoodI F q2 Hns (IHq2 Hw))).
  - apply GoodI_Prot. apply (dod_goodI D (S3 F q) (Inv3 q) (Dead3 q) (Prot_GoodI F q Hns (IHq Hw))).
  - apply GoodI_Prot.
    apply (merge_goodI F (S3 F q1) (Inv3 q1) (Dead3 q1) (S3 F q2) (reset3 q2) (Prot_GoodI F q1 Hns (IHq1 Hw))).
Qed.

Theorem stable3 : forall F q, 1 <= F -> Stable (S3 F q) (Dead3 q).
Proof.
  intros F q HF. induction q; cbn [Dead3];
    try (intros st0 cur0 _; exists st0; split; [reflexivity|exact I]).
  - intros s cur Hd. exists s. change (S3 F QContext) with ctx_select. unfold ctx_select.
    destruct (Nat.ltb_spec 0 s); [auto|lia].
  - intros s cur Hd. exists s. change (S3 F QAbsolute) with abs_select. unfold abs_select.
    destruct (Nat.ltb_spec 0 s); [auto|lia].
  - apply anc_stable; assumption.
  - apply attr_stable; assumption.
  - apply child_stable; assumption.
  - apply child_stable; assumption.
  - apply desc_stable; assumption.
  - apply fol_stable; assumption.
  - apply pre_stable; assumption.
  - apply parent_stable; assumption.
  - apply self_stable; assumption.
  - apply (filter3_stable (S3 F q1) (Dead3 q1) F IHq1 HF).
  - apply rev_stable.
  - apply group_stable; assumption.
  - apply logical_stable.
  - apply bool_stable.
  - apply union_stable.
  - apply (dod_stable D (S3 F q) (Dead3 q) _ F IHq HF).
  - apply merge_stable; assumption.
Qed.

End Global3.

(* ================================================================== *)
(** * 3. Statements about the drivers *)

Section Drivers.
Variable D : tree.
Variable has_ns : bool.
Variable hc : node -> N.
Variable rm : string -> string -> option bool.
Variable rn : string -> nat.
Variable rr : string -> string -> string -> string.
Notation SEL := (sel D has_ns hc rm rn rr).
Notation S3 := (sel3 D has_ns hc rm rn rr).
Notation SELECT := (select3 D has_ns hc rm rn rr).
Notation RUN := (run3 D has_ns hc rm rn rr).

(** ** one Select call, from any well-formed state *)
Theorem select3_protocol : forall F q (wt : wt3 q = true) s cur o st' cur',
  Inv3 q s -> SELECT F (existT _ q s) cur = R o st' cur' ->
  exists s', st' = existT _ q s' /\ Inv3 q s' /\ (is_ns q = true -> cur' = cur) /\ (o = None -> Dead3 q s').
Proof.
  intros F q wt s cur o st' cur' Hi E. unfold select3 in E. cbn [projT1 projT2] in E.
  destruct (S3 F q s cur) as [o1 s1 cur1|] eqn:Es; [|discriminate]. inversion E; subst.
  destruct (prot3 D has_ns hc rm rn rr F q wt _ _ _ _ _ Hi Es) as (A & B & C). eauto.
Qed.

(** ** t.Current() after a Select call of a node-set query is what it was before *)
Theorem context_preserved3 : forall F q (wt : wt3 q = true) (ns : is_ns q = true) s cur o st' cur',
  Inv3 q s -> SELECT F (existT _ q s) cur = R o st' cur' -> cur' = cur.
Proof.
  intros F q wt ns s cur o st' cur' Hi E.
  destruct (select3_protocol F q wt s cur o st' cur' Hi E) as (s' & _ & _ & C & _). auto.
Qed.

(** ** "MoveNext keeps returning false once it has returned false" *)
Lemma dead_select : forall F q, 1 <= F -> forall s cur, Dead3 q s ->
  exists s', SELECT F (existT _ q s) cur = R None (existT _ q s') cur /\ Dead3 q s'.
Proof.
  intros F q HF s cur Hd. destruct (stable3 D has_ns hc rm rn rr F q HF s cur Hd) as (s' & E & Hd').
  exists s'. unfold select3. cbn [projT1 projT2]. rewrite E. auto.
Qed.

Lemma dead_run : forall F q, 1 <= F -> forall n s cur, Dead3 q s -> 0 < n ->
  exists s', RUN F n (existT _ q s) cur = ([], E_nil, existT _ q s', cur) /\ Dead3 q s'.
Proof.
  intros F q HF n s cur Hd Hn. destruct n as [|n]; [lia|]. destruct (dead_select F q HF s cur Hd) as (s' & E & Hd').
  exists s'. cbn [run3]. rewrite E. auto.
Qed.

(* k further Select calls, each from an arbitrary t.Current(): all nil, t.Current() untouched *)
Fixpoint all_nil (F k : nat) (st : qstate3) : Prop :=
  match k with
  | 0 => True
  | S k' => forall cur, exists st', SELECT F st cur = R None st' cur /\ all_nil F k' st'
  end.

Lemma dead_all_nil : forall F q, 1 <= F -> forall k s, Dead3 q s -> all_nil F k (existT _ q s).
Proof.
  intros F q HF. induction k as [|k IH]; intros s Hd; [exact I|]. cbn [all_nil]. intros cur.
  destruct (dead_select F q HF s cur Hd) as (s' & E & Hd'). eexists. split; [exact E|]. apply IH. exact Hd'.
Qed.

(* a Select call that returned nil, from ANY well-formed state: nil for ever *)
Theorem nil_is_final3 : forall F q (wt : wt3 q = true) s cur st' cur',
  1 <= F -> Inv3 q s -> SELECT F (existT _ q s) cur = R None st' cur' -> forall k, all_nil F k st'.
Proof.
  intros F q wt s cur st' cur' HF Hi E k.
  destruct (select3_protocol F q wt s cur None st' cur' Hi E) as (s' & -> & _ & _ & Hd).
  apply dead_all_nil; [exact HF|]. apply Hd. reflexivity.
Qed.

(* a run (Select in a loop) that ended with nil, from ANY well-formed state: nil for ever after *)
Lemma run3_inv : forall F q (wt : wt3 q = true) n s cur l e st' cur',
  Inv3 q s -> RUN F n (existT _ q s) cur = (l, e, st', cur') ->
  exists s', st' = existT _ q s' /\ Inv3 q s' /\ (e = E_nil -> Dead3 q s') /\ (is_ns q = true -> cur' = cur).
Proof.
  intros F q wt. induction n as [|n IH]; intros s cur l e st' cur' Hi E; cbn [run3] in E.
  - inversion E; subst. exists s. repeat split; auto. discriminate.
  - destruct (SELECT F (existT _ q s) cur) as [o st1 cur1|] eqn:Es.
    + destruct (select3_protocol F q wt s cur o st1 cur1 Hi Es) as (s1 & -> & Hi1 & Hc & Hd).
      destruct o as [x|].
      * destruct (RUN F n (existT _ q s1) cur1) as [[[l1 e1] st2] cur2] eqn:Er.
        inversion E; subst. destruct (IH _ _ _ _ _ _ Hi1 Er) as (s' & -> & Hi' & Hd' & Hc').
        exists s'. repeat split; auto. intros Hns. rewrite (Hc' Hns). apply Hc. exact Hns.
      * inversion E; subst. exists s1. repeat split; auto.
    + inversion E; subst. exists s. repeat split; auto. discriminate.
Qed.

Theorem run_then_nil3 : forall F q (wt : wt3 q = true) n s cur l st' cur',
  1 <= F -> Inv3 q s -> RUN F n (existT _ q s) cur = (l, E_nil, st', cur') -> forall k, all_nil F k st'.
Proof.
  intros F q wt n s cur l st' cur' HF Hi E k.
  destruct (run3_inv F q wt n s cur l E_nil st' cur' Hi E) as (s' & -> & _ & Hd & _).
  apply dead_all_nil; [exact HF|]. apply Hd. reflexivity.
Qed.

(* and a run of a node-set query leaves t.Current() where it was *)
Theorem run3_context : forall F q (wt : wt3 q = true) (ns : is_ns q = true) n s cur l e st' cur',
  Inv3 q s -> RUN F n (existT _ q s) cur = (l, e, st', cur') -> cur' = cur.
Proof.
  intros F q wt ns n s cur l e st' cur' Hi E.
  destruct (run3_inv F q wt n s cur l e st' cur' Hi E) as (s' & _ & _ & _ & Hc). auto.
Qed.

(** ** "Current is positioned on the node just reported": the NodeIterator driver
    MoveNext:  n := t.query.Select(t); if n == nil { return false }
               if !t.node.MoveTo(n) { t.node = n.Copy() }; return true           *)
Definition move_next_it3 (F : nat) (st : qstate3) (cur : node) : res qstate3 :=
  match SELECT F st cur with
  | Stuck => Stuck
  | R None st' cur' => R None st' cur'
  | R (Some x) st' _ => R (Some x) st' x
  end.

(* for t.MoveNext() { ... t.Current() ... }: the items, and t.Current() after every step *)
Fixpoint run_iter3 (F n : nat) (st : qstate3) (cur : node) : list (item * node) * ending * qstate3 * node :=
  match n with
  | 0 => ([], E_more, st, cur)
  | S k =>
    match move_next_it3 F st cur with
    | Stuck => ([], E_stuck, st, cur)
    | R None st' cur' => ([], E_nil, st', cur')
    | R (Some x) st' cur' =>
      let '(l, e, st'', cur'') := run_iter3 F k st' cur' in
      ((mkItem x (position3 st') (depth3 st'), cur') :: l, e, st'', cur'')
    end
  end.

(* from ANY state: after a successful MoveNext, Current() is the node reported *)
Theorem move_next_positions : forall F st cur x st' cur',
  move_next_it3 F st cur = R (Some x) st' cur' -> cur' = x.
Proof.
  intros F st cur x st' cur' E. unfold move_next_it3 in E.
  destruct (SELECT F st cur) as [[y|] s1 c1|]; inversion E; reflexivity.
Qed.

Theorem run_iter3_positions : forall F n st cur l e st' cur',
  run_iter3 F n st cur = (l, e, st', cur') -> Forall (fun p => it_node (fst p) = snd p) l.
Proof.
  intros F. induction n as [|n IH]; intros st cur l e st' cur' E; cbn [run_iter3] in E.
  - inversion E. constructor.
  - destruct (move_next_it3 F st cur) as [[x|] s1 c1|] eqn:Em.
    + destruct (run_iter3 F n s1 c1) as [[[l1 e1] st2] cur2] eqn:Er. inversion E; subst.
      constructor; [cbn [fst snd it_node]; symmetry; apply (move_next_positions _ _ _ _ _ _ Em)|].
      eapply IH. exact Er.
    + inversion E. constructor.
    + inversion E. constructor.
Qed.

(* the NodeIterator driver reports what the Select loop reports (supported queries, fresh state):
   the list-level items, and Current() ends on the last node *)
Lemma run_iter3_Rep : forall q F c l b s n cur,
  Rep (S3 F q) (position_of3 q) (depth_of3 q) c b s l -> OK c b cur -> List.length l < n ->
  exists s', run_iter3 F n (existT _ q s) cur =
             (map (fun it => (it, it_node it)) l, E_nil, existT _ q s', last (map it_node l) cur).
Proof.
  intros q F c. induction l as [|it r IH]; intros b s n cur HR Hok Hn; (destruct n as [|n]; [cbn in Hn; lia|]).
  - destruct (Rep_nil_step _ _ _ _ _ _ _ HR Hok) as (s' & E & HR').
    exists s'. cbn [run_iter3]. unfold move_next_it3, select3. cbn [projT1 projT2]. rewrite E. reflexivity.
  - cbn [Rep] in HR. destruct (HR cur Hok) as (s1 & E & Hp & Hl & HR1).
    destruct (IH false s1 n (it_node it) HR1 (OK_false c _) ltac:(cbn in Hn; lia)) as (s' & Erun).
    exists s'. cbn [run_iter3]. unfold move_next_it3, select3. cbn [projT1 projT2]. rewrite E, Erun.
    unfold position3, depth3. cbn [projT1 projT2]. rewrite Hp, Hl.
    destruct it as [x p lv]. cbn [it_node map]. rewrite last_cons. reflexivity.
Qed.

Theorem run_iter3_items : forall q (wf : m1_supported4 q = true) c l,
  SEL q c = Val l ->
  exists F0, forall F n, F0 <= F -> List.length l < n ->
    exists st', run_iter3 F n (fresh3 q) c =
                (map (fun it => (it, it_node it)) l, E_nil, st', last (nodes_of l) c).
Proof.
  intros q wf c l E. destruct (m1_main4 D has_ns hc rm rn rr q wf) as [HS _].
  destruct (HS c l E) as [F0 H0]. exists F0. intros F n HF Hn.
  destruct (run_iter3_Rep q F c l true (init3 q) n c (H0 F HF (init3 q) (ResetOK3_init q)) (OK_c c true) Hn)
    as (s' & Er).
  exists (existT _ q s'). exact Er.
Qed.

End Drivers.

Print Assumptions prot3.
Print Assumptions stable3.
Print Assumptions select3_protocol.
Print Assumptions context_preserved3.
Print Assumptions nil_is_final3.
Print Assumptions run_then_nil3.
Print Assumptions run3_context.
Print Assumptions move_next_positions.
Print Assumptions run_iter3_positions.
Print Assumptions run_iter3_items.

(* ================================================================== *)
(** * 4. Examples *)
From XP Require Import Api.
Module P3Examples.
Import AxesSound.Examples.
Import IterRefine3.M3Examples.
Open Scope string_scope.

Definition RUNx := run3 exD false hc lit_match lit_numsubexp lit_replace_all 60.
Definition SELECTx := select3 exD false hc lit_match lit_numsubexp lit_replace_all 60.

(* //*[not(@z)][position() < 4], half consumed, then to the end, then again from other contexts *)
Definition qx := comp "//*[not(@z)][position() < 4]".
Definition st_half : qstate3 := snd (fst (RUNx 2 (fresh3 qx) root_node)).
Definition st_end : qstate3 := snd (fst (RUNx 10 st_half root_node)).
Example ex_protocol :
  wt3 qx = true /\
  map it_node (fst (fst (fst (RUNx 2 (fresh3 qx) root_node)))) = [n_a; n_b] /\
  fst (fst (RUNx 10 st_half root_node)) = ([mkItem n_e 3 0; mkItem n_d 4 0], E_nil) /\
  fst (fst (RUNx 5 st_end n_c)) = ([], E_nil) /\
  (match SELECTx st_end n_k with R None _ cur' => cur' = n_k | _ => False end).
Proof. vm_compute. repeat split; reflexivity. Qed.

(* the NodeIterator driver: Current() is on every node it reports *)
Example ex_iterator :
  map (fun p => (it_node (fst p), snd p))
      (fst (fst (fst (run_iter3 exD false hc lit_match lit_numsubexp lit_replace_all 60 10 (fresh3 qx) root_node))))
  = [(n_a, n_a); (n_b, n_b); (n_e, n_e); (n_d, n_d)].
Proof. vm_compute. reflexivity. Qed.

(* why rev_wf: a transformFunctionQuery state whose index is beyond its list (Go: index out of
   range panic; the model answers nil) is not dead after that nil *)
Definition qrev := QReverse (QChild any_t QContext).
Definition st_junk : qstate3 := existT _ qrev (mkRev (LI_iter [n_b; n_c] 3) (mkChild 0 CI_none 1)).
Example ex_reverse_junk :
  match SELECTx st_junk n_a with
  | R None st1 _ => match SELECTx st1 n_a with R (Some x) _ _ => x = n_c | _ => False end
  | _ => False
  end.
Proof. vm_compute. reflexivity. Qed.

End P3Examples.

(* ================================================================== *)
(** * Summary
   GoodI sel Inv Dead        from a well-formed state a Select call gives a well-formed state, leaves
                             t.Current() alone, and a nil result leaves a dead state
     proved for every Select iterator: self/parent/child/attr/desc/fol/pre/anc/group/filter3/dod/rev
     _goodI, union_goodI, merge_goodI;  bool_nildead, logical_nildead (their operands may be anything);
     Stable for the new ones: filter3_stable, dod_stable, rev_stable, bool_stable, logical_stable
   prot3 / stable3           the same for sel3 F q, every q with wt3 q = true (typing of the node-set
                             spine only: predicates, operands, function arguments are arbitrary --
                             lastFuncQuery included), every state with Inv3 q s
   select3_protocol, context_preserved3, nil_is_final3, run_then_nil3, run3_context
                             "once nil always nil, t.Current() untouched", for Select loops (run3) from
                             ANY well-formed state, half-consumed or not
   move_next_positions, run_iter3_positions, run_iter3_items
                             "Current is on the node just reported" for the NodeIterator driver
   Inv3 is True except for transformFunctionQuery: the index of its closure must be within its list
   (it always is in Go; a state violating it makes Go panic and the model answer nil once:
   ex_reverse_junk).  Inv3 holds for fresh and reset states (Inv3_init, Inv3_reset) and is
   preserved by Select (prot3).
   filterQuery restores t.Current() whatever its predicate does to it (filter3_goodI needs nothing
   of the predicate); unionQuery needs its RIGHT operand to leave it alone (union_goodI), mergeQuery
   nothing of its child. *)
