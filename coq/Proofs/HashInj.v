(* Proofs/HashInj.v — node identity.

   The Go engine identifies a node by a string key (getHashCode: type byte,
   length-prefixed prefix / local name / value, a "-1" marker for attributes,
   and the 1-based sibling positions from the node up to the root), hashed with
   FNV-64a.  This file proves

   1. strconv.Itoa on naturals ([itoa]) is injective, digits only, non-empty;
   2. length-prefixed strings ([lp]) are uniquely decodable;
   3. the position suffix ([path_suffix]) is injective on paths;
   4. the key ([hash_key]) is injective on the valid nodes of a document whose
      elements carry no two attributes with the same (prefix, local name)
      ([wf_attrs]); WITHOUT that hypothesis the statement is false
      ([hash_key_not_injective_dup_attrs]), because the key of an attribute
      does not contain the attribute's own index;
   5. [dedup_hash] returns a duplicate-free list, which — when the identity
      code is collision free on the input ([hash_ok]) — is the input with
      every later occurrence of a node removed;
   6. the union query returns every node of either operand exactly once. *)
From XP Require Import Base F64 Doc Ast Hash Eval.
Open Scope nat_scope.
Open Scope list_scope.
Open Scope string_scope.

(* ================================================================== *)
(** * 0. Strings *)

Lemma sapp_assoc : forall a b c : string, ((a ++ b) ++ c = a ++ (b ++ c))%string.
Proof.
  induction a as [|x a IH]; intros b c; cbn [String.append].
  - reflexivity.
  - now rewrite IH.
Qed.

Lemma sapp_nil_r : forall a : string, (a ++ "")%string = a.
Proof.
  induction a as [|x a IH]; cbn [String.append]; [reflexivity | now rewrite IH].
Qed.

Lemma sapp_length : forall a b : string,
  String.length (a ++ b) = String.length a + String.length b.
Proof.
  induction a as [|x a IH]; intros b; cbn [String.append String.length].
  - reflexivity.
  - now rewrite IH.
Qed.

Lemma sapp_inj_l : forall a x y : string, (a ++ x = a ++ y)%string -> x = y.
Proof.
  induction a as [|c a IH]; intros x y H; cbn [String.append] in H.
  - exact H.
  - injection H as H. now apply IH.
Qed.

(* equal lengths: the split point is determined *)
Lemma sapp_inj_len : forall a b x y : string,
  String.length a = String.length b -> (a ++ x = b ++ y)%string -> a = b /\ x = y.
Proof.
  induction a as [|c a IH]; intros [|d b] x y HL H; cbn [String.length] in HL;
    try discriminate.
  - cbn [String.append] in H. now split.
  - cbn [String.append] in H. injection H as Hc H.
    injection HL as HL. destruct (IH b x y HL H) as [-> ->]. now subst.
Qed.

Lemma sapp_inj_tail : forall (x y : string) (c d : ascii),
  (x ++ String c "" = y ++ String d "")%string -> x = y /\ c = d.
Proof.
  induction x as [|a x IH]; intros [|b y] c d H; cbn [String.append] in H.
  - injection H as H. now split.
  - injection H as _ H. destruct y; discriminate.
  - injection H as _ H. destruct x; discriminate.
  - injection H as Hab H. destruct (IH y c d H) as [-> ->]. now subst.
Qed.

Fixpoint str_forall (P : ascii -> bool) (s : string) : bool :=
  match s with
  | EmptyString => true
  | String c r => andb (P c) (str_forall P r)
  end.

Lemma str_forall_app : forall P a b,
  str_forall P (a ++ b) = andb (str_forall P a) (str_forall P b).
Proof.
  induction a as [|c a IH]; intros b; cbn [String.append str_forall].
  - reflexivity.
  - now rewrite IH, andb_assoc.
Qed.

(* ================================================================== *)
(** * 1. Decimal rendering *)

Lemma itoa_fuel_S : forall f n acc,
  itoa_fuel (S f) n acc =
  if Nat.ltb n 10 then String (digit_char (n mod 10)) acc
  else itoa_fuel f (n / 10) (String (digit_char (n mod 10)) acc).
Proof. reflexivity. Qed.

Lemma div10_lt : forall n, 10 <= n -> n / 10 < n.
Proof. intros n H. apply Nat.div_lt; lia. Qed.

(* any fuel above n gives the same result *)
Lemma itoa_fuel_irrel : forall f1 f2 n acc,
  n < f1 -> n < f2 -> itoa_fuel f1 n acc = itoa_fuel f2 n acc.
Proof.
  induction f1 as [|f1 IH]; intros f2 n acc H1 H2; [lia|].
  destruct f2 as [|f2]; [lia|].
  rewrite !itoa_fuel_S.
  destruct (Nat.ltb n 10) eqn:E; [reflexivity|].
  apply Nat.ltb_ge in E. pose proof (div10_lt n E) as Hd.
  apply IH; lia.
Qed.

Lemma itoa_fuel_acc : forall f n acc,
  itoa_fuel f n acc = (itoa_fuel f n "" ++ acc)%string.
Proof.
  induction f as [|f IH]; intros n acc.
  - reflexivity.
  - rewrite !itoa_fuel_S. destruct (Nat.ltb n 10).
    + reflexivity.
    + rewrite (IH (n / 10) (String _ acc)), (IH (n / 10) (String _ "")).
      rewrite sapp_assoc. reflexivity.
Qed.

(* the fuel of [itoa] suffices: with any fuel above n the result is [itoa n] *)
Lemma itoa_fuel_enough : forall f n acc,
  n < f -> itoa_fuel f n acc = (itoa n ++ acc)%string.
Proof.
  intros f n acc H. unfold itoa.
  rewrite itoa_fuel_acc. f_equal. apply itoa_fuel_irrel; lia.
Qed.

Lemma itoa_small : forall n, n < 10 -> itoa n = String (digit_char n) "".
Proof.
  intros n H. unfold itoa. rewrite itoa_fuel_S.
  apply Nat.ltb_lt in H as E. rewrite E. now rewrite Nat.mod_small.
Qed.

Lemma itoa_big : forall n, 10 <= n ->
  itoa n = (itoa (n / 10) ++ String (digit_char (n mod 10)) "")%string.
Proof.
  intros n H. unfold itoa at 1. rewrite itoa_fuel_S.
  apply Nat.ltb_ge in H as E. rewrite E.
  apply itoa_fuel_enough. now apply div10_lt.
Qed.

(* the characterisation asked for *)
Theorem itoa_unfold : forall n,
  itoa n = if Nat.ltb n 10 then String (digit_char n) ""
           else (itoa (n / 10) ++ String (digit_char (n mod 10)) "")%string.
Proof.
  intros n. destruct (Nat.ltb n 10) eqn:E.
  - apply itoa_small. now apply Nat.ltb_lt.
  - apply itoa_big. now apply Nat.ltb_ge.
Qed.

Lemma digit_char_is_digit : forall d, d < 10 -> is_digit_ascii (digit_char d) = true.
Proof.
  intros d H.
  do 10 (destruct d as [|d]; [reflexivity|]). lia.
Qed.

Lemma digit_char_inj : forall a b, a < 10 -> b < 10 -> digit_char a = digit_char b -> a = b.
Proof.
  intros a b Ha Hb H. unfold digit_char in H.
  apply (f_equal nat_of_ascii) in H.
  rewrite !nat_ascii_embedding in H by lia. lia.
Qed.

Theorem itoa_nonempty : forall n, itoa n <> "".
Proof.
  intros n. rewrite itoa_unfold. destruct (Nat.ltb n 10).
  - discriminate.
  - destruct (itoa (n / 10)); discriminate.
Qed.

Lemma itoa_length_pos : forall n, 1 <= String.length (itoa n).
Proof.
  intros n. pose proof (itoa_nonempty n) as H.
  destruct (itoa n); [congruence | cbn [String.length]; lia].
Qed.

Theorem itoa_digits : forall n, str_forall is_digit_ascii (itoa n) = true.
Proof.
  intros n. induction n as [n IH] using lt_wf_ind.
  rewrite itoa_unfold. destruct (Nat.ltb n 10) eqn:E.
  - apply Nat.ltb_lt in E. cbn [str_forall]. now rewrite digit_char_is_digit.
  - apply Nat.ltb_ge in E. rewrite str_forall_app, IH by now apply div10_lt.
    cbn [str_forall]. rewrite digit_char_is_digit; [reflexivity|].
    apply Nat.mod_upper_bound; lia.
Qed.

Lemma str_forall_In : forall P s c,
  str_forall P s = true -> In c (list_of_string s) -> P c = true.
Proof.
  intros P. induction s as [|x s IH]; intros c H Hc; cbn in Hc; [destruct Hc|].
  cbn [str_forall] in H. apply andb_true_iff in H as [H1 H2].
  destruct Hc as [<-|Hc]; [assumption | now apply IH].
Qed.

Corollary itoa_digits_In : forall n c, In c (list_of_string (itoa n)) -> is_digit_ascii c = true.
Proof. intros n c. apply str_forall_In, itoa_digits. Qed.

Theorem itoa_inj : forall a b, itoa a = itoa b -> a = b.
Proof.
  intros a. induction a as [a IH] using lt_wf_ind. intros b H.
  destruct (Nat.ltb a 10) eqn:Ea; destruct (Nat.ltb b 10) eqn:Eb.
  - apply Nat.ltb_lt in Ea, Eb. rewrite !itoa_small in H by assumption.
    injection H as H. now apply digit_char_inj.
  - apply Nat.ltb_lt in Ea. apply Nat.ltb_ge in Eb.
    rewrite (itoa_small a Ea), (itoa_big b Eb) in H.
    apply (f_equal String.length) in H. rewrite sapp_length in H.
    pose proof (itoa_length_pos (b / 10)). cbn [String.length] in H. lia.
  - apply Nat.ltb_ge in Ea. apply Nat.ltb_lt in Eb.
    rewrite (itoa_small b Eb), (itoa_big a Ea) in H.
    apply (f_equal String.length) in H. rewrite sapp_length in H.
    pose proof (itoa_length_pos (a / 10)). cbn [String.length] in H. lia.
  - apply Nat.ltb_ge in Ea, Eb.
    rewrite (itoa_big a Ea), (itoa_big b Eb) in H.
    apply sapp_inj_tail in H as [Hq Hr].
    apply IH in Hq; [|now apply div10_lt].
    apply digit_char_inj in Hr; try (apply Nat.mod_upper_bound; lia).
    rewrite (Nat.div_mod a 10), (Nat.div_mod b 10) by lia. now rewrite Hq, Hr.
Qed.

Print Assumptions itoa_inj.
Print Assumptions itoa_digits.

Example itoa_example : itoa 0 = "0" /\ itoa 7 = "7" /\ itoa 10 = "10" /\ itoa 4096 = "4096".
Proof. vm_compute. repeat split. Qed.

(* ================================================================== *)
(** * 2. A run of digits followed by a non-digit is uniquely decodable *)

Definition nodigit_head (s : string) : Prop :=
  match s with
  | EmptyString => True
  | String c _ => is_digit_ascii c = false
  end.

Lemma digits_split : forall d1 d2 x y,
  str_forall is_digit_ascii d1 = true -> str_forall is_digit_ascii d2 = true ->
  nodigit_head x -> nodigit_head y ->
  (d1 ++ x = d2 ++ y)%string -> d1 = d2 /\ x = y.
Proof.
  induction d1 as [|c d1 IH]; intros [|e d2] x y H1 H2 Hx Hy H;
    cbn [String.append str_forall] in *.
  - now split.
  - subst x. cbn [nodigit_head] in Hx. apply andb_true_iff in H2 as [H2 _]. congruence.
  - subst y. cbn [nodigit_head] in Hy. apply andb_true_iff in H1 as [H1 _]. congruence.
  - injection H as Hc H. apply andb_true_iff in H1 as [_ H1]. apply andb_true_iff in H2 as [_ H2].
    destruct (IH d2 x y H1 H2 Hx Hy H) as [-> ->]. now subst.
Qed.

Lemma itoa_split : forall a b x y,
  nodigit_head x -> nodigit_head y ->
  (itoa a ++ x = itoa b ++ y)%string -> a = b /\ x = y.
Proof.
  intros a b x y Hx Hy H.
  apply digits_split in H as [H1 H2]; try apply itoa_digits; try assumption.
  split; [now apply itoa_inj | assumption].
Qed.

Theorem lp_inj : forall a b x y, (lp a ++ x = lp b ++ y)%string -> a = b /\ x = y.
Proof.
  intros a b x y H. unfold lp in H. rewrite !sapp_assoc in H.
  apply itoa_split in H as [HL H]; [| reflexivity | reflexivity].
  cbn [String.append] in H. injection H as H.
  now apply sapp_inj_len.
Qed.

Corollary lp_injective : forall a b, lp a = lp b -> a = b.
Proof.
  intros a b H. apply (f_equal (fun s => s ++ "")%string) in H.
  now apply lp_inj in H as [H _].
Qed.

Print Assumptions lp_inj.

Example lp_example : lp "ab" = "2:ab" /\ (lp "1" ++ "2:x" <> lp "12" ++ ":x")%string.
Proof. vm_compute. split; [reflexivity | discriminate]. Qed.

(* ================================================================== *)
(** * 3. The position suffix *)

(* a sequence of "-d" entries *)
Fixpoint enc (l : list nat) : string :=
  match l with
  | [] => ""
  | a :: r => ("-" ++ itoa a ++ enc r)%string
  end.

Lemma enc_app : forall l1 l2, enc (l1 ++ l2)%list = (enc l1 ++ enc l2)%string.
Proof.
  induction l1 as [|a l1 IH]; intros l2; cbn [enc app String.append].
  - reflexivity.
  - now rewrite IH, sapp_assoc.
Qed.

Lemma enc_nodigit : forall l, nodigit_head (enc l).
Proof. intros [|a l]; cbn [enc String.append nodigit_head]; [exact I | reflexivity]. Qed.

Theorem enc_inj : forall l1 l2, enc l1 = enc l2 -> l1 = l2.
Proof.
  induction l1 as [|a l1 IH]; intros [|b l2] H; cbn [enc String.append] in H;
    try discriminate.
  - reflexivity.
  - injection H as H.
    apply itoa_split in H as [-> H]; try apply enc_nodigit.
    f_equal. now apply IH.
Qed.

Lemma index_suffix_enc : forall p, index_suffix p = enc (rev (map S p)).
Proof.
  induction p as [|i q IH]; cbn [index_suffix map rev].
  - reflexivity.
  - rewrite enc_app, IH. cbn [enc]. now rewrite sapp_nil_r.
Qed.

Lemma path_suffix_enc : forall p, path_suffix p = enc (rev (map S p) ++ [1])%list.
Proof.
  intros p. unfold path_suffix. rewrite enc_app, index_suffix_enc. reflexivity.
Qed.

Lemma map_S_inj : forall p q : list nat, map S p = map S q -> p = q.
Proof.
  induction p as [|a p IH]; intros [|b q] H; cbn [map] in H; try discriminate.
  - reflexivity.
  - injection H as -> H. f_equal. now apply IH.
Qed.

Theorem path_suffix_inj : forall p q, path_suffix p = path_suffix q -> p = q.
Proof.
  intros p q H. rewrite !path_suffix_enc in H. apply enc_inj in H.
  apply app_inj_tail in H as [H _].
  apply (f_equal (@rev nat)) in H. rewrite !rev_involutive in H.
  now apply map_S_inj.
Qed.

Theorem index_suffix_inj : forall p q, index_suffix p = index_suffix q -> p = q.
Proof.
  intros p q H. apply path_suffix_inj. unfold path_suffix. now rewrite H.
Qed.

Print Assumptions path_suffix_inj.

Example path_suffix_example : path_suffix [0; 2; 11] = "-12-3-1-1".
Proof. vm_compute. reflexivity. Qed.

(* ================================================================== *)
(** * 4. The identity key *)

(* ---- 4.0 the key of an attribute does not mention the attribute's index:
        two attributes of one element with the same prefix, local name and
        value have the same key (and therefore the same hash code). ---- *)
Definition dup_doc : tree :=
  T KRoot "" "" "" "" []
    [T KElem "" "a" "" "" [mkAttr "" "x" "" "1"; mkAttr "" "x" "" "1"] []].

Example hash_key_not_injective_dup_attrs :
  let n1 := mkNode [0] (Some 0) in
  let n2 := mkNode [0] (Some 1) in
  valid dup_doc n1 = true /\ valid dup_doc n2 = true /\
  node_type dup_doc n1 <> NTRoot /\ node_type dup_doc n2 <> NTRoot /\
  hash_key dup_doc n1 = hash_key dup_doc n2 /\
  hash_code dup_doc n1 = hash_code dup_doc n2 /\
  n1 <> n2.
Proof. vm_compute. repeat split; discriminate. Qed.

(* ---- 4.1 well-formedness ---- *)

(* no two attributes of the list have the same (prefix, local name) *)
Fixpoint attr_names_nodup (l : list attr) : bool :=
  match l with
  | [] => true
  | a :: r =>
    andb (negb (existsb (fun b => andb (String.eqb (a_prefix a) (a_prefix b))
                                       (String.eqb (a_local a) (a_local b))) r))
         (attr_names_nodup r)
  end.

(* a predicate holds at every node of a tree *)
Fixpoint all_trees (P : tree -> bool) (t : tree) : bool :=
  andb (P t)
       (match t with
        | T _ _ _ _ _ _ ks =>
          (fix go (l : list tree) : bool :=
             match l with [] => true | c :: r => andb (all_trees P c) (go r) end) ks
        end).

(* XML well-formedness constraint "unique attribute names", on every element *)
Definition wf_attrs (D : tree) : bool := all_trees (fun t => attr_names_nodup (t_attrs t)) D.

(* the root kind occurs at the top only *)
Definition kind_is_root (k : kind) : bool := match k with KRoot => true | _ => false end.
Definition no_inner_root (D : tree) : bool :=
  forallb (all_trees (fun t => negb (kind_is_root (t_kind t)))) (t_kids D).

Lemma all_trees_here : forall P t, all_trees P t = true -> P t = true.
Proof. intros P [k p l n d a ks] H. cbn [all_trees] in H. now apply andb_true_iff in H as [H _]. Qed.

Lemma all_trees_kid : forall P t i c,
  all_trees P t = true -> nth_error (t_kids t) i = Some c -> all_trees P c = true.
Proof.
  intros P [k p l n d a ks] i c H. cbn [all_trees t_kids] in *.
  apply andb_true_iff in H as [_ H]. revert i H.
  induction ks as [|x ks IH]; intros [|i] H Hn; cbn [nth_error] in Hn; try discriminate;
    apply andb_true_iff in H as [H1 H2].
  - now injection Hn as <-.
  - now apply (IH i).
Qed.

Lemma all_trees_subtree : forall P p t s,
  all_trees P t = true -> subtree t p = Some s -> all_trees P s = true.
Proof.
  induction p as [|i q IH]; intros t s H Hs; cbn [subtree] in Hs.
  - now injection Hs as <-.
  - destruct (nth_error (t_kids t) i) as [c|] eqn:E; [|discriminate].
    apply (IH c); [|assumption]. now apply (all_trees_kid P t i).
Qed.

Lemma attr_names_nodup_spec : forall l i j a b,
  attr_names_nodup l = true ->
  nth_error l i = Some a -> nth_error l j = Some b ->
  a_prefix a = a_prefix b -> a_local a = a_local b -> i = j.
Proof.
  induction l as [|x l IH]; intros i j a b H Hi Hj Hp Hl.
  - destruct i; discriminate.
  - cbn [attr_names_nodup] in H. apply andb_true_iff in H as [Hx H].
    apply negb_true_iff in Hx.
    assert (Hno : forall k y, nth_error l k = Some y ->
                   a_prefix x = a_prefix y -> a_local x = a_local y -> False).
    { intros k y Hk E1 E2.
      assert (Hex : existsb (fun b0 => andb (String.eqb (a_prefix x) (a_prefix b0))
                                            (String.eqb (a_local x) (a_local b0))) l = true).
      { apply existsb_exists. exists y. split; [now apply nth_error_In in Hk|].
        rewrite E1, E2, !String.eqb_refl. reflexivity. }
      congruence. }
    destruct i as [|i], j as [|j]; cbn [nth_error] in Hi, Hj.
    + reflexivity.
    + injection Hi as <-. exfalso. now apply (Hno j b).
    + injection Hj as <-. exfalso. now apply (Hno i a).
    + f_equal. now apply (IH i j a b).
Qed.

(* the Prop reading of [wf_attrs] *)
Lemma wf_attrs_spec : forall D p s i j a b,
  wf_attrs D = true -> subtree D p = Some s ->
  nth_error (t_attrs s) i = Some a -> nth_error (t_attrs s) j = Some b ->
  a_prefix a = a_prefix b -> a_local a = a_local b -> i = j.
Proof.
  intros D p s i j a b H Hs. unfold wf_attrs in H.
  apply (all_trees_subtree _ p D s H) in Hs. apply all_trees_here in Hs.
  now apply attr_names_nodup_spec.
Qed.

(* ---- 4.2 shape of the key ---- *)

Lemma kind_ntype_not_attr : forall k, kind_ntype k <> NTAttr.
Proof. intros []; discriminate. Qed.
Lemma kind_ntype_not_all : forall k, kind_ntype k <> NTAll.
Proof. intros []; discriminate. Qed.

Lemma node_type_not_all : forall D n, node_type D n <> NTAll.
Proof.
  intros D n. unfold node_type. destruct (nattr n); [discriminate|].
  destruct (node_tree D n); [apply kind_ntype_not_all | discriminate].
Qed.

Lemma node_type_attr_iff : forall D n, node_type D n = NTAttr <-> nattr n <> None.
Proof.
  intros D n. unfold node_type. destruct (nattr n) as [i|].
  - split; [discriminate | reflexivity].
  - split; [|congruence]. intros H. exfalso.
    destruct (node_tree D n); [now apply kind_ntype_not_attr in H | discriminate].
Qed.

Lemma type_byte_inj : forall t1 t2, type_byte t1 = type_byte t2 -> t1 = t2.
Proof. intros [] []; intros H; try reflexivity; vm_compute in H; discriminate. Qed.

(* the part of the key after the type byte *)
Definition key_body (D : tree) (t : ntype) (n : node) : string :=
  (lp (node_prefix D n) ++ lp (local_name D n)
   ++ (match t with NTElem => "" | _ => lp (node_value D n) end)
   ++ (match nattr n with Some _ => "-1" | None => "" end)
   ++ path_suffix (npath n))%string.

Lemma hash_key_shape : forall D n,
  node_type D n <> NTRoot ->
  hash_key D n = String (type_byte (node_type D n)) (key_body D (node_type D n) n).
Proof.
  intros D n H. pose proof (node_type_not_all D n) as HA.
  unfold hash_key, key_body.
  destruct (node_type D n); try congruence;
    cbn [String.append]; now rewrite !sapp_assoc.
Qed.

Lemma hash_key_root : forall D n, node_type D n = NTRoot -> hash_key D n = "".
Proof. intros D n H. unfold hash_key. now rewrite H. Qed.

(* the root's key is empty and every other key is not *)
Theorem hash_key_empty_iff : forall D n, hash_key D n = "" <-> node_type D n = NTRoot.
Proof.
  intros D n. split; [|apply hash_key_root].
  intros H. destruct (ntype_eqb (node_type D n) NTRoot) eqn:E.
  - destruct (node_type D n); try discriminate; reflexivity.
  - rewrite hash_key_shape in H; [discriminate|]. intros E'. rewrite E' in E. discriminate.
Qed.

(* ---- 4.3 what equal keys say, with no hypothesis on the document ---- *)
Theorem hash_key_eq_inv : forall D n1 n2,
  node_type D n1 <> NTRoot -> node_type D n2 <> NTRoot ->
  hash_key D n1 = hash_key D n2 ->
  node_type D n1 = node_type D n2 /\
  npath n1 = npath n2 /\
  node_prefix D n1 = node_prefix D n2 /\
  local_name D n1 = local_name D n2 /\
  (node_type D n1 <> NTElem -> node_value D n1 = node_value D n2) /\
  (nattr n1 = None <-> nattr n2 = None).
Proof.
  intros D n1 n2 R1 R2 H.
  rewrite (hash_key_shape D n1 R1), (hash_key_shape D n2 R2) in H.
  injection H as Ht H. apply type_byte_inj in Ht.
  assert (HA : nattr n1 = None <-> nattr n2 = None).
  { pose proof (node_type_attr_iff D n1) as A1. pose proof (node_type_attr_iff D n2) as A2.
    rewrite Ht in A1.
    destruct (nattr n1) as [i1|], (nattr n2) as [i2|]; split; intros E; try congruence.
    - exfalso. assert (X : node_type D n2 = NTAttr) by (apply A1; discriminate).
      apply A2 in X. congruence.
    - exfalso. assert (X : node_type D n2 = NTAttr) by (apply A2; discriminate).
      apply A1 in X. congruence. }
  rewrite <- Ht in H. unfold key_body in H.
  apply lp_inj in H as [Hp H]. apply lp_inj in H as [Hl H].
  assert (Hrest : ((match nattr n1 with Some _ => "-1" | None => "" end) ++ path_suffix (npath n1)
                   = (match nattr n2 with Some _ => "-1" | None => "" end) ++ path_suffix (npath n2))%string
                  /\ (node_type D n1 <> NTElem -> node_value D n1 = node_value D n2)).
  { destruct (node_type D n1); try (apply lp_inj in H as [Hv H]; now split).
    cbn [String.append] in H. split; [assumption | congruence]. }
  destruct Hrest as [Hs Hv].
  assert (Hpath : npath n1 = npath n2).
  { destruct (nattr n1) as [i1|], (nattr n2) as [i2|].
    - apply sapp_inj_l in Hs. now apply path_suffix_inj.
    - exfalso. destruct HA as [_ HA]. specialize (HA eq_refl). discriminate.
    - exfalso. destruct HA as [HA _]. specialize (HA eq_refl). discriminate.
    - cbn [String.append] in Hs. now apply path_suffix_inj. }
  repeat split; try assumption; apply HA.
Qed.

(* ---- 4.4 key injectivity ---- *)

(* nodes that are not attributes: no hypothesis on the document at all *)
Theorem hash_key_injective_nonattr : forall D n1 n2,
  node_type D n1 <> NTRoot -> node_type D n2 <> NTRoot ->
  nattr n1 = None ->
  hash_key D n1 = hash_key D n2 -> n1 = n2.
Proof.
  intros D n1 n2 R1 R2 HN H.
  destruct (hash_key_eq_inv D n1 n2 R1 R2 H) as (_ & Hp & _ & _ & _ & HA).
  apply HA in HN as HN2.
  destruct n1 as [p1 a1], n2 as [p2 a2]; cbn [npath nattr] in *. now subst.
Qed.

(* MAIN THEOREM.  [wf_attrs D] (no element has two attributes with the same
   prefix and local name — guaranteed by XML) cannot be dropped: see
   [hash_key_not_injective_dup_attrs]. *)
Theorem hash_key_injective : forall D n1 n2,
  wf_attrs D = true ->
  valid D n1 = true -> valid D n2 = true ->
  node_type D n1 <> NTRoot -> node_type D n2 <> NTRoot ->
  hash_key D n1 = hash_key D n2 -> n1 = n2.
Proof.
  intros D n1 n2 WF V1 V2 R1 R2 H.
  destruct (nattr n1) as [i1|] eqn:E1; [|now apply (hash_key_injective_nonattr D)].
  destruct (hash_key_eq_inv D n1 n2 R1 R2 H) as (_ & Hp & Hpre & Hloc & _ & HA).
  destruct n1 as [p1 a1], n2 as [p2 a2]; cbn [npath nattr] in *. subst a1 p2.
  destruct a2 as [i2|]; [|exfalso; destruct HA as [_ HA]; specialize (HA eq_refl); discriminate].
  unfold valid in V1, V2. cbn [npath nattr] in V1, V2.
  destruct (subtree D p1) as [s|] eqn:Es; [|discriminate].
  apply Nat.ltb_lt in V1, V2.
  unfold node_prefix, local_name, node_attr, node_tree in Hpre, Hloc.
  cbn [npath nattr] in Hpre, Hloc. rewrite Es in Hpre, Hloc.
  destruct (nth_error (t_attrs s) i1) as [x1|] eqn:X1;
    [|apply nth_error_None in X1; lia].
  destruct (nth_error (t_attrs s) i2) as [x2|] eqn:X2;
    [|apply nth_error_None in X2; lia].
  f_equal. f_equal. exact (wf_attrs_spec D p1 s i1 i2 x1 x2 WF Es X1 X2 Hpre Hloc).
Qed.

Print Assumptions hash_key_injective.

(* ---- 4.5 including the root: if the root kind occurs at the top only, the
        only node of type NTRoot is the root node, whose key is "" ---- *)
Lemma only_root_is_root : forall D n,
  no_inner_root D = true -> valid D n = true -> node_type D n = NTRoot -> n = root_node.
Proof.
  intros D [p a] NR V Ht. unfold node_type, node_tree in Ht. unfold valid in V.
  cbn [npath nattr] in *. destruct a as [i|]; [discriminate|].
  destruct p as [|i q]; [reflexivity|]. exfalso.
  cbn [subtree] in *. destruct (nth_error (t_kids D) i) as [c|] eqn:Ec; [|discriminate].
  destruct (subtree c q) as [s|] eqn:Es; [|discriminate].
  unfold no_inner_root in NR. rewrite forallb_forall in NR.
  specialize (NR c (nth_error_In _ _ Ec)).
  apply (all_trees_subtree _ q c s NR) in Es. apply all_trees_here in Es.
  destruct (t_kind s); try discriminate.
Qed.

Theorem hash_key_injective_all : forall D n1 n2,
  wf_attrs D = true -> no_inner_root D = true ->
  valid D n1 = true -> valid D n2 = true ->
  hash_key D n1 = hash_key D n2 -> n1 = n2.
Proof.
  intros D n1 n2 WF NR V1 V2 H.
  destruct (ntype_eqb (node_type D n1) NTRoot) eqn:T1.
  - assert (E1 : node_type D n1 = NTRoot) by (destruct (node_type D n1); try discriminate; reflexivity).
    assert (E2 : node_type D n2 = NTRoot).
    { apply hash_key_empty_iff. rewrite <- H. now apply hash_key_empty_iff. }
    rewrite (only_root_is_root D n1 NR V1 E1). now rewrite (only_root_is_root D n2 NR V2 E2).
  - assert (R1 : node_type D n1 <> NTRoot) by (intros E; rewrite E in T1; discriminate).
    assert (R2 : node_type D n2 <> NTRoot).
    { intros E. apply R1. apply hash_key_empty_iff. rewrite H. now apply hash_key_empty_iff. }
    now apply (hash_key_injective D).
Qed.

Print Assumptions hash_key_injective_all.

(* the hypotheses are satisfiable on a non-trivial document *)
Definition sample_doc : tree :=
  T KRoot "" "" "" "" []
    [T KElem "" "a" "" "" [mkAttr "" "x" "" "1"; mkAttr "p" "x" "urn:p" "1"; mkAttr "" "y" "" "1"]
       [T KText "" "" "" "t" [] [];
        T KElem "p" "b" "urn:p" "" [mkAttr "" "x" "" "1"] [T KText "" "" "" "t" [] []];
        T KText "" "" "" "t" [] [];
        T KComment "" "" "" "t" [] []];
     T KComment "" "" "" "t" [] []].

Example hash_key_injective_example :
  wf_attrs sample_doc = true /\ no_inner_root sample_doc = true /\
  forallb (valid sample_doc) (all_nodes sample_doc) = true /\
  List.length (all_nodes sample_doc) = 12 /\
  (* two text nodes with the same value, told apart by their position *)
  hash_key sample_doc (mkNode [0; 0] None) = "d0:0:1:t-1-1-1" /\
  hash_key sample_doc (mkNode [0; 2] None) = "d0:0:1:t-3-1-1" /\
  (* an attribute: marker "-1", then the position of its element *)
  hash_key sample_doc (mkNode [0; 1] (Some 0)) = "c0:1:x1:1-1-2-1-1" /\
  hash_key sample_doc (mkNode [0] (Some 1)) = "c1:p1:x1:1-1-1-1" /\
  hash_key sample_doc root_node = "".
Proof. vm_compute. repeat split. Qed.

(* all the keys of the sample document are pairwise different *)
Example hash_key_injective_sample_nodup :
  NoDup (map (hash_key sample_doc) (all_nodes sample_doc)).
Proof.
  vm_compute. repeat (constructor; [cbn [In]; intuition discriminate|]). constructor.
Qed.

(* ================================================================== *)
(** * 5. De-duplication by identity code *)

Close Scope string_scope.

Theorem node_eqb_eq : forall a b, node_eqb a b = true <-> a = b.
Proof.
  intros [p1 a1] [p2 a2]. unfold node_eqb. cbn [npath nattr]. split.
  - intros H. apply andb_true_iff in H as [Hp Ha].
    destruct (list_eq_dec Nat.eq_dec p1 p2) as [->|]; [|discriminate].
    destruct a1 as [i|], a2 as [j|]; try discriminate; [|reflexivity].
    apply Nat.eqb_eq in Ha. now subst.
  - intros H. injection H as -> ->.
    destruct (list_eq_dec Nat.eq_dec p2 p2) as [_|N]; [|congruence].
    destruct a2 as [j|]; [apply Nat.eqb_refl | reflexivity].
Qed.

Lemma node_eqb_refl : forall a, node_eqb a a = true.
Proof. intros a. now apply node_eqb_eq. Qed.

Lemma node_eqb_neq : forall a b, node_eqb a b = false <-> a <> b.
Proof.
  intros a b. split.
  - intros H E. apply node_eqb_eq in E. congruence.
  - intros H. destruct (node_eqb a b) eqn:E; [|reflexivity]. apply node_eqb_eq in E. contradiction.
Qed.

Lemma node_eqb_sym : forall a b, node_eqb a b = node_eqb b a.
Proof.
  intros a b. destruct (node_eqb a b) eqn:E.
  - apply node_eqb_eq in E. subst. symmetry. apply node_eqb_refl.
  - symmetry. apply node_eqb_neq. apply node_eqb_neq in E. congruence.
Qed.

(* the identity code has no collision among the nodes of l *)
Definition hash_ok (hc : node -> N) (l : list node) : Prop :=
  forall a b, In a l -> In b l -> hc a = hc b -> a = b.

Lemma hash_ok_incl : forall hc l l',
  (forall x, In x l' -> In x l) -> hash_ok hc l -> hash_ok hc l'.
Proof. intros hc l l' Hi OK a b Ha Hb. apply OK; now apply Hi. Qed.

Lemma mem_N_In : forall h seen, existsb (N.eqb h) seen = true <-> In h seen.
Proof.
  intros h seen. rewrite existsb_exists. split.
  - intros (x & Hx & E). apply N.eqb_eq in E. now subst.
  - intros H. exists h. split; [assumption | apply N.eqb_refl].
Qed.

Section Dedup.
Variable hc : node -> N.

(* invariant of [dedup_hash] for an arbitrary initial table *)
Lemma dedup_hash_inv : forall l seen r s',
  dedup_hash hc seen l = (r, s') ->
  (forall x, In x r -> In x l /\ ~ In (hc x) seen) /\
  NoDup (map hc r) /\
  (forall x, In x l -> In (hc x) seen \/ In (hc x) (map hc r)) /\
  (forall h, In h s' <-> In h seen \/ In h (map hc r)).
Proof.
  induction l as [|n l IH]; intros seen r s' H; cbn [dedup_hash] in H.
  - injection H as <- <-. cbn [map In].
    split; [|split; [|split]].
    + intros x [].
    + constructor.
    + intros x [].
    + intros h. tauto.
  - destruct (existsb (N.eqb (hc n)) seen) eqn:E.
    + apply mem_N_In in E.
      destruct (IH seen r s' H) as (I1 & I2 & I3 & I4).
      split; [|split; [|split]].
      * intros x Hx. apply I1 in Hx as [Hx1 Hx2]. split; [now right | assumption].
      * assumption.
      * intros x [<-|Hx]; [now left | now apply I3].
      * assumption.
    + assert (Hn : ~ In (hc n) seen).
      { intros X. apply mem_N_In in X. congruence. }
      destruct (dedup_hash hc (hc n :: seen) l) as [r' s''] eqn:Er.
      injection H as <- <-.
      destruct (IH (hc n :: seen) r' s'' Er) as (I1 & I2 & I3 & I4).
      cbn [map].
      split; [|split; [|split]].
      * intros x [<-|Hx].
        -- split; [now left | assumption].
        -- apply I1 in Hx as [Hx1 Hx2]. split; [now right|].
           intros X. apply Hx2. now right.
      * constructor; [|assumption].
        intros X. apply in_map_iff in X as (y & Ey & Hy).
        apply I1 in Hy as [_ Hy]. apply Hy. now left.
      * intros x [<-|Hx]; [right; now left|].
        apply I3 in Hx. destruct Hx as [[E'|Hx]|Hx].
        -- right. left. exact E'.
        -- now left.
        -- right. now right.
      * intros h. rewrite I4. cbn [In]. tauto.
Qed.

Theorem dedup_hash_NoDup_codes : forall seen l, NoDup (map hc (fst (dedup_hash hc seen l))).
Proof.
  intros seen l. destruct (dedup_hash hc seen l) as [r s'] eqn:E.
  now destruct (dedup_hash_inv l seen r s' E) as (_ & H & _).
Qed.

(* no node is returned twice — whatever the code function is *)
Theorem dedup_hash_NoDup : forall seen l, NoDup (fst (dedup_hash hc seen l)).
Proof. intros seen l. apply (NoDup_map_inv hc). apply dedup_hash_NoDup_codes. Qed.

Theorem dedup_hash_sound : forall seen l x, In x (fst (dedup_hash hc seen l)) -> In x l.
Proof.
  intros seen l x H. destruct (dedup_hash hc seen l) as [r s'] eqn:E.
  destruct (dedup_hash_inv l seen r s' E) as (I1 & _). now apply I1.
Qed.

(* every code of the input is represented in the output *)
Theorem dedup_hash_covers : forall l x,
  In x l -> exists y, In y (fst (dedup_hash hc [] l)) /\ hc y = hc x.
Proof.
  intros l x H. destruct (dedup_hash hc [] l) as [r s'] eqn:E.
  destruct (dedup_hash_inv l [] r s' E) as (_ & _ & I3 & _).
  destruct (I3 x H) as [[]|Hx]. apply in_map_iff in Hx as (y & Ey & Hy).
  exists y. now split.
Qed.

Theorem dedup_hash_complete : forall l x,
  hash_ok hc l -> In x l -> In x (fst (dedup_hash hc [] l)).
Proof.
  intros l x OK H. destruct (dedup_hash_covers l x H) as (y & Hy & Ey).
  assert (y = x) as <-; [|assumption].
  apply OK; try assumption. now apply (dedup_hash_sound [] l).
Qed.

Theorem dedup_hash_In : forall l x,
  hash_ok hc l -> (In x (fst (dedup_hash hc [] l)) <-> In x l).
Proof.
  intros l x OK. split; [apply dedup_hash_sound | now apply dedup_hash_complete].
Qed.

(* ---- the reference: de-duplication by node equality ---- *)
Fixpoint dedup_eq_acc (seen : list node) (l : list node) : list node :=
  match l with
  | [] => []
  | n :: r => if existsb (node_eqb n) seen then dedup_eq_acc seen r
              else n :: dedup_eq_acc (n :: seen) r
  end.
Definition dedup_eq (l : list node) : list node := dedup_eq_acc [] l.

(* keep the first occurrence of every node, drop the later ones *)
Fixpoint dedup_first (l : list node) : list node :=
  match l with
  | [] => []
  | n :: r => n :: filter (fun m => negb (node_eqb n m)) (dedup_first r)
  end.

Lemma mem_agree : forall n seen,
  (forall a, In a seen -> hc a = hc n -> a = n) ->
  existsb (N.eqb (hc n)) (map hc seen) = existsb (node_eqb n) seen.
Proof.
  intros n seen. induction seen as [|a seen IH]; intros OK; cbn [map existsb].
  - reflexivity.
  - rewrite IH by (intros b Hb; apply OK; now right). f_equal.
    destruct (node_eqb n a) eqn:E.
    + apply node_eqb_eq in E. subst. apply N.eqb_refl.
    + apply N.eqb_neq. intros X. apply node_eqb_neq in E. apply E.
      symmetry. apply OK; [now left | now symmetry].
Qed.

Lemma dedup_hash_eq_acc : forall l seen,
  hash_ok hc (seen ++ l) ->
  fst (dedup_hash hc (map hc seen) l) = dedup_eq_acc seen l.
Proof.
  induction l as [|n l IH]; intros seen OK; cbn [dedup_hash dedup_eq_acc].
  - reflexivity.
  - rewrite mem_agree.
    2:{ intros a Ha E. apply OK; [apply in_or_app; now left | apply in_or_app; right; now left | assumption]. }
    destruct (existsb (node_eqb n) seen).
    + apply IH. apply (hash_ok_incl hc (seen ++ n :: l)); [|assumption].
      intros x Hx. apply in_app_or in Hx as [Hx|Hx]; apply in_or_app; [now left | right; now right].
    + change (hc n :: map hc seen) with (map hc (n :: seen)).
      rewrite <- (IH (n :: seen)).
      * now destruct (dedup_hash hc (map hc (n :: seen)) l).
      * apply (hash_ok_incl hc (seen ++ n :: l)); [|assumption].
        intros x Hx. cbn [app In] in Hx. apply in_or_app.
        destruct Hx as [<-|Hx]; [right; now left|].
        apply in_app_or in Hx as [Hx|Hx]; [now left | right; now right].
Qed.

Lemma filter_filter : forall (P Q : node -> bool) l,
  filter P (filter Q l) = filter (fun x => andb (Q x) (P x)) l.
Proof.
  intros P Q. induction l as [|x l IH]; cbn [filter]; [reflexivity|].
  destruct (Q x); cbn [filter andb]; [destruct (P x)|]; now rewrite IH.
Qed.

Lemma dedup_eq_acc_first : forall l seen,
  dedup_eq_acc seen l = filter (fun m => negb (existsb (node_eqb m) seen)) (dedup_first l).
Proof.
  induction l as [|n l IH]; intros seen; cbn [dedup_eq_acc dedup_first filter].
  - reflexivity.
  - destruct (existsb (node_eqb n) seen) eqn:E; cbn [negb].
    + rewrite IH, filter_filter. apply filter_ext. intros m.
      destruct (node_eqb n m) eqn:Enm; cbn [negb andb]; [|reflexivity].
      apply node_eqb_eq in Enm. subst m. now rewrite E.
    + f_equal. rewrite IH, filter_filter. apply filter_ext. intros m.
      cbn [existsb]. rewrite negb_orb, (node_eqb_sym m n). reflexivity.
Qed.

Theorem dedup_eq_first : forall l, dedup_eq l = dedup_first l.
Proof.
  intros l. unfold dedup_eq. rewrite dedup_eq_acc_first. cbn [existsb negb].
  induction (dedup_first l) as [|x r IH]; cbn [filter]; [reflexivity | now rewrite IH].
Qed.

(* collision-free codes: the result is the input without the later
   occurrences of each node, in the input's order *)
Theorem dedup_hash_dedup_eq : forall l,
  hash_ok hc l -> fst (dedup_hash hc [] l) = dedup_eq l.
Proof. intros l OK. exact (dedup_hash_eq_acc l [] OK). Qed.

Theorem dedup_hash_first : forall l,
  hash_ok hc l -> fst (dedup_hash hc [] l) = dedup_first l.
Proof. intros l OK. rewrite dedup_hash_dedup_eq by assumption. apply dedup_eq_first. Qed.

End Dedup.

(* [dedup_first] is what it says *)
Lemma dedup_first_In : forall l x, In x (dedup_first l) <-> In x l.
Proof.
  induction l as [|n l IH]; intros x; cbn [dedup_first In]; [tauto|].
  rewrite filter_In, IH. split.
  - intros [H|[H _]]; auto.
  - intros [H|H]; [now left|].
    destruct (node_eqb n x) eqn:E.
    + left. now apply node_eqb_eq.
    + right. now split.
Qed.

Lemma dedup_first_NoDup : forall l, NoDup (dedup_first l).
Proof.
  induction l as [|n l IH]; cbn [dedup_first]; constructor.
  - intros H. apply filter_In in H as [_ H]. now rewrite node_eqb_refl in H.
  - now apply NoDup_filter.
Qed.

Lemma filter_all_id : forall (f : node -> bool) l,
  (forall x, In x l -> f x = true) -> filter f l = l.
Proof.
  intros f. induction l as [|x l IH]; intros H; cbn [filter]; [reflexivity|].
  rewrite (H x (or_introl eq_refl)). f_equal. apply IH. intros y Hy. apply H. now right.
Qed.

Lemma dedup_first_id : forall l, NoDup l -> dedup_first l = l.
Proof.
  induction l as [|n l IH]; intros H; cbn [dedup_first]; [reflexivity|].
  inversion H as [|? ? Hn Hl]; subst. rewrite (IH Hl). f_equal.
  apply filter_all_id. intros m Hm.
  apply negb_true_iff, node_eqb_neq. intros ->. contradiction.
Qed.

Print Assumptions dedup_hash_NoDup.
Print Assumptions dedup_hash_In.
Print Assumptions dedup_hash_first.

Example dedup_first_example :
  let a := mkNode [0] None in let b := mkNode [0] (Some 0) in let c := mkNode [0; 1] None in
  dedup_first [a; b; a; c; b; a] = [a; b; c].
Proof. vm_compute. reflexivity. Qed.

(* ---- collision freedom of [hash_code] reduces to collision freedom of
        FNV-64a on the (pairwise different) keys ---- *)
Definition fnv_ok (D : tree) (l : list node) : Prop :=
  forall a b, In a l -> In b l ->
    fnv64a (hash_key D a) fnv_offset = fnv64a (hash_key D b) fnv_offset ->
    hash_key D a = hash_key D b.

Theorem hash_ok_hash_code : forall D l,
  wf_attrs D = true -> no_inner_root D = true ->
  (forall x, In x l -> valid D x = true) ->
  fnv_ok D l -> hash_ok (hash_code D) l.
Proof.
  intros D l WF NR V F a b Ha Hb E. unfold hash_code in E.
  apply (hash_key_injective_all D); auto.
Qed.

Print Assumptions hash_ok_hash_code.

(* a boolean test of [hash_ok], to discharge it by computation *)
Lemma NoDup_codes_hash_ok : forall hc l, NoDup l -> NoDup (map hc l) -> hash_ok hc l.
Proof.
  intros hc l. induction l as [|x l IH]; intros N1 N2 a b Ha Hb E.
  - destruct Ha.
  - inversion N1 as [|? ? Nx N1']; inversion N2 as [|? ? Mx N2']; subst.
    destruct Ha as [<-|Ha], Hb as [<-|Hb].
    + reflexivity.
    + exfalso. apply Mx. rewrite E. now apply in_map.
    + exfalso. apply Mx. rewrite <- E. now apply in_map.
    + now apply IH.
Qed.

Example hash_ok_sample : hash_ok (hash_code sample_doc) (all_nodes sample_doc).
Proof.
  apply NoDup_codes_hash_ok; vm_compute;
    repeat (constructor; [cbn [In]; intuition discriminate|]); constructor.
Qed.

(* ================================================================== *)
(** * 6. Union *)

Lemma nodes_of_unnumbered : forall l, nodes_of (unnumbered l) = l.
Proof.
  intros l. unfold nodes_of, unnumbered. rewrite map_map. cbn [it_node]. apply map_id.
Qed.

Section Union.
Variable D : tree.
Variable has_ns : bool.
Variable hc : node -> N.
Variable rm : string -> string -> option bool.
Variable rn : string -> nat.
Variable rr : string -> string -> string -> string.

Notation SEL := (sel D has_ns hc rm rn rr).

Lemma sel_unfold : forall q c,
  SEL q c = sel_body D has_ns hc (sel D has_ns hc rm rn rr) (eval D has_ns hc rm rn rr) q c.
Proof. intros q c. destruct q; reflexivity. Qed.

Lemma sel_union_unfold : forall l r c,
  SEL (QUnion l r) c =
  do a <- SEL l c; do b <- SEL r c;
  Val (unnumbered (fst (dedup_hash hc [] (nodes_of a ++ nodes_of b)))).
Proof. intros l r c. reflexivity. Qed.

(* the union of two selections: what it is *)
Theorem sel_union_value : forall l r c a b,
  SEL l c = Val a -> SEL r c = Val b ->
  SEL (QUnion l r) c = Val (unnumbered (fst (dedup_hash hc [] (nodes_of a ++ nodes_of b)))).
Proof.
  intros l r c a b Ha Hb. rewrite sel_union_unfold, Ha, Hb. reflexivity.
Qed.

(* MAIN THEOREM for union: no node twice; with collision-free codes, exactly
   the nodes of the two operands, in the order left operand then right
   operand with the later occurrences removed *)
Theorem sel_union : forall l r c a b,
  SEL l c = Val a -> SEL r c = Val b ->
  exists u,
    SEL (QUnion l r) c = Val u /\
    NoDup (nodes_of u) /\
    (forall x, In x (nodes_of u) -> In x (nodes_of a) \/ In x (nodes_of b)) /\
    (hash_ok hc (nodes_of a ++ nodes_of b) ->
       (forall x, In x (nodes_of u) <-> In x (nodes_of a) \/ In x (nodes_of b)) /\
       nodes_of u = dedup_first (nodes_of a ++ nodes_of b)).
Proof.
  intros l r c a b Ha Hb.
  exists (unnumbered (fst (dedup_hash hc [] (nodes_of a ++ nodes_of b)))).
  rewrite nodes_of_unnumbered. split; [now apply sel_union_value|].
  split; [apply dedup_hash_NoDup|].
  split.
  - intros x Hx. apply dedup_hash_sound in Hx. now apply in_app_or.
  - intros OK. split.
    + intros x. rewrite (dedup_hash_In hc _ x OK). apply in_app_iff.
    + now apply dedup_hash_first.
Qed.

(* an operand that fails makes the union fail the same way (left first) *)
Lemma sel_union_complaint_l : forall l r c m,
  SEL l c = Complaint m -> SEL (QUnion l r) c = Complaint m.
Proof. intros l r c m H. rewrite sel_union_unfold, H. reflexivity. Qed.

End Union.

Print Assumptions sel_union.

(* the engine's instance: identity code = FNV-64a of the key *)
Corollary sel_union_hash_code : forall D has_ns rm rn rr l r c a b,
  wf_attrs D = true -> no_inner_root D = true ->
  sel D has_ns (hash_code D) rm rn rr l c = Val a ->
  sel D has_ns (hash_code D) rm rn rr r c = Val b ->
  (forall x, In x (nodes_of a ++ nodes_of b) -> valid D x = true) ->
  fnv_ok D (nodes_of a ++ nodes_of b) ->
  exists u,
    sel D has_ns (hash_code D) rm rn rr (QUnion l r) c = Val u /\
    NoDup (nodes_of u) /\
    (forall x, In x (nodes_of u) <-> In x (nodes_of a) \/ In x (nodes_of b)) /\
    nodes_of u = dedup_first (nodes_of a ++ nodes_of b).
Proof.
  intros D has_ns rm rn rr l r c a b WF NR Ha Hb V F.
  destruct (sel_union D has_ns (hash_code D) rm rn rr l r c a b Ha Hb) as (u & Hu & N & _ & H).
  exists u. destruct (H (hash_ok_hash_code D _ WF NR V F)) as [H1 H2]. auto.
Qed.

Print Assumptions sel_union_hash_code.

(* child::* | descendant::node() style instance on the sample document:
   (children of the root) | (all descendants of the root) *)
Definition any_test : ntest := mkTest NTAll "" "" false "".
Definition elem_test : ntest := mkTest NTElem "" "" false "".

Example sel_union_example :
  let S := sel sample_doc false (hash_code sample_doc) (fun _ _ => None) (fun _ => 0) (fun _ s _ => s) in
  let l := QDescendant false elem_test QContext in
  let r := QChild any_test QContext in
  exists a b u,
    S l root_node = Val a /\ S r root_node = Val b /\
    S (QUnion l r) root_node = Val u /\
    nodes_of a = [mkNode [0] None; mkNode [0; 1] None] /\
    nodes_of b = [mkNode [0] None; mkNode [1] None] /\
    hash_ok (hash_code sample_doc) (nodes_of a ++ nodes_of b) /\
    nodes_of u = [mkNode [0] None; mkNode [0; 1] None; mkNode [1] None].
Proof.
  cbv zeta. do 3 eexists.
  split; [vm_compute; reflexivity|]. split; [vm_compute; reflexivity|].
  split; [vm_compute; reflexivity|]. split; [vm_compute; reflexivity|].
  split; [vm_compute; reflexivity|]. split; [|vm_compute; reflexivity].
  apply (hash_ok_incl _ (all_nodes sample_doc)); [|apply hash_ok_sample].
  intros x Hx. vm_compute in Hx. vm_compute. tauto.
Qed.
