(* Proofs/IterRefine.v — the cursor-level model M1 (Model1/Iter.v) refines the
   list-level model (Eval.v), and the protocol facts that the list level has
   by construction.  See the summary at the end of the file. *)
From XP Require Import Base F64 Doc Ast Hash Eval.
From XP.Model1 Require Import Iter.
From XP.Proofs Require Import AxesSound.
Open Scope nat_scope.
Open Scope list_scope.

(* ================================================================== *)
(** * 0. Size of a document *)

Fixpoint ksum (l : list tree) : nat :=
  match l with [] => 0 | c :: r => tsize c + ksum r end.

Lemma tsize_eq : forall t, tsize t = S (List.length (t_attrs t) + ksum (t_kids t)).
Proof. intros [k a b c d e ks]. reflexivity. Qed.

Lemma tsize_pos : forall t, 1 <= tsize t.
Proof. intros t. rewrite tsize_eq. lia. Qed.

Lemma ksum_length : forall l, List.length l <= ksum l.
Proof.
  induction l as [|c l IH]; cbn [ksum List.length]; [lia|].
  pose proof (tsize_pos c). lia.
Qed.

Lemma ksum_nth : forall l i c, nth_error l i = Some c -> tsize c <= ksum l.
Proof.
  induction l as [|x l IH]; intros [|i] c E; cbn in E; try discriminate.
  - inversion E; subst. cbn [ksum]. lia.
  - cbn [ksum]. specialize (IH _ _ E). lia.
Qed.

Lemma tsize_subtree : forall p t s, subtree t p = Some s -> tsize s <= tsize t.
Proof.
  induction p as [|i p IH]; intros t s E; cbn [subtree] in E.
  - inversion E; subst. lia.
  - destruct (nth_error (t_kids t) i) as [c|] eqn:En; [|discriminate].
    specialize (IH _ _ E). pose proof (ksum_nth _ _ _ En). rewrite (tsize_eq t). lia.
Qed.

Lemma below_go_length : forall l i,
  Forall (fun c => List.length (below c) < tsize c) l ->
  List.length (below_go l i) <= ksum l.
Proof.
  induction l as [|c l IH]; intros i HF; cbn [below_go ksum]; [cbn; lia|].
  inversion HF as [|? ? Hc Hl]; subst.
  rewrite app_length. cbn [List.length]. rewrite map_length.
  specialize (IH (S i) Hl). lia.
Qed.

Lemma below_length : forall s, List.length (below s) < tsize s.
Proof.
  intros s. induction s as [k a b c d e ks IH] using tree_ind'.
  rewrite below_eq, tsize_eq. cbn [t_kids t_attrs].
  pose proof (below_go_length ks 0 IH). lia.
Qed.

(* tsize is the number of nodes: the length of Doc.all_nodes *)
Section AllNodes.
Variable D : tree.

Definition gnode (path : list nat) : list node :=
  mkNode path None :: attributes_after D (mkNode path None).

Lemma gnode_length : forall p s, subtree D p = Some s ->
  List.length (gnode p) = S (List.length (t_attrs s)).
Proof.
  intros p s E. unfold gnode, attributes_after. cbn [nattr npath List.length].
  rewrite map_length, seq_length, Nat.sub_0_r. unfold n_attrs, node_tree. cbn [npath]. rewrite E. reflexivity.
Qed.

Lemma flat_map_map' : forall {A B C} (f : B -> list C) (g : A -> B) l,
  flat_map f (map g l) = flat_map (fun x => f (g x)) l.
Proof. induction l as [|x l IH]; cbn [map flat_map]; [reflexivity|]. rewrite IH. reflexivity. Qed.

Lemma count_subtree : forall s p, subtree D p = Some s ->
  List.length (flat_map (fun r => gnode (p ++ r)) (below s)) + S (List.length (t_attrs s)) = tsize s.
Proof.
  intros s. induction s as [k a b c d e ks IH] using tree_ind'. intros p Hsub.
  rewrite below_eq, tsize_eq. cbn [t_kids t_attrs].
  enough (H : forall suf i,
             (forall j x, nth_error suf j = Some x -> nth_error ks (i + j) = Some x) ->
             List.length (flat_map (fun r => gnode (p ++ r)) (below_go suf i)) = ksum suf).
  { rewrite (H ks 0 (fun j x E => E)). lia. }
  induction suf as [|ci rest IHs]; intros i Hnth; [reflexivity|].
  assert (Eci : nth_error ks i = Some ci).
  { specialize (Hnth 0 ci eq_refl). rewrite Nat.add_0_r in Hnth. exact Hnth. }
  assert (Hsubi : subtree D (p ++ [i]) = Some ci).
  { rewrite subtree_app, Hsub, subtree_single. exact Eci. }
  cbn [below_go ksum]. rewrite flat_map_app, app_length. cbn [flat_map]. rewrite app_length.
  rewrite flat_map_map'.
  rewrite (gnode_length _ _ Hsubi).
  pose proof (Forall_nth_error _ _ _ _ IH Eci (p ++ [i]) Hsubi) as Hc.
  rewrite (flat_map_ext' (fun r => gnode (p ++ i :: r)) (fun r => gnode ((p ++ [i]) ++ r))).
  2:{ intros r. rewrite <- app_assoc. reflexivity. }
  rewrite (IHs (S i)).
  - lia.
  - intros j x Ej. replace (S i + j) with (i + S j) by lia. apply Hnth. exact Ej.
Qed.

Theorem tsize_all_nodes : tsize D = List.length (all_nodes D).
Proof.
  unfold all_nodes, desc_or_self, descendants, node_tree, root_node. cbn [nattr npath subtree].
  cbn [flat_map]. rewrite app_length. rewrite flat_map_map'.
  pose proof (count_subtree D [] eq_refl) as H. cbn [app] in H.
  pose proof (gnode_length [] D eq_refl) as Hg. unfold gnode in Hg.
  change (mkNode [] None :: attributes_after D (mkNode [] None)) with (gnode []).
  unfold gnode in *. cbn [app] in *.
  rewrite Hg. lia.
Qed.

End AllNodes.

Section Cursor.
Variable D : tree.

Lemma n_kids_lt : forall n, n_kids D n < tsize D.
Proof.
  intros n. unfold n_kids, node_tree. destruct (subtree D (npath n)) as [s|] eqn:E.
  - pose proof (tsize_subtree _ _ _ E). rewrite (tsize_eq s) in H.
    pose proof (ksum_length (t_kids s)). lia.
  - pose proof (tsize_pos D). lia.
Qed.

Lemma n_attrs_lt : forall n, n_attrs D n < tsize D.
Proof.
  intros n. unfold n_attrs, node_tree. destruct (subtree D (npath n)) as [s|] eqn:E.
  - pose proof (tsize_subtree _ _ _ E). rewrite (tsize_eq s) in H. lia.
  - pose proof (tsize_pos D). lia.
Qed.

(* ---------------------------------------------------------------- *)
(** ** MoveToChild / MoveToNext enumerate [children] *)

Lemma children_unfold : forall n,
  children D n = match move_child D n with
                 | None => []
                 | Some m => m :: following_siblings D m
                 end.
Proof.
  intros n. unfold children, move_child. destruct (nattr n) eqn:Ea; [reflexivity|].
  destruct (Nat.ltb_spec 0 (n_kids D n)) as [H|H].
  - unfold following_siblings. cbn [nattr npath].
    rewrite last_index_snoc, parent_path_snoc.
    change (n_kids D (mkNode (npath n) None)) with (n_kids D n).
    destruct (n_kids D n) as [|k]; [lia|].
    cbn [seq map]. rewrite Nat.sub_succ, Nat.sub_0_r. reflexivity.
  - assert (E : n_kids D n = 0) by lia. rewrite E. reflexivity.
Qed.

Lemma following_unfold : forall n,
  following_siblings D n = match move_next D n with
                           | None => []
                           | Some m => m :: following_siblings D m
                           end.
Proof.
  intros n. unfold following_siblings at 1. unfold move_next.
  destruct (nattr n) eqn:Ea; [reflexivity|].
  destruct (last_index (npath n)) as [i|] eqn:El; [|reflexivity].
  set (pp := parent_path (npath n)). set (N := n_kids D (mkNode pp None)).
  destruct (Nat.ltb_spec (S i) N) as [H|H].
  - unfold following_siblings. cbn [nattr npath].
    rewrite last_index_snoc, parent_path_snoc. fold N.
    replace (N - S i) with (S (N - S (S i))) by lia. reflexivity.
  - replace (N - S i) with 0 by lia. reflexivity.
Qed.

Definition crest (nd : node) (first : bool) : list node :=
  if first then children D nd else following_siblings D nd.

Lemma crest_unfold : forall nd first,
  crest nd first = match (if first then move_child D nd else move_next D nd) with
                   | None => []
                   | Some m => m :: crest m false
                   end.
Proof. intros nd [|]; cbn [crest]; [apply children_unfold|apply following_unfold]. Qed.

Lemma crest_length : forall nd first, List.length (crest nd first) < dfuel D.
Proof.
  intros nd first. unfold dfuel. destruct first; cbn [crest].
  - unfold children. destruct (nattr nd); [cbn; lia|].
    rewrite map_length, seq_length. pose proof (n_kids_lt nd). lia.
  - unfold following_siblings. destruct (nattr nd); [cbn; lia|].
    destruct (last_index (npath nd)); [|cbn; lia].
    rewrite map_length, seq_length.
    pose proof (n_kids_lt (mkNode (parent_path (npath nd)) None)). lia.
Qed.

Lemma child_iter_run_spec : forall test fuel nd first,
  List.length (crest nd first) < fuel ->
  match child_iter_run D test fuel nd first with
  | Some (Some x, nd', f') =>
    nd' = x /\ f' = false /\ filter test (crest nd first) = x :: filter test (crest x false)
  | Some (None, _, _) => filter test (crest nd first) = []
  | None => False
  end.
Proof.
  intros test. induction fuel as [|k IH]; intros nd first Hlen; [lia|].
  cbn [child_iter_run]. rewrite (crest_unfold nd first) in *.
  destruct (if first then move_child D nd else move_next D nd) as [m|]; [|reflexivity].
  cbn [List.length] in Hlen. cbn [filter].
  destruct (test m) eqn:Et.
  - auto.
  - apply IH. lia.
Qed.

(* ---------------------------------------------------------------- *)
(** ** MoveToNextAttribute enumerates [attributes_after] *)

Lemma attrs_unfold : forall n,
  attributes_after D n = match move_next_attr D n with
                         | None => []
                         | Some m => m :: attributes_after D m
                         end.
Proof.
  intros n. unfold attributes_after at 1. unfold move_next_attr.
  set (i := match nattr n with Some i => S i | None => 0 end).
  destruct (Nat.ltb_spec i (n_attrs D n)) as [H|H].
  - unfold attributes_after. cbn [nattr npath].
    change (n_attrs D (mkNode (npath n) (Some i))) with (n_attrs D n).
    replace (n_attrs D n - i) with (S (n_attrs D n - S i)) by lia. reflexivity.
  - replace (n_attrs D n - i) with 0 by lia. reflexivity.
Qed.

Lemma attrs_length : forall n, List.length (attributes_after D n) < dfuel D.
Proof.
  intros n. unfold attributes_after, dfuel. rewrite map_length, seq_length.
  pose proof (n_attrs_lt n). lia.
Qed.

Lemma attr_iter_run_spec : forall test fuel nd,
  List.length (attributes_after D nd) < fuel ->
  match attr_iter_run D test fuel nd with
  | Some (Some x, nd') =>
    nd' = x /\ filter test (attributes_after D nd) = x :: filter test (attributes_after D x)
  | Some (None, _) => filter test (attributes_after D nd) = []
  | None => False
  end.
Proof.
  intros test. induction fuel as [|k IH]; intros nd Hlen; [lia|].
  cbn [attr_iter_run]. rewrite (attrs_unfold nd) in *.
  destruct (move_next_attr D nd) as [m|]; [|reflexivity].
  cbn [List.length] in Hlen. cbn [filter].
  destruct (test m) eqn:Et.
  - auto.
  - apply IH. lia.
Qed.

(* the loops inside the closures of childQuery and attributeQuery never run out
   of [dfuel], whatever the state *)
Corollary child_iter_never_stuck : forall test nd first,
  child_iter_run D test (dfuel D) nd first <> None.
Proof.
  intros test nd first E.
  pose proof (child_iter_run_spec test (dfuel D) nd first (crest_length nd first)) as H.
  rewrite E in H. exact H.
Qed.

Corollary attr_iter_never_stuck : forall test nd, attr_iter_run D test (dfuel D) nd <> None.
Proof.
  intros test nd E.
  pose proof (attr_iter_run_spec test (dfuel D) nd (attrs_length nd)) as H.
  rewrite E in H. exact H.
Qed.

End Cursor.

(* ================================================================== *)
(** * 1. The descendant walk (MoveToChild / MoveToNext / MoveToParent with a
      level counter) enumerates [descendants] in pre-order *)

Section Walk.
Variable D : tree.

(* one advance of the cursor, without the test *)
Definition dnext (st : node * nat) : option (node * nat) :=
  match move_child D (fst st) with
  | Some nd' => Some (nd', S (snd st))
  | None =>
    let '(moved, nd1, l1) := desc_climb D (snd st) (fst st) in
    if moved then Some (nd1, l1) else None
  end.

(* [walks st L]: from st the cursor visits exactly L, then the walk ends *)
Inductive walks : node * nat -> list (node * nat) -> Prop :=
| W_nil : forall st, dnext st = None -> walks st []
| W_cons : forall st st' L, dnext st = Some st' -> walks st' L -> walks st (st' :: L).

Definition after_climb (l : nat) (n : node) (K : list (node * nat)) : Prop :=
  match desc_climb D l n with
  | (true, nd1, l1) => exists K', K = (nd1, l1) :: K' /\ walks (nd1, l1) K'
  | (false, _, _) => K = []
  end.

Definition sub_list (p : list nat) (l : nat) (s : tree) : list (node * nat) :=
  map (fun r => (mkNode (p ++ r) None, l + List.length r)) (below s).

Lemma move_parent_snoc : forall p i, move_parent (mkNode (p ++ [i]) None) = Some (mkNode p None).
Proof.
  intros p i. unfold move_parent. cbn [nattr npath].
  destruct (p ++ [i]) eqn:E; [destruct p; discriminate|].
  rewrite <- E, parent_path_snoc. reflexivity.
Qed.

Lemma n_kids_sub : forall p s, subtree D p = Some s -> n_kids D (mkNode p None) = List.length (t_kids s).
Proof. intros p s E. unfold n_kids, node_tree. cbn [npath]. rewrite E. reflexivity. Qed.

Lemma walk_of_after_climb : forall p l K,
  move_child D (mkNode p None) = None -> after_climb l (mkNode p None) K -> walks (mkNode p None, l) K.
Proof.
  intros p l K Hc HK. unfold after_climb in HK.
  destruct (desc_climb D l (mkNode p None)) as [[moved nd1] l1] eqn:Ec.
  destruct moved.
  - destruct HK as (K' & -> & HW). eapply W_cons; [|exact HW].
    unfold dnext. cbn [fst snd]. rewrite Hc, Ec. reflexivity.
  - subst K. apply W_nil. unfold dnext. cbn [fst snd]. rewrite Hc, Ec. reflexivity.
Qed.

Lemma walk_subtree : forall s p l K,
  subtree D p = Some s -> after_climb l (mkNode p None) K ->
  walks (mkNode p None, l) (sub_list p l s ++ K).
Proof.
  intros s. induction s as [k a b c d e ks IH] using tree_ind'.
  intros p l K Hsub HK.
  set (f := fun r : list nat => (mkNode (p ++ r) None, l + List.length r)).
  pose proof (n_kids_sub _ _ Hsub) as Hnk. cbn [t_kids] in Hnk.
  (* the kids from index i on *)
  assert (Hkids : forall suf i,
             (forall j x, nth_error suf j = Some x -> nth_error ks (i + j) = Some x) ->
             i + List.length suf = List.length ks ->
             match suf with
             | [] => True
             | ci :: rest =>
               walks (mkNode (p ++ [i]) None, S l)
                     (map f (map (cons i) (below ci)) ++ map f (below_go rest (S i)) ++ K)
             end).
  { induction suf as [|ci rest IHs]; intros i Hnth Hlen; [exact I|].
    assert (Eci : nth_error ks i = Some ci).
    { specialize (Hnth 0 ci eq_refl). rewrite Nat.add_0_r in Hnth. exact Hnth. }
    pose proof (Forall_nth_error _ _ _ _ IH Eci) as IHci. cbn beta in IHci.
    assert (Hsubi : subtree D (p ++ [i]) = Some ci).
    { rewrite subtree_app, Hsub, subtree_single. exact Eci. }
    specialize (IHci (p ++ [i]) (S l) (map f (below_go rest (S i)) ++ K) Hsubi).
    assert (Esub : sub_list (p ++ [i]) (S l) ci = map f (map (cons i) (below ci))).
    { unfold sub_list. rewrite map_map. apply map_ext. intros r. unfold f.
      rewrite <- app_assoc. cbn [app List.length]. f_equal. lia. }
    rewrite Esub in IHci. apply IHci. clear IHci Esub.
    unfold after_climb. cbn [desc_climb].
    unfold move_next. cbn [nattr npath]. rewrite last_index_snoc, parent_path_snoc, Hnk.
    cbn [List.length] in Hlen.
    destruct rest as [|c' rest'].
    - destruct (Nat.ltb_spec (S i) (List.length ks)) as [Hlt|Hge]; [cbn [List.length] in Hlen; lia|].
      rewrite move_parent_snoc. cbn [below_go map app]. exact HK.
    - destruct (Nat.ltb_spec (S i) (List.length ks)) as [Hlt|Hge]; [|cbn [List.length] in Hlen; lia].
      eexists. split.
      + cbn [below_go map app]. unfold f at 1. cbn [List.length]. rewrite Nat.add_1_r.
        rewrite map_app, <- app_assoc. reflexivity.
      + apply (IHs (S i)).
        * intros j x Ej. replace (S i + j) with (i + S j) by lia. apply Hnth. exact Ej.
        * cbn [List.length] in *. lia. }
  unfold sub_list. rewrite below_eq. cbn [t_kids]. fold f.
  destruct ks as [|c0 rest].
  - cbn [below_go map app]. apply walk_of_after_climb; [|exact HK].
    unfold move_child. cbn [nattr]. rewrite Hnk. reflexivity.
  - specialize (Hkids (c0 :: rest) 0 (fun j x E => E) eq_refl). cbn beta iota in Hkids.
    cbn [below_go map app]. unfold f at 1. cbn [List.length]. rewrite Nat.add_1_r.
    eapply W_cons.
    + unfold dnext. cbn [fst snd]. unfold move_child. cbn [nattr npath]. rewrite Hnk. reflexivity.
    + rewrite map_app, <- app_assoc. exact Hkids.
Qed.

(* the (node, level) pairs the walk below b visits *)
Definition dlist (b : node) : list (node * nat) :=
  map (fun m => (m, List.length (npath m) - List.length (npath b))) (descendants D b).

Lemma walks_base : forall b, walks (b, 0) (dlist b).
Proof.
  intros [p [i|]].
  - unfold dlist, descendants. cbn [nattr map]. apply W_nil. reflexivity.
  - unfold dlist, descendants, node_tree. cbn [nattr npath].
    destruct (subtree D p) as [s|] eqn:Es.
    + pose proof (walk_subtree s p 0 [] Es eq_refl) as HW. rewrite app_nil_r in HW.
      replace (map _ (map _ (below s))) with (sub_list p 0 s); [exact HW|].
      unfold sub_list. rewrite map_map. apply map_ext. intros r. cbn [npath].
      rewrite app_length. f_equal. lia.
    + cbn [map]. apply W_nil. unfold dnext. cbn [fst snd].
      unfold move_child, n_kids, node_tree. cbn [nattr npath]. rewrite Es. reflexivity.
Qed.

Lemma dlist_length : forall b, List.length (dlist b) < dfuel D.
Proof.
  intros b. unfold dlist, descendants, dfuel. rewrite map_length.
  destruct (nattr b); [cbn; lia|]. unfold node_tree.
  destruct (subtree D (npath b)) as [s|] eqn:Es; [|cbn; lia].
  rewrite map_length. pose proof (below_length s). pose proof (tsize_subtree _ _ _ Es). lia.
Qed.

(* ---- the closure of descendantQuery against a walk ---- *)
Variable test : node -> bool.
Definition ft (L : list (node * nat)) : list (node * nat) := filter (fun y => test (fst y)) L.

Lemma desc_scan_spec : forall fuel nd lv L,
  walks (nd, lv) L -> List.length L < fuel ->
  match desc_scan D test fuel nd lv with
  | Some (Some x, nd', lv') =>
    nd' = x /\ exists L2, ft L = (x, lv') :: ft L2 /\ walks (x, lv') L2 /\ List.length L2 < List.length L
  | Some (None, _, _) => ft L = []
  | None => False
  end.
Proof.
  induction fuel as [|k IH]; intros nd lv L HW Hlen; [lia|].
  cbn [desc_scan]. inversion HW as [st Hn|st st' L' Hn HW']; subst.
  - unfold dnext in Hn. cbn [fst snd] in Hn.
    destruct (move_child D nd) as [nd'|]; [discriminate|].
    destruct (desc_climb D lv nd) as [[moved nd1] l1]. destruct moved; [discriminate|].
    reflexivity.
  - destruct st' as [nd1 l1]. unfold dnext in Hn. cbn [fst snd] in Hn.
    cbn [List.length] in Hlen.
    assert (Hgoal :
      match (if test nd1 then Some (Some nd1, nd1, l1) else desc_scan D test k nd1 l1) with
      | Some (Some x, nd', lv') =>
        nd' = x /\ exists L2, ft ((nd1, l1) :: L') = (x, lv') :: ft L2 /\ walks (x, lv') L2 /\
                              List.length L2 < List.length ((nd1, l1) :: L')
      | Some (None, _, _) => ft ((nd1, l1) :: L') = []
      | None => False
      end).
    { unfold ft at 1 3. cbn [filter fst List.length]. destruct (test nd1) eqn:Et.
      - split; [reflexivity|]. exists L'. split; [reflexivity|]. split; [exact HW'|lia].
      - specialize (IH nd1 l1 L' HW' ltac:(lia)).
        destruct (desc_scan D test k nd1 l1) as [[[[x|] nd'] lv']|]; [|exact IH|exact IH].
        destruct IH as (-> & L2 & E & HW2 & Hl). split; [reflexivity|].
        exists L2. split; [exact E|]. split; [exact HW2|lia]. }
    destruct (move_child D nd) as [nd'|].
    + inversion Hn; subst. exact Hgoal.
    + destruct (desc_climb D lv nd) as [[moved nd2] l2]. destruct moved; [|discriminate].
      inversion Hn; subst. exact Hgoal.
Qed.

Lemma desc_iter_run_spec : forall self nd first lv L,
  walks (nd, lv) L -> List.length L < dfuel D ->
  match desc_iter_run D self test nd first lv with
  | Some (Some x, nd', lv') =>
    nd' = x /\ exists L2,
      ft ((if andb first self then [(nd, lv)] else []) ++ L) = (x, lv') :: ft L2 /\
      walks (x, lv') L2 /\ List.length L2 <= List.length L
  | Some (None, _, _) => ft ((if andb first self then [(nd, lv)] else []) ++ L) = []
  | None => False
  end.
Proof.
  intros self nd first lv L HW Hlen. unfold desc_iter_run.
  destruct first, self; cbn [andb app].
  1: destruct (test nd) eqn:Et.
  1: { split; [reflexivity|]. exists L. unfold ft at 1. cbn [filter fst]. rewrite Et.
       split; [reflexivity|]. split; [exact HW|lia]. }
  1: unfold ft at 1 3; cbn [filter fst]; rewrite Et; fold (ft L).
  all: pose proof (desc_scan_spec (dfuel D) nd lv L HW Hlen) as HS;
    destruct (desc_scan D test (dfuel D) nd lv) as [[[[x|] nd'] lv']|]; try exact HS;
    destruct HS as (-> & L2 & E & HW2 & Hl); (split; [reflexivity|]);
    exists L2; (split; [exact E|]); (split; [exact HW2|lia]).
Qed.

(* ... and neither does the closure of descendantQuery in a state of the walk
   below any node b (these are the states Select produces) *)
Corollary desc_iter_never_stuck : forall self nd first lv L,
  walks (nd, lv) L -> List.length L < dfuel D ->
  desc_iter_run D self test nd first lv <> None.
Proof.
  intros self nd first lv L HW HL E.
  pose proof (desc_iter_run_spec self nd first lv L HW HL) as H. rewrite E in H. exact H.
Qed.

Corollary desc_iter_start_never_stuck : forall self b,
  desc_iter_run D self test b true 0 <> None.
Proof. intros self b. apply (desc_iter_never_stuck self b true 0 (dlist b) (walks_base b) (dlist_length b)). Qed.

End Walk.

(* ================================================================== *)
(** * 2. What it means for an iterator state to deliver a list *)

Section Rep.
Context {St : Type}.
Variable isel : St -> node -> res St.      (* Select *)
Variable pos lvl : St -> nat.              (* getNodePosition / getNodeDepth *)
Variable c : node.                         (* t.Current() at the first call *)

(* which t.Current() a call may be made with: the FIRST call (b = true) sees
   the context node c; later calls may see anything (NodeIterator.MoveNext
   moves t.Current() to the node just returned) *)
Definition OK (b : bool) (cur : node) : Prop := b = true -> cur = c.

Lemma OK_false : forall cur, OK false cur.
Proof. intros cur H. discriminate. Qed.
Lemma OK_c : forall b, OK b c.
Proof. intros b _. reflexivity. Qed.

(* exhausted for good: nil now and after every further call; t.Current() untouched *)
Definition Exh (b : bool) (s : St) : Prop :=
  exists I : bool -> St -> Prop,
    I b s /\ forall b x cur, I b x -> OK b cur -> exists x', isel x cur = R None x' cur /\ I false x'.

(* [Rep b s l]: successive Select calls from state s -- the first with
   t.Current() = c if b, all others with any t.Current() -- return exactly the
   nodes of l, position()/depth() after each call are the ones recorded in l,
   every call leaves t.Current() where it was, and then the query is
   exhausted for good *)
Fixpoint Rep (b : bool) (s : St) (l : list item) : Prop :=
  match l with
  | [] => Exh b s
  | it :: r => forall cur, OK b cur ->
               exists s', isel s cur = R (Some (it_node it)) s' cur /\
                          pos s' = it_pos it /\ lvl s' = it_lvl it /\ Rep false s' r
  end.

Lemma Rep_nil_step : forall b s cur, Rep b s [] -> OK b cur ->
  exists s', isel s cur = R None s' cur /\ Rep false s' [].
Proof.
  intros b s cur (I & Hs & Hstep) Hok. destruct (Hstep b s cur Hs Hok) as (s' & E & Hs').
  exists s'. split; [exact E|]. exists I. split; assumption.
Qed.

Lemma Rep_of_inv : forall (Inv : bool -> St -> list item -> Prop),
  (forall b s cur, Inv b s [] -> OK b cur -> exists s', isel s cur = R None s' cur /\ Inv false s' []) ->
  (forall b s it r cur, Inv b s (it :: r) -> OK b cur ->
     exists s', isel s cur = R (Some (it_node it)) s' cur /\
                pos s' = it_pos it /\ lvl s' = it_lvl it /\ Inv false s' r) ->
  forall l b s, Inv b s l -> Rep b s l.
Proof.
  intros Inv Hnil Hcons. induction l as [|it r IH]; intros b s HI.
  - exists (fun b x => Inv b x []). split; [exact HI|]. exact Hnil.
  - intros cur Hok. destruct (Hcons b s it r cur HI Hok) as (s' & E & Hp & Hl & HI').
    exists s'. repeat split; try assumption. apply IH. exact HI'.
Qed.

End Rep.

(* ================================================================== *)
(** * 3. The query types, one by one *)

(* list-level steps with the test abstract (Eval.step_* with tst = match_test) *)
Section ListSteps.
Variable D : tree.
Variable test : node -> bool.
Definition lchild (n : node) : list item := numbered (filter test (children D n)).
Definition lattr (n : node) : list item :=
  match node_type D n with
  | NTElem => unnumbered (filter test (attributes_after D n))
  | _ => []
  end.
Definition ldesc (self : bool) (n : node) : list item :=
  number_desc 1 (List.length (npath n)) (filter test ((if self then [n] else []) ++ descendants D n)).
Definition lparent (n : node) : list item :=
  match move_parent n with
  | Some p => if test p then [mkItem p 1 0] else []
  | None => []
  end.
Definition lself (n : node) : list item := if test n then [mkItem n 1 0] else [].
End ListSteps.

Definition over (f : node -> list item) (l : list item) : list item :=
  flat_map (fun it => f (it_node it)) l.

(* filterQuery's loop with an abstract predicate *)
Fixpoint lfilter (pred : node -> nat -> bool) (l : list item) (pm : list (nat * nat)) : list item :=
  match l with
  | [] => []
  | it :: r =>
    if pred (it_node it) (it_pos it) then
      let k := S (pm_get pm (it_lvl it)) in
      mkItem (it_node it) k 0 :: lfilter pred r (pm_set pm (it_lvl it) k)
    else lfilter pred r pm
  end.

(* ---------------------------------------------------------------- *)
(** ** contextQuery / absoluteQuery *)

Lemma ctx_Rep : forall c, Rep ctx_select (fun _ => 1) (fun _ => 0) c true 0 [mkItem c 1 0].
Proof.
  intros c. cbn [Rep it_node it_pos it_lvl]. intros cur Hok. rewrite (Hok eq_refl).
  exists 1. repeat split.
  exists (fun _ x => 0 < x). split; [lia|]. intros b x cur' Hx _. exists x. split; [|exact Hx].
  unfold ctx_select. destruct (Nat.ltb_spec 0 x); [reflexivity|lia].
Qed.

Lemma abs_Rep : forall c, Rep abs_select (fun _ => 1) (fun _ => 0) c true 0 [mkItem root_node 1 0].
Proof.
  intros c. cbn [Rep it_node it_pos it_lvl]. intros cur Hok.
  exists 1. repeat split.
  exists (fun _ x => 0 < x). split; [lia|]. intros b x cur' Hx _. exists x. split; [|exact Hx].
  unfold abs_select. destruct (Nat.ltb_spec 0 x); [reflexivity|lia].
Qed.

(* ---------------------------------------------------------------- *)
Section Combinators.
Context {St : Type}.
Variable D : tree.
Variable isel : St -> node -> res St.
Variable ipos ilvl : St -> nat.
Variable c : node.
Variable test : node -> bool.
Variable F : nat.
Notation RepI := (Rep isel ipos ilvl c).
Notation OKc := (OK c).

(** ** selfQuery *)
Lemma self_loop_S : forall f s cur o s1,
  isel s cur = R o s1 cur ->
  iter_loop (self_body isel test) (S f) s cur =
  match o with
  | None => R None s1 cur
  | Some n => if test n then R (Some n) s1 cur else iter_loop (self_body isel test) f s1 cur
  end.
Proof. intros f s cur o s1 E. cbn [iter_loop]. unfold self_body at 1. rewrite E. reflexivity. Qed.

Lemma self_loop : forall l f s b cur, RepI b s l -> OKc b cur -> List.length l < f ->
  match over (lself test) l with
  | [] => exists s', iter_loop (self_body isel test) f s cur = R None s' cur /\ RepI false s' []
  | it :: r => exists s' l',
      iter_loop (self_body isel test) f s cur = R (Some (it_node it)) s' cur /\
      it_pos it = 1 /\ it_lvl it = 0 /\
      RepI false s' l' /\ List.length l' <= List.length l /\ r = over (lself test) l'
  end.
Proof.
  induction l as [|a l IH]; intros f s b cur HR Hok Hlen; (destruct f as [|f']; [cbn in Hlen; lia|]).
  - cbn [over flat_map]. destruct (Rep_nil_step _ _ _ _ _ _ _ HR Hok) as (s' & E & HR').
    exists s'. rewrite (self_loop_S _ _ _ _ _ E). auto.
  - cbn [Rep] in HR. destruct (HR cur Hok) as (s1 & E & _ & _ & HR1).
    unfold over. cbn [flat_map]. fold (over (lself test) l).
    rewrite (self_loop_S _ _ _ _ _ E). unfold lself at 1.
    destruct (test (it_node a)) eqn:Et.
    + cbn [app]. exists s1, l. cbn [it_node it_pos it_lvl List.length]. repeat split; auto.
    + cbn [app]. specialize (IH f' s1 false cur HR1 (OK_false c cur) ltac:(cbn in Hlen; lia)).
      destruct (over (lself test) l) as [|it r]; [exact IH|].
      destruct IH as (s' & l' & E' & Hp & Hl & HR' & Hlen' & Er).
      exists s', l'. cbn [List.length]. repeat split; auto.
Qed.

Lemma self_Rep : forall l b s, RepI b s l -> List.length l < F ->
  Rep (self_select isel test F) (fun _ => 1) (fun _ => 0) c b s (over (lself test) l).
Proof.
  intros l b s HR Hlen.
  apply (Rep_of_inv _ _ _ _
           (fun b s out => exists l, RepI b s l /\ List.length l < F /\ out = over (lself test) l)).
  - intros b0 s0 cur (l0 & HR0 & Hl0 & E0) Hok. pose proof (self_loop l0 F s0 b0 cur HR0 Hok Hl0) as H.
    rewrite <- E0 in H. destruct H as (s' & E & HR'). exists s'. split; [exact E|].
    exists []. split; [exact HR'|]. split; [cbn; lia|reflexivity].
  - intros b0 s0 it r cur (l0 & HR0 & Hl0 & E0) Hok. pose proof (self_loop l0 F s0 b0 cur HR0 Hok Hl0) as H.
    rewrite <- E0 in H. destruct H as (s' & l' & E & Hp & Hl & HR' & Hlen' & Er).
    exists s'. repeat split; auto. exists l'. repeat split; auto. lia.
  - exists l. auto.
Qed.

(** ** parentQuery *)
Lemma parent_loop_S : forall f s cur o s1,
  isel s cur = R o s1 cur ->
  iter_loop (parent_body isel test) (S f) s cur =
  match o with
  | None => R None s1 cur
  | Some n =>
    match move_parent n with
    | Some p => if test p then R (Some p) s1 cur else iter_loop (parent_body isel test) f s1 cur
    | None => iter_loop (parent_body isel test) f s1 cur
    end
  end.
Proof. intros f s cur o s1 E. cbn [iter_loop]. unfold parent_body at 1. rewrite E. reflexivity. Qed.

Lemma parent_loop : forall l f s b cur, RepI b s l -> OKc b cur -> List.length l < f ->
  match over (lparent test) l with
  | [] => exists s', iter_loop (parent_body isel test) f s cur = R None s' cur /\ RepI false s' []
  | it :: r => exists s' l',
      iter_loop (parent_body isel test) f s cur = R (Some (it_node it)) s' cur /\
      it_pos it = 1 /\ it_lvl it = 0 /\
      RepI false s' l' /\ List.length l' <= List.length l /\ r = over (lparent test) l'
  end.
Proof.
  induction l as [|a l IH]; intros f s b cur HR Hok Hlen; (destruct f as [|f']; [cbn in Hlen; lia|]).
  - cbn [over flat_map]. destruct (Rep_nil_step _ _ _ _ _ _ _ HR Hok) as (s' & E & HR').
    exists s'. rewrite (parent_loop_S _ _ _ _ _ E). auto.
  - cbn [Rep] in HR. destruct (HR cur Hok) as (s1 & E & _ & _ & HR1).
    unfold over. cbn [flat_map]. fold (over (lparent test) l).
    rewrite (parent_loop_S _ _ _ _ _ E). unfold lparent at 1.
    assert (Hskip :
      match [] ++ over (lparent test) l with
      | [] => exists s', iter_loop (parent_body isel test) f' s1 cur = R None s' cur /\ RepI false s' []
      | it :: r => exists s' l',
          iter_loop (parent_body isel test) f' s1 cur = R (Some (it_node it)) s' cur /\
          it_pos it = 1 /\ it_lvl it = 0 /\
          RepI false s' l' /\ List.length l' <= List.length (a :: l) /\ r = over (lparent test) l'
      end).
    { cbn [app]. specialize (IH f' s1 false cur HR1 (OK_false c cur) ltac:(cbn in Hlen; lia)).
      destruct (over (lparent test) l) as [|it r]; [exact IH|].
      destruct IH as (s' & l' & E' & Hp & Hl & HR' & Hlen' & Er).
      exists s', l'. cbn [List.length]. repeat split; auto. }
    destruct (move_parent (it_node a)) as [p|]; [|exact Hskip].
    destruct (test p) eqn:Et; [|exact Hskip].
    cbn [app]. exists s1, l. cbn [it_node it_pos it_lvl List.length]. repeat split; auto.
Qed.

Lemma parent_Rep : forall l b s, RepI b s l -> List.length l < F ->
  Rep (parent_select isel test F) (fun _ => 1) (fun _ => 0) c b s (over (lparent test) l).
Proof.
  intros l b s HR Hlen.
  apply (Rep_of_inv _ _ _ _
           (fun b s out => exists l, RepI b s l /\ List.length l < F /\ out = over (lparent test) l)).
  - intros b0 s0 cur (l0 & HR0 & Hl0 & E0) Hok. pose proof (parent_loop l0 F s0 b0 cur HR0 Hok Hl0) as H.
    rewrite <- E0 in H. destruct H as (s' & E & HR'). exists s'. split; [exact E|].
    exists []. split; [exact HR'|]. split; [cbn; lia|reflexivity].
  - intros b0 s0 it r cur (l0 & HR0 & Hl0 & E0) Hok. pose proof (parent_loop l0 F s0 b0 cur HR0 Hok Hl0) as H.
    rewrite <- E0 in H. destruct H as (s' & l' & E & Hp & Hl & HR' & Hlen' & Er).
    exists s'. repeat split; auto. exists l'. repeat split; auto. lia.
  - exists l. auto.
Qed.

(** ** childQuery *)
Notation cloop := (iter_loop (child_body D isel test)).

Lemma child_pump_spec : forall (again : child_st St -> node -> res (child_st St)) k nd first (s : St) cur,
  match filter test (crest D nd first) with
  | [] => child_pump D test again k nd first s cur = again (mkChild k CI_none s) cur
  | x :: L =>
    child_pump D test again k nd first s cur = R (Some x) (mkChild (S k) (CI_iter x false) s) cur /\
    L = filter test (crest D x false)
  end.
Proof.
  intros again k nd first s cur. unfold child_pump.
  pose proof (child_iter_run_spec D test (dfuel D) nd first (crest_length D nd first)) as H.
  destruct (child_iter_run D test (dfuel D) nd first) as [[[[x|] nd'] f']|].
  - destruct H as (-> & -> & E). rewrite E. split; reflexivity.
  - rewrite H. reflexivity.
  - destruct H.
Qed.

Lemma cloop_none_S : forall f k s cur o s1,
  isel s cur = R o s1 cur ->
  cloop (S f) (mkChild k CI_none s) cur =
  match o with
  | None => R None (mkChild 0 CI_none s1) cur
  | Some n => child_pump D test (cloop f) 0 n true s1 cur
  end.
Proof.
  intros f k s cur o s1 E. cbn [iter_loop]. unfold child_body at 1. cbn [c_it c_in]. rewrite E.
  destruct o; reflexivity.
Qed.

Lemma cloop_iter_S : forall f k nd first s cur,
  cloop (S f) (mkChild k (CI_iter nd first) s) cur = child_pump D test (cloop f) k nd first s cur.
Proof. intros. reflexivity. Qed.

Definition child_post (l0 : list item) (f : nat) (st : child_st St) (cur : node)
           (out : list item) : Prop :=
  match out with
  | [] => exists s', cloop f st cur = R None (mkChild 0 CI_none s') cur /\ RepI false s' []
  | it :: r => exists s' nd l',
      cloop f st cur = R (Some (it_node it)) (mkChild (it_pos it) (CI_iter nd false) s') cur /\
      it_lvl it = 0 /\ RepI false s' l' /\ List.length l' <= List.length l0 /\
      r = number_from (S (it_pos it)) 0 (filter test (crest D nd false)) ++ over (lchild D test) l'
  end.

Lemma child_none : forall l f s k b cur, RepI b s l -> OKc b cur -> List.length l < f ->
  child_post l f (mkChild k CI_none s) cur (over (lchild D test) l).
Proof.
  induction l as [|a l IH]; intros f s k b cur HR Hok Hlen; (destruct f as [|f']; [cbn in Hlen; lia|]).
  - cbn [over flat_map child_post]. destruct (Rep_nil_step _ _ _ _ _ _ _ HR Hok) as (s' & E & HR').
    exists s'. rewrite (cloop_none_S _ _ _ _ _ _ E). auto.
  - cbn [Rep] in HR. destruct (HR cur Hok) as (s1 & E & _ & _ & HR1).
    unfold over. cbn [flat_map]. fold (over (lchild D test) l).
    unfold child_post. rewrite (cloop_none_S _ _ _ _ _ _ E).
    pose proof (child_pump_spec (cloop f') 0 (it_node a) true s1 cur) as HP.
    unfold lchild at 1. unfold numbered. change (crest D (it_node a) true) with (children D (it_node a)) in HP.
    destruct (filter test (children D (it_node a))) as [|x L].
    + rewrite HP. cbn [number_from app].
      specialize (IH f' s1 0 false cur HR1 (OK_false c cur) ltac:(cbn in Hlen; lia)). unfold child_post in IH.
      destruct (over (lchild D test) l) as [|it r]; [exact IH|].
      destruct IH as (s' & nd & l' & E' & Hl & HR' & Hlen' & Er).
      exists s', nd, l'. cbn [List.length]. repeat split; auto.
    + destruct HP as (HP & EL). rewrite HP. cbn [number_from app].
      exists s1, x, l. cbn [it_node it_pos it_lvl List.length]. subst L. repeat split; auto.
Qed.

Lemma child_iter : forall l f s k nd first cur, RepI false s l -> S (List.length l) < f ->
  child_post l f (mkChild k (CI_iter nd first) s) cur
             (number_from (S k) 0 (filter test (crest D nd first)) ++ over (lchild D test) l).
Proof.
  intros l f s k nd first cur HR Hlen. destruct f as [|f']; [lia|].
  unfold child_post. rewrite cloop_iter_S.
  pose proof (child_pump_spec (cloop f') k nd first s cur) as HP.
  destruct (filter test (crest D nd first)) as [|x L].
  - rewrite HP. cbn [number_from app]. apply (child_none l f' s k false cur HR (OK_false c cur)). lia.
  - destruct HP as (HP & EL). rewrite HP. cbn [number_from app].
    exists s, x, l. cbn [it_node it_pos it_lvl]. subst L. repeat split; auto.
Qed.

Definition chead (st : child_st St) : list item :=
  match c_it st with
  | CI_none => []
  | CI_iter nd first => number_from (S (c_posit st)) 0 (filter test (crest D nd first))
  end.

(* while the input has not been called yet (b), the iterator is nil *)
Definition ChildInv (b : bool) (st : child_st St) (out : list item) : Prop :=
  exists l, RepI b (c_in st) l /\ (b = true -> c_it st = CI_none) /\
            List.length l + 2 <= F /\ out = chead st ++ over (lchild D test) l.

Lemma child_inv_post : forall b st cur out, ChildInv b st out -> OKc b cur ->
  exists l, List.length l + 2 <= F /\ child_post l F st cur out.
Proof.
  intros b [k it s] cur out (l & HR & Hb & Hlen & ->) Hok. exists l. cbn [c_in c_it c_posit] in *.
  split; [exact Hlen|]. unfold chead. cbn [c_it c_posit].
  destruct it as [|nd first].
  - cbn [app]. apply (child_none l F s k b cur HR Hok). lia.
  - destruct b; [specialize (Hb eq_refl); discriminate|]. apply child_iter; [exact HR|lia].
Qed.

Lemma child_Rep_inv : forall b st out, ChildInv b st out ->
  Rep (child_select D isel test F) c_posit (fun _ => 0) c b st out.
Proof.
  intros b st out HI. revert b st HI. apply (Rep_of_inv _ _ _ _ ChildInv).
  - intros b st cur HI Hok. destruct (child_inv_post _ _ _ _ HI Hok) as (l & Hlen & HP).
    cbn [child_post] in HP. destruct HP as (s' & E & HR').
    eexists. split; [exact E|]. exists []. cbn [c_in c_it]. split; [exact HR'|].
    split; [discriminate|]. split; [cbn; lia|reflexivity].
  - intros b st it r cur HI Hok. destruct (child_inv_post _ _ _ _ HI Hok) as (l & Hlen & HP).
    cbn [child_post] in HP. destruct HP as (s' & nd & l' & E & Hl & HR' & Hlen' & Er).
    eexists. split; [exact E|]. cbn [c_posit]. repeat split; auto.
    exists l'. cbn [c_in]. split; [exact HR'|]. split; [discriminate|]. split; [lia|]. exact Er.
Qed.

Lemma child_Rep : forall l b s k, RepI b s l -> List.length l + 2 <= F ->
  Rep (child_select D isel test F) c_posit (fun _ => 0) c b (mkChild k CI_none s)
      (over (lchild D test) l).
Proof.
  intros l b s k HR Hlen. apply child_Rep_inv. exists l. cbn [c_in c_it]. repeat split; auto.
Qed.

End Combinators.

(* the items of a list of (node, level) pairs *)
Fixpoint number_pairs (k : nat) (L : list (node * nat)) : list item :=
  match L with
  | [] => []
  | (m, lv) :: r => mkItem m k lv :: number_pairs (S k) r
  end.

Lemma number_desc_pairs : forall test cands k base,
  number_desc k base (filter test cands) =
  number_pairs k (ft test (map (fun m => (m, List.length (npath m) - base)) cands)).
Proof.
  intros test. induction cands as [|m r IH]; intros k base; [reflexivity|].
  unfold ft in *. cbn [filter map fst]. destruct (test m); [|apply IH].
  cbn [number_desc number_pairs]. f_equal. apply IH.
Qed.

Lemma ldesc_pairs : forall D test self n,
  ldesc D test self n =
  number_pairs 1 (ft test ((if self then [(n, 0)] else []) ++ dlist D n)).
Proof.
  intros D test self n. unfold ldesc, dlist. rewrite number_desc_pairs. f_equal. f_equal.
  rewrite map_app. f_equal. destruct self; [|reflexivity]. cbn [map]. rewrite Nat.sub_diag. reflexivity.
Qed.

Section Combinators2.
Context {St : Type}.
Variable D : tree.
Variable isel : St -> node -> res St.
Variable ipos ilvl : St -> nat.
Variable c : node.
Variable test : node -> bool.
Variable F : nat.
Notation RepI := (Rep isel ipos ilvl c).
Notation OKc := (OK c).

(** ** attributeQuery *)
Notation aloop := (iter_loop (attr_body D isel test)).

Lemma attr_pump_spec : forall (again : attr_st St -> node -> res (attr_st St)) nd (s : St) cur,
  match filter test (attributes_after D nd) with
  | [] => attr_pump D test again nd s cur = again (mkAttrSt AI_none s) cur
  | x :: L =>
    attr_pump D test again nd s cur = R (Some x) (mkAttrSt (AI_iter x) s) cur /\
    L = filter test (attributes_after D x)
  end.
Proof.
  intros again nd s cur. unfold attr_pump.
  pose proof (attr_iter_run_spec D test (dfuel D) nd (attrs_length D nd)) as H.
  destruct (attr_iter_run D test (dfuel D) nd) as [[[x|] nd']|].
  - destruct H as (-> & E). rewrite E. split; reflexivity.
  - rewrite H. reflexivity.
  - destruct H.
Qed.

Lemma aloop_none_S : forall f s cur o s1,
  isel s cur = R o s1 cur ->
  aloop (S f) (mkAttrSt AI_none s) cur =
  match o with
  | None => R None (mkAttrSt AI_none s1) cur
  | Some n => if ntype_eqb (node_type D n) NTElem then attr_pump D test (aloop f) n s1 cur
              else aloop f (mkAttrSt AI_none s1) cur
  end.
Proof.
  intros f s cur o s1 E. cbn [iter_loop]. unfold attr_body at 1. cbn [a_it a_in]. rewrite E.
  destruct o; reflexivity.
Qed.

Lemma aloop_iter_S : forall f nd s cur,
  aloop (S f) (mkAttrSt (AI_iter nd) s) cur = attr_pump D test (aloop f) nd s cur.
Proof. intros. reflexivity. Qed.

Definition attr_post (l0 : list item) (f : nat) (st : attr_st St) (cur : node) (out : list item) : Prop :=
  match out with
  | [] => exists s', aloop f st cur = R None (mkAttrSt AI_none s') cur /\ RepI false s' []
  | it :: r => exists s' nd l',
      aloop f st cur = R (Some (it_node it)) (mkAttrSt (AI_iter nd) s') cur /\
      it_pos it = 1 /\ it_lvl it = 0 /\ RepI false s' l' /\ List.length l' <= List.length l0 /\
      r = unnumbered (filter test (attributes_after D nd)) ++ over (lattr D test) l'
  end.

Lemma attr_none : forall l f s b cur, RepI b s l -> OKc b cur -> List.length l < f ->
  attr_post l f (mkAttrSt AI_none s) cur (over (lattr D test) l).
Proof.
  induction l as [|a l IH]; intros f s b cur HR Hok Hlen; (destruct f as [|f']; [cbn in Hlen; lia|]).
  - cbn [over flat_map attr_post]. destruct (Rep_nil_step _ _ _ _ _ _ _ HR Hok) as (s' & E & HR').
    exists s'. rewrite (aloop_none_S _ _ _ _ _ E). auto.
  - cbn [Rep] in HR. destruct (HR cur Hok) as (s1 & E & _ & _ & HR1).
    unfold over. cbn [flat_map]. fold (over (lattr D test) l).
    unfold attr_post. rewrite (aloop_none_S _ _ _ _ _ E).
    assert (Hskip :
      match [] ++ over (lattr D test) l with
      | [] => exists s', aloop f' (mkAttrSt AI_none s1) cur = R None (mkAttrSt AI_none s') cur /\ RepI false s' []
      | it :: r => exists s' nd l',
          aloop f' (mkAttrSt AI_none s1) cur = R (Some (it_node it)) (mkAttrSt (AI_iter nd) s') cur /\
          it_pos it = 1 /\ it_lvl it = 0 /\ RepI false s' l' /\ List.length l' <= List.length (a :: l) /\
          r = unnumbered (filter test (attributes_after D nd)) ++ over (lattr D test) l'
      end).
    { cbn [app]. specialize (IH f' s1 false cur HR1 (OK_false c cur) ltac:(cbn in Hlen; lia)).
      unfold attr_post in IH.
      destruct (over (lattr D test) l) as [|it r]; [exact IH|].
      destruct IH as (s' & nd & l' & E' & Hp & Hl & HR' & Hlen' & Er).
      exists s', nd, l'. cbn [List.length]. repeat split; auto. }
    unfold lattr at 1.
    destruct (node_type D (it_node a)) eqn:Ent; cbn [ntype_eqb]; try exact Hskip.
    pose proof (attr_pump_spec (aloop f') (it_node a) s1 cur) as HP.
    destruct (filter test (attributes_after D (it_node a))) as [|x L].
    + rewrite HP. exact Hskip.
    + destruct HP as (HP & EL). rewrite HP. cbn [unnumbered map app].
      exists s1, x, l. cbn [it_node it_pos it_lvl List.length]. subst L. repeat split; auto.
Qed.

Lemma attr_iter : forall l f s nd cur, RepI false s l -> S (List.length l) < f ->
  attr_post l f (mkAttrSt (AI_iter nd) s) cur
            (unnumbered (filter test (attributes_after D nd)) ++ over (lattr D test) l).
Proof.
  intros l f s nd cur HR Hlen. destruct f as [|f']; [lia|].
  unfold attr_post. rewrite aloop_iter_S.
  pose proof (attr_pump_spec (aloop f') nd s cur) as HP.
  destruct (filter test (attributes_after D nd)) as [|x L].
  - rewrite HP. cbn [unnumbered map app]. apply (attr_none l f' s false cur HR (OK_false c cur)). lia.
  - destruct HP as (HP & EL). rewrite HP. cbn [unnumbered map app].
    exists s, x, l. cbn [it_node it_pos it_lvl]. subst L. repeat split; auto.
Qed.

Definition ahead (st : attr_st St) : list item :=
  match a_it st with
  | AI_none => []
  | AI_iter nd => unnumbered (filter test (attributes_after D nd))
  end.

Definition AttrInv (b : bool) (st : attr_st St) (out : list item) : Prop :=
  exists l, RepI b (a_in st) l /\ (b = true -> a_it st = AI_none) /\
            List.length l + 2 <= F /\ out = ahead st ++ over (lattr D test) l.

Lemma attr_inv_post : forall b st cur out, AttrInv b st out -> OKc b cur ->
  exists l, List.length l + 2 <= F /\ attr_post l F st cur out.
Proof.
  intros b [it s] cur out (l & HR & Hb & Hlen & ->) Hok. exists l. cbn [a_in a_it] in *.
  split; [exact Hlen|]. unfold ahead. cbn [a_it].
  destruct it as [|nd].
  - cbn [app]. apply (attr_none l F s b cur HR Hok). lia.
  - destruct b; [specialize (Hb eq_refl); discriminate|]. apply attr_iter; [exact HR|lia].
Qed.

Lemma attr_Rep_inv : forall b st out, AttrInv b st out ->
  Rep (attr_select D isel test F) (fun _ => 1) (fun _ => 0) c b st out.
Proof.
  intros b st out HI. revert b st HI. apply (Rep_of_inv _ _ _ _ AttrInv).
  - intros b st cur HI Hok. destruct (attr_inv_post _ _ _ _ HI Hok) as (l & Hlen & HP).
    cbn [attr_post] in HP. destruct HP as (s' & E & HR').
    eexists. split; [exact E|]. exists []. cbn [a_in a_it]. split; [exact HR'|].
    split; [discriminate|]. split; [cbn; lia|reflexivity].
  - intros b st it r cur HI Hok. destruct (attr_inv_post _ _ _ _ HI Hok) as (l & Hlen & HP).
    cbn [attr_post] in HP. destruct HP as (s' & nd & l' & E & Hp & Hl & HR' & Hlen' & Er).
    eexists. split; [exact E|]. repeat split; auto.
    exists l'. cbn [a_in]. split; [exact HR'|]. split; [discriminate|]. split; [lia|]. exact Er.
Qed.

Lemma attr_Rep : forall l b s, RepI b s l -> List.length l + 2 <= F ->
  Rep (attr_select D isel test F) (fun _ => 1) (fun _ => 0) c b (mkAttrSt AI_none s)
      (over (lattr D test) l).
Proof.
  intros l b s HR Hlen. apply attr_Rep_inv. exists l. cbn [a_in a_it]. repeat split; auto.
Qed.

(** ** descendantQuery *)
Variable self : bool.
Notation dloop := (iter_loop (desc_body D isel self test)).

Lemma desc_pump_spec : forall (again : desc_st St -> node -> res (desc_st St)) k nd first lv (s : St) cur L,
  walks D (nd, lv) L -> List.length L < dfuel D ->
  match ft test ((if andb first self then [(nd, lv)] else []) ++ L) with
  | [] => exists lv', desc_pump D self test again k nd first lv s cur = again (mkDesc DI_none k lv' s) cur
  | (x, lx) :: R_ => exists L2,
      desc_pump D self test again k nd first lv s cur =
      R (Some x) (mkDesc (DI_iter x false) (S k) lx s) cur /\
      R_ = ft test L2 /\ walks D (x, lx) L2 /\ List.length L2 <= List.length L
  end.
Proof.
  intros again k nd first lv s cur L HW Hlen. unfold desc_pump.
  pose proof (desc_iter_run_spec D test self nd first lv L HW Hlen) as H.
  destruct (desc_iter_run D self test nd first lv) as [[[[x|] nd'] lv']|].
  - destruct H as (-> & L2 & E & HW2 & Hl). rewrite E. exists L2. repeat split; auto.
  - rewrite H. exists lv'. reflexivity.
  - destruct H.
Qed.

Lemma dloop_none_S : forall f k lv s cur o s1,
  isel s cur = R o s1 cur ->
  dloop (S f) (mkDesc DI_none k lv s) cur =
  match o with
  | None => R None (mkDesc DI_none 0 lv s1) cur
  | Some n => desc_pump D self test (dloop f) 0 n true 0 s1 cur
  end.
Proof.
  intros f k lv s cur o s1 E. cbn [iter_loop]. unfold desc_body at 1. cbn [d_it d_in d_level]. rewrite E.
  destruct o; reflexivity.
Qed.

Lemma dloop_iter_S : forall f k lv nd first s cur,
  dloop (S f) (mkDesc (DI_iter nd first) k lv s) cur =
  desc_pump D self test (dloop f) k nd first lv s cur.
Proof. intros. reflexivity. Qed.

Definition desc_post (l0 : list item) (f : nat) (st : desc_st St) (cur : node) (out : list item) : Prop :=
  match out with
  | [] => exists s' lv', dloop f st cur = R None (mkDesc DI_none 0 lv' s') cur /\ RepI false s' []
  | it :: r => exists s' nd L l',
      dloop f st cur = R (Some (it_node it)) (mkDesc (DI_iter nd false) (it_pos it) (it_lvl it) s') cur /\
      walks D (nd, it_lvl it) L /\ List.length L < dfuel D /\
      RepI false s' l' /\ List.length l' <= List.length l0 /\
      r = number_pairs (S (it_pos it)) (ft test L) ++ over (ldesc D test self) l'
  end.

Lemma desc_none : forall l f s k lv b cur, RepI b s l -> OKc b cur -> List.length l < f ->
  desc_post l f (mkDesc DI_none k lv s) cur (over (ldesc D test self) l).
Proof.
  induction l as [|a l IH]; intros f s k lv b cur HR Hok Hlen; (destruct f as [|f']; [cbn in Hlen; lia|]).
  - cbn [over flat_map desc_post]. destruct (Rep_nil_step _ _ _ _ _ _ _ HR Hok) as (s' & E & HR').
    exists s', lv. rewrite (dloop_none_S _ _ _ _ _ _ _ E). auto.
  - cbn [Rep] in HR. destruct (HR cur Hok) as (s1 & E & _ & _ & HR1).
    unfold over. cbn [flat_map]. fold (over (ldesc D test self) l).
    unfold desc_post. rewrite (dloop_none_S _ _ _ _ _ _ _ E).
    pose proof (desc_pump_spec (dloop f') 0 (it_node a) true 0 s1 cur (dlist D (it_node a))
                               (walks_base D (it_node a)) (dlist_length D (it_node a))) as HP.
    rewrite ldesc_pairs. cbn [andb] in HP.
    destruct (ft test ((if self then [(it_node a, 0)] else []) ++ dlist D (it_node a))) as [|[x lx] R_].
    + destruct HP as (lv' & HP). rewrite HP. cbn [number_pairs app].
      specialize (IH f' s1 0 lv' false cur HR1 (OK_false c cur) ltac:(cbn in Hlen; lia)).
      unfold desc_post in IH.
      destruct (over (ldesc D test self) l) as [|it r]; [exact IH|].
      destruct IH as (s' & nd & L & l' & E' & HW & HL & HR' & Hlen' & Er).
      exists s', nd, L, l'. cbn [List.length]. repeat split; auto.
    + destruct HP as (L2 & HP & ER & HW2 & Hl2). rewrite HP. cbn [number_pairs app].
      exists s1, x, L2, l. cbn [it_node it_pos it_lvl List.length]. subst R_.
      pose proof (dlist_length D (it_node a)). repeat split; auto. lia.
Qed.

Lemma desc_iter : forall l f s k nd first lv L cur, RepI false s l -> S (List.length l) < f ->
  walks D (nd, lv) L -> List.length L < dfuel D ->
  desc_post l f (mkDesc (DI_iter nd first) k lv s) cur
            (number_pairs (S k) (ft test ((if andb first self then [(nd, lv)] else []) ++ L))
             ++ over (ldesc D test self) l).
Proof.
  intros l f s k nd first lv L cur HR Hlen HW HL. destruct f as [|f']; [lia|].
  unfold desc_post. rewrite dloop_iter_S.
  pose proof (desc_pump_spec (dloop f') k nd first lv s cur L HW HL) as HP.
  destruct (ft test ((if andb first self then [(nd, lv)] else []) ++ L)) as [|[x lx] R_].
  - destruct HP as (lv' & HP). rewrite HP. cbn [number_pairs app].
    apply (desc_none l f' s k lv' false cur HR (OK_false c cur)). lia.
  - destruct HP as (L2 & HP & ER & HW2 & Hl2). rewrite HP. cbn [number_pairs app].
    exists s, x, L2, l. cbn [it_node it_pos it_lvl]. subst R_. repeat split; auto. lia.
Qed.

Definition DescInv (b : bool) (st : desc_st St) (out : list item) : Prop :=
  exists l, RepI b (d_in st) l /\ (b = true -> d_it st = DI_none) /\ List.length l + 2 <= F /\
  exists hd, out = hd ++ over (ldesc D test self) l /\
    match d_it st with
    | DI_none => hd = []
    | DI_iter nd first => exists L,
        walks D (nd, d_level st) L /\ List.length L < dfuel D /\
        hd = number_pairs (S (d_posit st))
                          (ft test ((if andb first self then [(nd, d_level st)] else []) ++ L))
    end.

Lemma desc_inv_post : forall b st cur out, DescInv b st out -> OKc b cur ->
  exists l, List.length l + 2 <= F /\ desc_post l F st cur out.
Proof.
  intros b [it k lv s] cur out (l & HR & Hb & Hlen & hd & -> & Hhd) Hok. exists l.
  cbn [d_in d_it d_level d_posit] in *. split; [exact Hlen|].
  destruct it as [|nd first].
  - subst hd. cbn [app]. apply (desc_none l F s k lv b cur HR Hok). lia.
  - destruct b; [specialize (Hb eq_refl); discriminate|].
    destruct Hhd as (L & HW & HL & ->). apply desc_iter; auto. lia.
Qed.

Lemma desc_Rep_inv : forall b st out, DescInv b st out ->
  Rep (desc_select D isel self test F) d_posit d_level c b st out.
Proof.
  intros b st out HI. revert b st HI. apply (Rep_of_inv _ _ _ _ DescInv).
  - intros b st cur HI Hok. destruct (desc_inv_post _ _ _ _ HI Hok) as (l & Hlen & HP).
    cbn [desc_post] in HP. destruct HP as (s' & lv' & E & HR').
    eexists. split; [exact E|]. exists []. cbn [d_in d_it]. split; [exact HR'|].
    split; [discriminate|]. split; [cbn; lia|]. exists []. split; reflexivity.
  - intros b st it r cur HI Hok. destruct (desc_inv_post _ _ _ _ HI Hok) as (l & Hlen & HP).
    cbn [desc_post] in HP. destruct HP as (s' & nd & L & l' & E & HW & HL & HR' & Hlen' & Er).
    eexists. split; [exact E|]. cbn [d_posit d_level]. repeat split; auto.
    exists l'. cbn [d_in d_it d_level d_posit]. split; [exact HR'|]. split; [discriminate|]. split; [lia|].
    eexists. split; [exact Er|]. exists L. cbn [andb app]. repeat split; auto.
Qed.

Lemma desc_Rep : forall l b s k lv, RepI b s l -> List.length l + 2 <= F ->
  Rep (desc_select D isel self test F) d_posit d_level c b (mkDesc DI_none k lv s)
      (over (ldesc D test self) l).
Proof.
  intros l b s k lv HR Hlen. apply desc_Rep_inv. exists l. cbn [d_in d_it]. repeat split; auto.
  exists []. split; reflexivity.
Qed.

(** ** filterQuery *)
Variable pred : node -> nat -> bool.
Notation floop := (iter_loop (filter_body isel ipos ilvl pred)).

Definition pm_of (o : option (list (nat * nat))) : list (nat * nat) :=
  match o with Some m => m | None => [] end.

Lemma floop_S : forall f k pm s cur o s1,
  isel s cur = R o s1 cur ->
  floop (S f) (mkFilter k pm s) cur =
  match o with
  | None => R None (mkFilter k pm s1) cur
  | Some n =>
    if pred n (ipos s1) then
      R (Some n) (mkFilter (S (pm_get (pm_of pm) (ilvl s1)))
                           (Some (pm_set (pm_of pm) (ilvl s1) (S (pm_get (pm_of pm) (ilvl s1))))) s1) cur
    else floop f (mkFilter k pm s1) cur
  end.
Proof.
  intros f k pm s cur o s1 E. cbn [iter_loop]. unfold filter_body at 1. cbn [f_in f_pm f_posit]. rewrite E.
  destruct o; reflexivity.
Qed.

Lemma filter_loop : forall l f s k pm b cur, RepI b s l -> OKc b cur -> List.length l < f ->
  match lfilter pred l pm with
  | [] => exists s', floop f (mkFilter k (Some pm) s) cur = R None (mkFilter k (Some pm) s') cur /\
                     RepI false s' []
  | it :: r => exists s' pm' l',
      floop f (mkFilter k (Some pm) s) cur =
      R (Some (it_node it)) (mkFilter (it_pos it) (Some pm') s') cur /\
      it_lvl it = 0 /\ RepI false s' l' /\ List.length l' <= List.length l /\ r = lfilter pred l' pm'
  end.
Proof.
  induction l as [|a l IH]; intros f s k pm b cur HR Hok Hlen; (destruct f as [|f']; [cbn in Hlen; lia|]).
  - cbn [lfilter]. destruct (Rep_nil_step _ _ _ _ _ _ _ HR Hok) as (s' & E & HR').
    exists s'. rewrite (floop_S _ _ _ _ _ _ _ E). auto.
  - cbn [Rep] in HR. destruct (HR cur Hok) as (s1 & E & Hp & Hl & HR1).
    cbn [lfilter]. rewrite (floop_S _ _ _ _ _ _ _ E). rewrite Hp, Hl. cbn [pm_of].
    destruct (pred (it_node a) (it_pos a)).
    + eexists s1, _, l. cbn [it_node it_pos it_lvl List.length]. repeat split; auto.
    + specialize (IH f' s1 k pm false cur HR1 (OK_false c cur) ltac:(cbn in Hlen; lia)).
      destruct (lfilter pred l pm) as [|it r]; [exact IH|].
      destruct IH as (s' & pm' & l' & E' & Hl' & HR' & Hlen' & Er).
      exists s', pm', l'. cbn [List.length]. repeat split; auto.
Qed.

Definition FilterInv (b : bool) (st : filter_st St) (out : list item) : Prop :=
  exists l, RepI b (f_in st) l /\ List.length l < F /\ out = lfilter pred l (pm_of (f_pm st)).

Lemma filter_Rep_inv : forall b st out, FilterInv b st out ->
  Rep (filter_select isel ipos ilvl pred F) f_posit (fun _ => 0) c b st out.
Proof.
  intros b st out HI. revert b st HI. apply (Rep_of_inv _ _ _ _ FilterInv).
  - intros b [k pm s] cur (l & HR & Hlen & E0) Hok. cbn [f_in f_pm] in *.
    pose proof (filter_loop l F s k (pm_of pm) b cur HR Hok Hlen) as H. rewrite <- E0 in H.
    destruct H as (s' & E & HR'). eexists. split; [exact E|].
    exists []. cbn [f_in]. split; [exact HR'|]. split; [cbn; lia|reflexivity].
  - intros b [k pm s] it r cur (l & HR & Hlen & E0) Hok. cbn [f_in f_pm] in *.
    pose proof (filter_loop l F s k (pm_of pm) b cur HR Hok Hlen) as H. rewrite <- E0 in H.
    destruct H as (s' & pm' & l' & E & Hl & HR' & Hlen' & Er).
    eexists. split; [exact E|]. cbn [f_posit]. repeat split; auto.
    exists l'. cbn [f_in f_pm pm_of]. split; [exact HR'|]. split; [lia|exact Er].
Qed.

Lemma filter_Rep : forall l b s k, RepI b s l -> List.length l < F ->
  Rep (filter_select isel ipos ilvl pred F) f_posit (fun _ => 0) c b (mkFilter k None s)
      (lfilter pred l []).
Proof.
  intros l b s k HR Hlen. apply filter_Rep_inv. exists l. cbn [f_in f_pm pm_of]. repeat split; auto.
Qed.

End Combinators2.

(* ================================================================== *)
(** * 4. The whole query tree *)

Section Global.
Variable D : tree.
Variable tst : ntest -> node -> bool.

(* the list-level meaning of a configuration (Eval.sel with the test and the
   filter predicate abstract) *)
Fixpoint lsel (q : qconfig) (c : node) : list item :=
  match q with
  | CContext => [mkItem c 1 0]
  | CAbsolute => [mkItem root_node 1 0]
  | CChild t i => over (lchild D (tst t)) (lsel i c)
  | CAttribute t i => over (lattr D (tst t)) (lsel i c)
  | CSelf t i => over (lself (tst t)) (lsel i c)
  | CParent t i => over (lparent (tst t)) (lsel i c)
  | CDescendant self t i => over (ldesc D (tst t) self) (lsel i c)
  | CFilter _ pred i => lfilter pred (lsel i c) []
  end.

(* fuel that suffices for the loops over the input: 2 + the number of nodes
   any input query in the tree delivers *)
Fixpoint need (q : qconfig) (c : node) : nat :=
  match q with
  | CContext | CAbsolute => 0
  | CChild _ i | CAttribute _ i | CSelf _ i | CParent _ i | CDescendant _ _ i | CFilter _ _ i =>
    Nat.max (need i c) (List.length (lsel i c) + 2)
  end.

(* the states Evaluate and Clone produce: iterators nil, counts 0, positmap nil;
   posit and level are arbitrary *)
Fixpoint Reset (q : qconfig) : state_of q -> Prop :=
  match q return state_of q -> Prop with
  | CContext | CAbsolute => fun s => s = 0
  | CChild _ i => fun s => c_it s = CI_none /\ Reset i (c_in s)
  | CAttribute _ i => fun s => a_it s = AI_none /\ Reset i (a_in s)
  | CSelf _ i | CParent _ i => Reset i
  | CDescendant _ _ i => fun s => d_it s = DI_none /\ Reset i (d_in s)
  | CFilter _ _ i => fun s => f_pm s = None /\ Reset i (f_in s)
  end.

Lemma Reset_init : forall q, Reset q (init_q q).
Proof. induction q; cbn [Reset init_q c_it c_in a_it a_in d_it d_in f_pm f_in]; auto. Qed.

Lemma Reset_eval : forall q s, Reset q (eval_q q s).
Proof. induction q; intros s; cbn [Reset eval_q c_it c_in a_it a_in d_it d_in f_pm f_in]; auto. Qed.

Theorem Rep_reset : forall q c F, need q c <= F -> forall s, Reset q s ->
  Rep (sel_q D tst F q) (position_of q) (depth_of q) c true s (lsel q c).
Proof.
  induction q as [| |t i IH|t i IH|t i IH|t i IH|self t i IH|np pred i IH];
    intros c F HF s HR; cbn [need] in HF; cbn [Reset] in HR;
    cbn [sel_q lsel position_of depth_of].
  - subst s. apply ctx_Rep.
  - subst s. apply abs_Rep.
  - destruct s as [k it s]. cbn [c_it c_in] in HR. destruct HR as [-> HR].
    apply (child_Rep D (sel_q D tst F i) (position_of i) (depth_of i)); [apply IH; [lia|exact HR]|lia].
  - destruct s as [it s]. cbn [a_it a_in] in HR. destruct HR as [-> HR].
    apply (attr_Rep D (sel_q D tst F i) (position_of i) (depth_of i)); [apply IH; [lia|exact HR]|lia].
  - apply (self_Rep (sel_q D tst F i) (position_of i) (depth_of i)); [apply IH; [lia|exact HR]|lia].
  - apply (parent_Rep (sel_q D tst F i) (position_of i) (depth_of i)); [apply IH; [lia|exact HR]|lia].
  - destruct s as [it k lv s]. cbn [d_it d_in] in HR. destruct HR as [-> HR].
    apply (desc_Rep D (sel_q D tst F i) (position_of i) (depth_of i)); [apply IH; [lia|exact HR]|lia].
  - destruct s as [k pm s]. cbn [f_pm f_in] in HR. destruct HR as [-> HR].
    apply (filter_Rep (sel_q D tst F i) (position_of i) (depth_of i)); [apply IH; [lia|exact HR]|lia].
Qed.

(* ---- running a query that delivers l ---- *)
(* Select with t.Current() left alone between the calls *)
Lemma run_Rep : forall q F c l b s n,
  Rep (sel_q D tst F q) (position_of q) (depth_of q) c b s l -> List.length l < n ->
  exists s', run D tst F n (existT _ q s) c = (l, E_nil, existT _ q s', c) /\
             Rep (sel_q D tst F q) (position_of q) (depth_of q) c false s' [].
Proof.
  intros q F c. induction l as [|it r IH]; intros b s n HR Hn; (destruct n as [|n]; [cbn in Hn; lia|]).
  - destruct (Rep_nil_step _ _ _ _ _ _ _ HR (OK_c c b)) as (s' & E & HR').
    exists s'. cbn [run]. unfold select1. cbn [projT1 projT2]. rewrite E. split; [reflexivity|exact HR'].
  - cbn [Rep] in HR. destruct (HR c (OK_c c b)) as (s1 & E & Hp & Hl & HR1).
    destruct (IH false s1 n HR1 ltac:(cbn in Hn; lia)) as (s' & Erun & HR').
    exists s'. cbn [run]. unfold select1. cbn [projT1 projT2]. rewrite E, Erun.
    unfold position1, depth1. cbn [projT1 projT2]. rewrite Hp, Hl.
    destruct it; split; [reflexivity|exact HR'].
Qed.

Lemma last_indep : forall (m : list node) y d d', last (y :: m) d = last (y :: m) d'.
Proof.
  induction m as [|z m IH]; intros y d d'; [reflexivity|].
  change (last (z :: m) d = last (z :: m) d'). apply IH.
Qed.
Lemma last_cons : forall (m : list node) x d, last (x :: m) d = last m x.
Proof.
  intros [|y m] x d; [reflexivity|].
  change (last (y :: m) d = last (y :: m) x). apply last_indep.
Qed.

(* NodeIterator.MoveNext: t.Current() moves to every node returned *)
Lemma run_iter_Rep : forall q F c l b s n cur,
  Rep (sel_q D tst F q) (position_of q) (depth_of q) c b s l -> OK c b cur -> List.length l < n ->
  exists s', run_iter D tst F n (existT _ q s) cur =
             (l, E_nil, existT _ q s', last (map it_node l) cur) /\
             Rep (sel_q D tst F q) (position_of q) (depth_of q) c false s' [].
Proof.
  intros q F c. induction l as [|it r IH]; intros b s n cur HR Hok Hn; (destruct n as [|n]; [cbn in Hn; lia|]).
  - destruct (Rep_nil_step _ _ _ _ _ _ _ HR Hok) as (s' & E & HR').
    exists s'. cbn [run_iter]. unfold move_next_it, select1. cbn [projT1 projT2]. rewrite E.
    split; [reflexivity|exact HR'].
  - cbn [Rep] in HR. destruct (HR cur Hok) as (s1 & E & Hp & Hl & HR1).
    destruct (IH false s1 n (it_node it) HR1 (OK_false c _) ltac:(cbn in Hn; lia)) as (s' & Erun & HR').
    exists s'. cbn [run_iter]. unfold move_next_it, select1. cbn [projT1 projT2]. rewrite E, Erun.
    unfold position1, depth1. cbn [projT1 projT2]. rewrite Hp, Hl.
    split; [|exact HR']. destruct it as [x p lv]. cbn [it_node map]. rewrite last_cons. reflexivity.
Qed.

(** ** REFINEMENT at the level of configurations *)
Theorem drain_items_lsel : forall q c F n,
  need q c <= F -> List.length (lsel q c) < n ->
  drain_items D tst F n (fresh q) c = lsel q c.
Proof.
  intros q c F n HF Hn. unfold drain_items, fresh.
  destruct (run_Rep q F c (lsel q c) true (init_q q) n (Rep_reset q c F HF _ (Reset_init q)) Hn)
    as (s' & E & _).
  rewrite E. reflexivity.
Qed.

(* the same when the driver is NodeIterator.MoveNext, which moves t.Current()
   to each result: only the first Select call looks at t.Current() *)
Theorem iterate_items_lsel : forall q c F n,
  need q c <= F -> List.length (lsel q c) < n ->
  iterate_items D tst F n (fresh q) c = lsel q c.
Proof.
  intros q c F n HF Hn. unfold iterate_items, fresh.
  destruct (run_iter_Rep q F c (lsel q c) true (init_q q) n c
                         (Rep_reset q c F HF _ (Reset_init q)) (OK_c c true) Hn) as (s' & E & _).
  rewrite E. reflexivity.
Qed.

(* a drain ends with nil (never Stuck, never cut short), leaves t.Current()
   where it was, and leaves the query exhausted *)
Theorem run_fresh : forall q c F n,
  need q c <= F -> List.length (lsel q c) < n ->
  exists st', run D tst F n (fresh q) c = (lsel q c, E_nil, st', c) /\
              config_of st' = q /\
              forall k, 0 < k -> run D tst F k st' c = ([], E_nil, snd (fst (run D tst F k st' c)), c).
Proof.
  intros q c F n HF Hn. unfold fresh.
  destruct (run_Rep q F c (lsel q c) true (init_q q) n (Rep_reset q c F HF _ (Reset_init q)) Hn)
    as (s' & E & HR').
  exists (existT _ q s'). split; [exact E|]. split; [reflexivity|].
  intros k Hk. destruct (run_Rep q F c [] false s' k HR' Hk) as (s'' & E'' & _). rewrite E''. reflexivity.
Qed.

Theorem run_iter_fresh : forall q c F n,
  need q c <= F -> List.length (lsel q c) < n ->
  exists st', run_iter D tst F n (fresh q) c =
              (lsel q c, E_nil, st', last (map it_node (lsel q c)) c) /\ config_of st' = q.
Proof.
  intros q c F n HF Hn. unfold fresh.
  destruct (run_iter_Rep q F c (lsel q c) true (init_q q) n c
                         (Rep_reset q c F HF _ (Reset_init q)) (OK_c c true) Hn) as (s' & E & _).
  exists (existT _ q s'). split; [exact E|reflexivity].
Qed.

(** ** (b) Evaluate resets: for EVERY state, reachable or not *)
Theorem evaluate_resets : forall (st : qstate) c F n,
  need (config_of st) c <= F -> List.length (lsel (config_of st) c) < n ->
  drain_items D tst F n (evaluate1 st) c = drain_items D tst F n (fresh (config_of st)) c.
Proof.
  intros [q s] c F n HF Hn. cbn [config_of projT1] in *.
  rewrite (drain_items_lsel q c F n HF Hn). unfold drain_items, evaluate1. cbn [projT1 projT2].
  destruct (run_Rep q F c (lsel q c) true (eval_q q s) n (Rep_reset q c F HF _ (Reset_eval q s)) Hn)
    as (s' & E & _).
  rewrite E. reflexivity.
Qed.

(** ** (c) Clone forgets *)
Theorem clone_forgets : forall st : qstate, clone1 st = fresh (clone_cfg (config_of st)).
Proof.
  intros [q s]. unfold clone1, config_of, fresh. cbn [projT1 projT2]. revert s.
  induction q as [| |t i IH|t i IH|t i IH|t i IH|self t i IH|np pred i IH]; intros s;
    cbn [clone_q clone_cfg init_q]; try reflexivity; rewrite IH; reflexivity.
Qed.

(* NoPosition is the only thing Clone changes, and it has no effect *)
Fixpoint nopos_free (q : qconfig) : Prop :=
  match q with
  | CContext | CAbsolute => True
  | CChild _ i | CAttribute _ i | CSelf _ i | CParent _ i | CDescendant _ _ i => nopos_free i
  | CFilter np _ i => np = false /\ nopos_free i
  end.

Lemma clone_cfg_id : forall q, nopos_free q -> clone_cfg q = q.
Proof.
  induction q; cbn [nopos_free clone_cfg]; intros H; try reflexivity;
    try (rewrite IHq by exact H; reflexivity).
  destruct H as [-> H]. rewrite IHq by exact H. reflexivity.
Qed.

Lemma lsel_clone_cfg : forall q c, lsel (clone_cfg q) c = lsel q c.
Proof. induction q; intros c; cbn [clone_cfg lsel]; try rewrite IHq; reflexivity. Qed.

Lemma need_clone_cfg : forall q c, need (clone_cfg q) c = need q c.
Proof. induction q; intros c; cbn [clone_cfg need]; try rewrite IHq, lsel_clone_cfg; reflexivity. Qed.

Corollary clone_same_results : forall (st : qstate) c F n,
  need (config_of st) c <= F -> List.length (lsel (config_of st) c) < n ->
  drain_items D tst F n (clone1 st) c = drain_items D tst F n (fresh (config_of st)) c.
Proof.
  intros st c F n HF Hn. rewrite clone_forgets.
  rewrite !drain_items_lsel; try assumption.
  - apply lsel_clone_cfg.
  - rewrite need_clone_cfg. exact HF.
  - rewrite lsel_clone_cfg. exact Hn.
Qed.

End Global.

(* ================================================================== *)
(** * 5. Protocol facts for ARBITRARY states (not only reachable ones):
      t.Current() is left where it was, and nil is final *)

Section Protocol.
Context {St : Type}.
Variable D : tree.
Variable isel : St -> node -> res St.
Variable DeadI : St -> Prop.

(* a call leaves t.Current() alone, and a call that returns nil leaves a dead state *)
Definition Good {X} (sel : X -> node -> res X) (Dead : X -> Prop) : Prop :=
  forall s cur o s' cur', sel s cur = R o s' cur' -> cur' = cur /\ (o = None -> Dead s').
(* a dead state answers nil and stays dead *)
Definition Stable {X} (sel : X -> node -> res X) (Dead : X -> Prop) : Prop :=
  forall s cur, Dead s -> exists s', sel s cur = R None s' cur /\ Dead s'.

Hypothesis HG : Good isel DeadI.
Variable test : node -> bool.
Variable F : nat.

Lemma self_good : Good (self_select isel test F) DeadI.
Proof.
  unfold self_select. induction F as [|f IH]; intros s cur o s' cur' E; cbn [iter_loop] in E; [discriminate|].
  unfold self_body at 1 in E. destruct (isel s cur) as [o1 s1 cur1|] eqn:Ei; [|discriminate].
  destruct (HG _ _ _ _ _ Ei) as [-> Hd]. destruct o1 as [n|].
  - destruct (test n).
    + inversion E; subst. split; [reflexivity|discriminate].
    + apply IH in E. exact E.
  - inversion E; subst. split; [reflexivity|]. intros _. apply Hd. reflexivity.
Qed.

Lemma parent_good : Good (parent_select isel test F) DeadI.
Proof.
  unfold parent_select. induction F as [|f IH]; intros s cur o s' cur' E; cbn [iter_loop] in E; [discriminate|].
  unfold parent_body at 1 in E. destruct (isel s cur) as [o1 s1 cur1|] eqn:Ei; [|discriminate].
  destruct (HG _ _ _ _ _ Ei) as [-> Hd]. destruct o1 as [n|].
  - destruct (move_parent n) as [p|]; [destruct (test p)|].
    + inversion E; subst. split; [reflexivity|discriminate].
    + apply IH in E. exact E.
    + apply IH in E. exact E.
  - inversion E; subst. split; [reflexivity|]. intros _. apply Hd. reflexivity.
Qed.

Definition DeadC (st : child_st St) : Prop := c_it st = CI_none /\ DeadI (c_in st).

Lemma child_good : Good (child_select D isel test F) DeadC.
Proof.
  unfold child_select. induction F as [|f IH]; intros st cur o st' cur' E; cbn [iter_loop] in E; [discriminate|].
  assert (Hpump : forall k nd first s cur1,
             child_pump D test (iter_loop (child_body D isel test) f) k nd first s cur1 = R o st' cur' ->
             cur' = cur1 /\ (o = None -> DeadC st')).
  { intros k nd first s cur1 Ep. unfold child_pump in Ep.
    destruct (child_iter_run D test (dfuel D) nd first) as [[[[x|] nd'] f']|]; [| |discriminate].
    - inversion Ep; subst. split; [reflexivity|discriminate].
    - apply IH in Ep. exact Ep. }
  unfold child_body at 1 in E. destruct (c_it st) as [|nd first].
  - destruct (isel (c_in st) cur) as [o1 s1 cur1|] eqn:Ei; [|discriminate].
    destruct (HG _ _ _ _ _ Ei) as [-> Hd]. destruct o1 as [n|].
    + apply Hpump in E. exact E.
    + inversion E; subst. split; [reflexivity|]. intros _. split; [reflexivity|]. apply Hd. reflexivity.
  - apply Hpump in E. exact E.
Qed.

Definition DeadA (st : attr_st St) : Prop := a_it st = AI_none /\ DeadI (a_in st).

Lemma attr_good : Good (attr_select D isel test F) DeadA.
Proof.
  unfold attr_select. induction F as [|f IH]; intros st cur o st' cur' E; cbn [iter_loop] in E; [discriminate|].
  assert (Hpump : forall nd s cur1,
             attr_pump D test (iter_loop (attr_body D isel test) f) nd s cur1 = R o st' cur' ->
             cur' = cur1 /\ (o = None -> DeadA st')).
  { intros nd s cur1 Ep. unfold attr_pump in Ep.
    destruct (attr_iter_run D test (dfuel D) nd) as [[[x|] nd']|]; [| |discriminate].
    - inversion Ep; subst. split; [reflexivity|discriminate].
    - apply IH in Ep. exact Ep. }
  unfold attr_body at 1 in E. destruct (a_it st) as [|nd].
  - destruct (isel (a_in st) cur) as [o1 s1 cur1|] eqn:Ei; [|discriminate].
    destruct (HG _ _ _ _ _ Ei) as [-> Hd]. destruct o1 as [n|].
    + destruct (ntype_eqb (node_type D n) NTElem).
      * apply Hpump in E. exact E.
      * apply IH in E. exact E.
    + inversion E; subst. split; [reflexivity|]. intros _. split; [reflexivity|]. apply Hd. reflexivity.
  - apply Hpump in E. exact E.
Qed.

Definition DeadD (st : desc_st St) : Prop := d_it st = DI_none /\ DeadI (d_in st).

Lemma desc_good : forall self, Good (desc_select D isel self test F) DeadD.
Proof.
  intros self.
  unfold desc_select. induction F as [|f IH]; intros st cur o st' cur' E; cbn [iter_loop] in E; [discriminate|].
  assert (Hpump : forall k nd first lv s cur1,
             desc_pump D self test (iter_loop (desc_body D isel self test) f) k nd first lv s cur1 = R o st' cur' ->
             cur' = cur1 /\ (o = None -> DeadD st')).
  { intros k nd first lv s cur1 Ep. unfold desc_pump in Ep.
    destruct (desc_iter_run D self test nd first lv) as [[[[x|] nd'] lv']|]; [| |discriminate].
    - inversion Ep; subst. split; [reflexivity|discriminate].
    - apply IH in Ep. exact Ep. }
  unfold desc_body at 1 in E. destruct (d_it st) as [|nd first].
  - destruct (isel (d_in st) cur) as [o1 s1 cur1|] eqn:Ei; [|discriminate].
    destruct (HG _ _ _ _ _ Ei) as [-> Hd]. destruct o1 as [n|].
    + apply Hpump in E. exact E.
    + inversion E; subst. split; [reflexivity|]. intros _. split; [reflexivity|]. apply Hd. reflexivity.
  - apply Hpump in E. exact E.
Qed.

Definition DeadF (st : filter_st St) : Prop := DeadI (f_in st).

Lemma filter_good : forall ipos ilvl pred, Good (filter_select isel ipos ilvl pred F) DeadF.
Proof.
  intros ipos ilvl pred. unfold filter_select.
  assert (H : forall f st cur o st' cur',
             iter_loop (filter_body isel ipos ilvl pred) f st cur = R o st' cur' ->
             cur' = cur /\ (o = None -> DeadF st')).
  { induction f as [|f IH]; intros st cur o st' cur' E; cbn [iter_loop] in E; [discriminate|].
    unfold filter_body at 1 in E. destruct (isel (f_in st) cur) as [o1 s1 cur1|] eqn:Ei; [|discriminate].
    destruct (HG _ _ _ _ _ Ei) as [-> Hd]. destruct o1 as [n|].
    - destruct (pred n (ipos s1)).
      + inversion E; subst. split; [reflexivity|discriminate].
      + apply IH in E. exact E.
    - inversion E; subst. split; [reflexivity|]. intros _. apply Hd. reflexivity. }
  intros st cur o st' cur' E. apply H in E. exact E.
Qed.

(* ---- nil is final ---- *)
Hypothesis HS : Stable isel DeadI.
Hypothesis HF : 1 <= F.

Lemma self_stable : Stable (self_select isel test F) DeadI.
Proof.
  intros s cur Hd. unfold self_select. destruct F as [|f]; [lia|]. cbn [iter_loop].
  unfold self_body at 1. destruct (HS s cur Hd) as (s' & E & Hd'). rewrite E. eauto.
Qed.

Lemma parent_stable : Stable (parent_select isel test F) DeadI.
Proof.
  intros s cur Hd. unfold parent_select. destruct F as [|f]; [lia|]. cbn [iter_loop].
  unfold parent_body at 1. destruct (HS s cur Hd) as (s' & E & Hd'). rewrite E. eauto.
Qed.

Lemma child_stable : Stable (child_select D isel test F) DeadC.
Proof.
  intros [k it s] cur [Hit Hd]. cbn [c_it c_in] in *. subst it.
  unfold child_select. destruct F as [|f]; [lia|]. cbn [iter_loop].
  unfold child_body at 1. cbn [c_it c_in]. destruct (HS s cur Hd) as (s' & E & Hd'). rewrite E.
  eexists. split; [reflexivity|]. split; [reflexivity|exact Hd'].
Qed.

Lemma attr_stable : Stable (attr_select D isel test F) DeadA.
Proof.
  intros [it s] cur [Hit Hd]. cbn [a_it a_in] in *. subst it.
  unfold attr_select. destruct F as [|f]; [lia|]. cbn [iter_loop].
  unfold attr_body at 1. cbn [a_it a_in]. destruct (HS s cur Hd) as (s' & E & Hd'). rewrite E.
  eexists. split; [reflexivity|]. split; [reflexivity|exact Hd'].
Qed.

Lemma desc_stable : forall self, Stable (desc_select D isel self test F) DeadD.
Proof.
  intros self [it k lv s] cur [Hit Hd]. cbn [d_it d_in] in *. subst it.
  unfold desc_select. destruct F as [|f]; [lia|]. cbn [iter_loop].
  unfold desc_body at 1. cbn [d_it d_in d_level]. destruct (HS s cur Hd) as (s' & E & Hd'). rewrite E.
  eexists. split; [reflexivity|]. split; [reflexivity|exact Hd'].
Qed.

Lemma filter_stable : forall ipos ilvl pred, Stable (filter_select isel ipos ilvl pred F) DeadF.
Proof.
  intros ipos ilvl pred [k pm s] cur Hd. unfold DeadF in *. cbn [f_in] in *.
  unfold filter_select. destruct F as [|f]; [lia|]. cbn [iter_loop].
  unfold filter_body at 1. cbn [f_in f_pm f_posit]. destruct (HS s cur Hd) as (s' & E & Hd'). rewrite E.
  eexists. split; [reflexivity|]. exact Hd'.
Qed.

End Protocol.

Section ProtocolGlobal.
Variable D : tree.
Variable tst : ntest -> node -> bool.

Fixpoint Dead (q : qconfig) : state_of q -> Prop :=
  match q return state_of q -> Prop with
  | CContext | CAbsolute => fun s => 0 < s
  | CChild _ i => DeadC (Dead i)
  | CAttribute _ i => DeadA (Dead i)
  | CSelf _ i | CParent _ i => Dead i
  | CDescendant _ _ i => DeadD (Dead i)
  | CFilter _ _ i => DeadF (Dead i)
  end.

Lemma sel_q_good : forall F q, Good (sel_q D tst F q) (Dead q).
Proof.
  intros F. induction q as [| |t i IH|t i IH|t i IH|t i IH|self t i IH|np pred i IH]; cbn [sel_q Dead].
  - intros s cur o s' cur' E. unfold ctx_select in E. destruct (Nat.ltb_spec 0 s); inversion E; subst.
    + split; [reflexivity|]. intros _. assumption.
    + split; [reflexivity|discriminate].
  - intros s cur o s' cur' E. unfold abs_select in E. destruct (Nat.ltb_spec 0 s); inversion E; subst.
    + split; [reflexivity|]. intros _. assumption.
    + split; [reflexivity|discriminate].
  - apply child_good. exact IH.
  - apply attr_good. exact IH.
  - apply self_good. exact IH.
  - apply parent_good. exact IH.
  - apply desc_good. exact IH.
  - apply filter_good. exact IH.
Qed.

Lemma sel_q_stable : forall F q, 1 <= F -> Stable (sel_q D tst F q) (Dead q).
Proof.
  intros F q HF. induction q as [| |t i IH|t i IH|t i IH|t i IH|self t i IH|np pred i IH]; cbn [sel_q Dead].
  - intros s cur Hd. exists s. unfold ctx_select. destruct (Nat.ltb_spec 0 s); [auto|lia].
  - intros s cur Hd. exists s. unfold abs_select. destruct (Nat.ltb_spec 0 s); [auto|lia].
  - apply child_stable; assumption.
  - apply attr_stable; assumption.
  - apply self_stable; assumption.
  - apply parent_stable; assumption.
  - apply desc_stable; assumption.
  - apply filter_stable; assumption.
Qed.

(** ** (d) t.Current() after a Select call is what it was before the call.
    For filterQuery this is the effect of the repair
    (root := t.Current().Copy(); MoveTo(node); ...; MoveTo(root)); all other
    query types only ever touch copies. *)
Theorem context_preserved : forall F (st : qstate) cur o st' cur',
  select1 D tst F st cur = R o st' cur' -> cur' = cur /\ config_of st' = config_of st.
Proof.
  intros F [q s] cur o st' cur' E. unfold select1 in E. cbn [projT1 projT2] in E.
  destruct (sel_q D tst F q s cur) as [o1 s1 cur1|] eqn:Es; [|discriminate].
  inversion E; subst. split; [|reflexivity].
  apply (sel_q_good F q) in Es. apply Es.
Qed.

(** ** (a) once Select has returned nil it returns nil for ever (any state,
    any t.Current() at the later calls) *)
Theorem exhausted_stable : forall F (st : qstate) cur st' cur',
  1 <= F -> select1 D tst F st cur = R None st' cur' ->
  forall cur2, exists st'', select1 D tst F st' cur2 = R None st'' cur2.
Proof.
  intros F [q s] cur st' cur' HF E cur2. unfold select1 in E. cbn [projT1 projT2] in E.
  destruct (sel_q D tst F q s cur) as [o1 s1 cur1|] eqn:Es; [|discriminate].
  inversion E; subst. apply (sel_q_good F q) in Es. destruct Es as [_ Hd]. specialize (Hd eq_refl).
  destruct (sel_q_stable F q HF s1 cur2 Hd) as (s2 & E2 & _).
  exists (existT _ q s2). unfold select1. cbn [projT1 projT2]. rewrite E2. reflexivity.
Qed.

Theorem exhausted_forever : forall F (st : qstate) cur st' cur',
  1 <= F -> select1 D tst F st cur = R None st' cur' ->
  forall n cur2, 0 < n -> fst (fst (run D tst F n st' cur2)) = ([], E_nil).
Proof.
  intros F [q s] cur st' cur' HF E n cur2 Hn. unfold select1 in E. cbn [projT1 projT2] in E.
  destruct (sel_q D tst F q s cur) as [o1 s1 cur1|] eqn:Es; [|discriminate].
  inversion E; subst. apply (sel_q_good F q) in Es. destruct Es as [_ Hd]. specialize (Hd eq_refl).
  destruct n as [|n]; [lia|]. cbn [run]. unfold select1. cbn [projT1 projT2].
  destruct (sel_q_stable F q HF s1 cur2 Hd) as (s2 & E2 & _). rewrite E2. reflexivity.
Qed.

End ProtocolGlobal.

(* ================================================================== *)
(** * 6. A fuel that always suffices, computed from the document size and the query *)

Section FuelBound.
Variable D : tree.
Variable tst : ntest -> node -> bool.

Lemma number_from_length : forall l k lvl, List.length (number_from k lvl l) = List.length l.
Proof. induction l; intros; cbn [number_from List.length]; auto. Qed.
Lemma number_desc_length : forall l k b, List.length (number_desc k b l) = List.length l.
Proof. induction l; intros; cbn [number_desc List.length]; auto. Qed.
Lemma filter_length_le : forall {A} (p : A -> bool) l, List.length (filter p l) <= List.length l.
Proof. induction l as [|x l IH]; cbn [filter List.length]; [lia|]. destruct (p x); cbn [List.length]; lia. Qed.

Lemma lchild_length : forall test n, List.length (lchild D test n) <= tsize D.
Proof.
  intros test n. unfold lchild, numbered. rewrite number_from_length.
  pose proof (filter_length_le test (children D n)).
  pose proof (crest_length D n true) as H1. cbn [crest] in H1. unfold dfuel in H1. lia.
Qed.

Lemma lattr_length : forall test n, List.length (lattr D test n) <= tsize D.
Proof.
  intros test n. unfold lattr. destruct (node_type D n); cbn [List.length]; try lia.
  unfold unnumbered. rewrite map_length.
  pose proof (filter_length_le test (attributes_after D n)).
  pose proof (attrs_length D n) as H1. unfold dfuel in H1. lia.
Qed.

Lemma descendants_length : forall n, List.length (descendants D n) < tsize D.
Proof.
  intros n. pose proof (tsize_pos D). unfold descendants.
  destruct (nattr n); [cbn; lia|]. unfold node_tree.
  destruct (subtree D (npath n)) as [s|] eqn:Es; [|cbn; lia].
  rewrite map_length. pose proof (below_length s). pose proof (tsize_subtree _ _ _ Es). lia.
Qed.

Lemma ldesc_length : forall test self n, List.length (ldesc D test self n) <= tsize D.
Proof.
  intros test self n. unfold ldesc. rewrite number_desc_length.
  pose proof (filter_length_le test ((if self then [n] else []) ++ descendants D n)) as H0.
  rewrite app_length in H0.
  pose proof (descendants_length n) as H1.
  destruct self; cbn [List.length] in H0; lia.
Qed.

Lemma lself_length : forall test n, List.length (lself test n) <= 1.
Proof. intros test n. unfold lself. destruct (test n); cbn; lia. Qed.
Lemma lparent_length : forall test n, List.length (lparent test n) <= 1.
Proof. intros test n. unfold lparent. destruct (move_parent n) as [p|]; [destruct (test p)|]; cbn; lia. Qed.

Lemma over_length : forall f N l, (forall n, List.length (f n) <= N) ->
  List.length (over f l) <= N * List.length l.
Proof.
  intros f N l H. unfold over. induction l as [|a l IH]; cbn [flat_map List.length]; [lia|].
  rewrite app_length. specialize (H (it_node a)). lia.
Qed.

Lemma lfilter_length : forall pred l pm, List.length (lfilter pred l pm) <= List.length l.
Proof.
  intros pred. induction l as [|a l IH]; intros pm; cbn [lfilter List.length]; [lia|].
  destruct (pred (it_node a) (it_pos a)); cbn [List.length].
  - specialize (IH (pm_set pm (it_lvl a) (S (pm_get pm (it_lvl a))))). lia.
  - specialize (IH pm). lia.
Qed.

(* an upper bound on the number of nodes a query delivers *)
Fixpoint out_bound (q : qconfig) : nat :=
  match q with
  | CContext | CAbsolute => 1
  | CChild _ i | CAttribute _ i | CDescendant _ _ i => tsize D * out_bound i
  | CSelf _ i | CParent _ i | CFilter _ _ i => out_bound i
  end.

Definition fuel_for (q : qconfig) : nat := out_bound q + 2.

Lemma lsel_length : forall q c, List.length (lsel D tst q c) <= out_bound q.
Proof.
  induction q as [| |t i IH|t i IH|t i IH|t i IH|self t i IH|np pred i IH]; intros c;
    cbn [lsel out_bound]; try (cbn; lia); specialize (IH c).
  - pose proof (over_length _ _ (lsel D tst i c) (lchild_length (tst t))). nia.
  - pose proof (over_length _ _ (lsel D tst i c) (lattr_length (tst t))). nia.
  - pose proof (over_length _ _ (lsel D tst i c) (lself_length (tst t))). lia.
  - pose proof (over_length _ _ (lsel D tst i c) (lparent_length (tst t))). lia.
  - pose proof (over_length _ _ (lsel D tst i c) (ldesc_length (tst t) self)). nia.
  - pose proof (lfilter_length pred (lsel D tst i c) []). lia.
Qed.

Lemma need_fuel_for : forall q c, need D tst q c <= fuel_for q.
Proof.
  unfold fuel_for. pose proof (tsize_pos D) as HD.
  induction q as [| |t i IH|t i IH|t i IH|t i IH|self t i IH|np pred i IH]; intros c;
    cbn [need out_bound]; try lia; specialize (IH c); pose proof (lsel_length i c); nia.
Qed.

End FuelBound.

(* ================================================================== *)
(** * 7. M1 refines the list-level model Eval.sel *)

From XP.Proofs Require Import Filter.

Section Link.
Variable D : tree.
Variable has_ns : bool.
Variable hc : node -> N.
Variable rm : string -> string -> option bool.
Variable rn : string -> nat.
Variable rr : string -> string -> string -> string.
Notation SEL := (sel D has_ns hc rm rn rr).
Notation EVAL := (eval D has_ns hc rm rn rr).
Notation MT := (match_test D has_ns).

(* which Ast.query a configuration stands for.  A filter with the abstract
   predicate pred stands for  i[p]  whenever pred agrees with filterQuery.do
   on p, i.e. with truth_of_filter of p's value *)
Inductive corr : qconfig -> query -> Prop :=
| corr_ctx : corr CContext QContext
| corr_abs : corr CAbsolute QAbsolute
| corr_child : forall t i I, corr i I -> corr (CChild t i) (QChild t I)
| corr_attr : forall t i I, corr i I -> corr (CAttribute t i) (QAttribute t I)
| corr_self : forall t i I, corr i I -> corr (CSelf t i) (QSelf t I)
| corr_parent : forall t i I, corr i I -> corr (CParent t i) (QParent t I)
| corr_desc : forall self t i I, corr i I -> corr (CDescendant self t i) (QDescendant self t I)
| corr_filter : forall np pred i I P, corr i I ->
    (forall n v pos, EVAL P n = Val v -> pred n pos = truth_of_filter v pos) ->
    corr (CFilter np pred i) (QFilter np I P).

(* the filter-free configurations are queries *)
Fixpoint to_query (q : qconfig) : option query :=
  match q with
  | CContext => Some QContext
  | CAbsolute => Some QAbsolute
  | CChild t i => option_map (QChild t) (to_query i)
  | CAttribute t i => option_map (QAttribute t) (to_query i)
  | CSelf t i => option_map (QSelf t) (to_query i)
  | CParent t i => option_map (QParent t) (to_query i)
  | CDescendant self t i => option_map (QDescendant self t) (to_query i)
  | CFilter _ _ _ => None
  end.

(* ... and a filter whose predicate is the query p *)
Definition pred_of (p : query) : node -> nat -> bool :=
  fun n pos => match EVAL p n with Val v => truth_of_filter v pos | _ => false end.

Lemma to_query_corr : forall q Q, to_query q = Some Q -> corr q Q.
Proof.
  induction q; intros Q E; cbn [to_query] in E; try discriminate;
    try (inversion E; subst; constructor);
    destruct (to_query q) as [I|]; cbn [option_map] in E; try discriminate;
    inversion E; subst; constructor; apply IHq; reflexivity.
Qed.

Lemma corr_pred_of : forall np i I P, corr i I -> corr (CFilter np (pred_of P) i) (QFilter np I P).
Proof.
  intros np i I P H. constructor; [exact H|]. intros n v pos E. unfold pred_of. rewrite E. reflexivity.
Qed.

Lemma lfilter_filter_go : forall pred P,
  (forall n v pos, EVAL P n = Val v -> pred n pos = truth_of_filter v pos) ->
  forall l pm r, filter_go D has_ns hc rm rn rr P l pm = Val r -> lfilter pred l pm = r.
Proof.
  intros pred P HP. induction l as [|it l IH]; intros pm r H.
  - cbn in H. inversion H. reflexivity.
  - rewrite filter_go_cons in H. apply obind_val_inv' in H. destruct H as (v & Ev & H).
    cbn [lfilter]. rewrite (HP _ _ (it_pos it) Ev).
    destruct (truth_of_filter v (it_pos it)).
    + apply obind_val_inv' in H. destruct H as (rest & Hr & H). inversion H; subst.
      f_equal. apply IH. exact Hr.
    + apply IH. exact H.
Qed.

Theorem lsel_sel : forall q Q, corr q Q -> forall c l, SEL Q c = Val l -> lsel D MT q c = l.
Proof.
  intros q Q H. induction H as [| |t i I H IH|t i I H IH|t i I H IH|t i I H IH|self t i I H IH|np pred i I P H IH HP];
    intros c l E.
  - cbn in E. inversion E. reflexivity.
  - cbn in E. inversion E. reflexivity.
  - change (SEL (QChild t I) c) with (do l0 <- SEL I c; Val (over (lchild D (MT t)) l0)) in E.
    apply obind_val_inv' in E. destruct E as (l0 & E0 & E). inversion E; subst.
    cbn [lsel]. rewrite (IH c l0 E0). reflexivity.
  - change (SEL (QAttribute t I) c) with (do l0 <- SEL I c; Val (over (lattr D (MT t)) l0)) in E.
    apply obind_val_inv' in E. destruct E as (l0 & E0 & E). inversion E; subst.
    cbn [lsel]. rewrite (IH c l0 E0). reflexivity.
  - change (SEL (QSelf t I) c) with (do l0 <- SEL I c; Val (over (lself (MT t)) l0)) in E.
    apply obind_val_inv' in E. destruct E as (l0 & E0 & E). inversion E; subst.
    cbn [lsel]. rewrite (IH c l0 E0). reflexivity.
  - change (SEL (QParent t I) c) with (do l0 <- SEL I c; Val (over (lparent (MT t)) l0)) in E.
    apply obind_val_inv' in E. destruct E as (l0 & E0 & E). inversion E; subst.
    cbn [lsel]. rewrite (IH c l0 E0). reflexivity.
  - change (SEL (QDescendant self t I) c) with (do l0 <- SEL I c; Val (over (ldesc D (MT t) self) l0)) in E.
    apply obind_val_inv' in E. destruct E as (l0 & E0 & E). inversion E; subst.
    cbn [lsel]. rewrite (IH c l0 E0). reflexivity.
  - rewrite sel_filter in E. apply obind_val_inv' in E. destruct E as (l0 & E0 & E).
    cbn [lsel]. rewrite (IH c l0 E0). eapply lfilter_filter_go; eassumption.
Qed.

(* filter-free queries never fail at the list level *)
Theorem sel_to_query : forall q Q c, to_query q = Some Q -> SEL Q c = Val (lsel D MT q c).
Proof.
  induction q; intros Q c E; cbn [to_query] in E; try discriminate;
    try (inversion E; subst; reflexivity);
    destruct (to_query q) as [I|] eqn:EI; cbn [option_map] in E; try discriminate;
    inversion E; subst; cbn [lsel].
  - change (SEL (QChild t I) c) with (do l0 <- SEL I c; Val (over (lchild D (MT t)) l0)).
    rewrite (IHq I c eq_refl). reflexivity.
  - change (SEL (QAttribute t I) c) with (do l0 <- SEL I c; Val (over (lattr D (MT t)) l0)).
    rewrite (IHq I c eq_refl). reflexivity.
  - change (SEL (QSelf t I) c) with (do l0 <- SEL I c; Val (over (lself (MT t)) l0)).
    rewrite (IHq I c eq_refl). reflexivity.
  - change (SEL (QParent t I) c) with (do l0 <- SEL I c; Val (over (lparent (MT t)) l0)).
    rewrite (IHq I c eq_refl). reflexivity.
  - change (SEL (QDescendant self t I) c) with (do l0 <- SEL I c; Val (over (ldesc D (MT t) self) l0)).
    rewrite (IHq I c eq_refl). reflexivity.
Qed.

(** ** MAIN: the refinement theorem.
    A fresh (just cloned) M1 query, driven by repeated Select calls with
    t.Current() = c, returns exactly the nodes of the list-level model, in the
    same order, and position()/depth() after each call are the it_pos/it_lvl of
    the list level; then it returns nil. *)
Theorem m1_refines_list : forall q Q c l F n,
  corr q Q -> SEL Q c = Val l ->
  need D MT q c <= F -> List.length l < n ->
  drain_items D MT F n (fresh q) c = l /\
  drain D MT F n (fresh q) c = nodes_of l.
Proof.
  intros q Q c l F n HC HS HF Hn. pose proof (lsel_sel q Q HC c l HS) as El. subst l.
  unfold drain. rewrite (drain_items_lsel D MT q c F n HF Hn). split; reflexivity.
Qed.

(* the same for the real driver, NodeIterator.MoveNext, which moves t.Current()
   to every node it returns (Iter.run_iter) *)
Theorem m1_refines_list_iterator : forall q Q c l F n,
  corr q Q -> SEL Q c = Val l ->
  need D MT q c <= F -> List.length l < n ->
  iterate_items D MT F n (fresh q) c = l /\
  iterate D MT F n (fresh q) c = nodes_of l /\
  exists st', run_iter D MT F n (fresh q) c = (l, E_nil, st', last (nodes_of l) c).
Proof.
  intros q Q c l F n HC HS HF Hn. pose proof (lsel_sel q Q HC c l HS) as El. subst l.
  unfold iterate. rewrite (iterate_items_lsel D MT q c F n HF Hn). split; [reflexivity|].
  split; [reflexivity|].
  destruct (run_iter_fresh D MT q c F n HF Hn) as (st' & E & _). exists st'. exact E.
Qed.

(* the same with the fuel computed from the document size and the query *)
Corollary m1_refines_list_fuel : forall q Q c l,
  corr q Q -> SEL Q c = Val l ->
  drain_items D MT (fuel_for D q) (S (out_bound D q)) (fresh q) c = l.
Proof.
  intros q Q c l HC HS. apply (m1_refines_list q Q c l _ _ HC HS).
  - apply need_fuel_for.
  - pose proof (lsel_sel q Q HC c l HS) as El. subst l. pose proof (lsel_length D MT q c). lia.
Qed.

(* full run: ends with nil, not Stuck; t.Current() unchanged *)
Corollary m1_run : forall q Q c l F n,
  corr q Q -> SEL Q c = Val l -> need D MT q c <= F -> List.length l < n ->
  exists st', run D MT F n (fresh q) c = (l, E_nil, st', c).
Proof.
  intros q Q c l F n HC HS HF Hn. pose proof (lsel_sel q Q HC c l HS) as El. subst l.
  destruct (run_fresh D MT q c F n HF Hn) as (st' & E & _). exists st'. exact E.
Qed.

(** ** the single steps from the context node *)
Lemma over_single : forall f c, over f [mkItem c 1 0] = f c.
Proof. intros. unfold over. cbn [flat_map it_node]. apply app_nil_r. Qed.

Theorem drain_child : forall t c F n,
  3 <= F -> List.length (step_child D has_ns t c) < n ->
  drain_items D MT F n (fresh (CChild t CContext)) c = step_child D has_ns t c /\
  drain D MT F n (fresh (CChild t CContext)) c = filter (MT t) (children D c).
Proof.
  intros t c F n HF Hn.
  assert (E : lsel D MT (CChild t CContext) c = step_child D has_ns t c) by apply over_single.
  unfold drain. rewrite drain_items_lsel; [| cbn [need lsel List.length]; lia | rewrite E; exact Hn].
  rewrite E. split; [reflexivity|]. apply nodes_of_numbered.
Qed.

(* posit after the (k+1)-th result is k+1 *)
Lemma number_from_nth : forall l a lvl k it,
  nth_error (number_from a lvl l) k = Some it -> it_pos it = a + k /\ nth_error l k = Some (it_node it).
Proof.
  induction l as [|x l IH]; intros a lvl [|k] it E; cbn in E; try discriminate.
  - inversion E; subst. cbn. split; [lia|reflexivity].
  - destruct (IH _ _ _ _ E) as [H1 H2]. split; [lia|exact H2].
Qed.

Theorem drain_child_position : forall t c F n k it,
  3 <= F -> List.length (step_child D has_ns t c) < n ->
  nth_error (drain_items D MT F n (fresh (CChild t CContext)) c) k = Some it ->
  it_pos it = S k /\ nth_error (filter (MT t) (children D c)) k = Some (it_node it).
Proof.
  intros t c F n k it HF Hn E. destruct (drain_child t c F n HF Hn) as [E1 _]. rewrite E1 in E.
  apply number_from_nth in E. exact E.
Qed.

Theorem drain_attribute : forall t c F n,
  3 <= F -> List.length (step_attribute D has_ns t c) < n ->
  drain_items D MT F n (fresh (CAttribute t CContext)) c = step_attribute D has_ns t c.
Proof.
  intros t c F n HF Hn.
  assert (E : lsel D MT (CAttribute t CContext) c = step_attribute D has_ns t c) by apply over_single.
  rewrite drain_items_lsel; [exact E | cbn [need lsel List.length]; lia | rewrite E; exact Hn].
Qed.

Theorem drain_self : forall t c F n,
  3 <= F -> 1 < n ->
  drain_items D MT F n (fresh (CSelf t CContext)) c = step_self D has_ns t c.
Proof.
  intros t c F n HF Hn.
  assert (E : lsel D MT (CSelf t CContext) c = step_self D has_ns t c) by apply over_single.
  rewrite drain_items_lsel; [exact E | cbn [need lsel List.length]; lia |].
  rewrite E. unfold step_self. destruct (match_test D has_ns t c); cbn; lia.
Qed.

Theorem drain_parent : forall t c F n,
  3 <= F -> 1 < n ->
  drain_items D MT F n (fresh (CParent t CContext)) c = step_parent D has_ns t c.
Proof.
  intros t c F n HF Hn.
  assert (E : lsel D MT (CParent t CContext) c = step_parent D has_ns t c) by apply over_single.
  rewrite drain_items_lsel; [exact E | cbn [need lsel List.length]; lia |].
  rewrite E. unfold step_parent. destruct (move_parent c) as [p|]; [destruct (match_test D has_ns t p)|]; cbn; lia.
Qed.

Theorem drain_descendant : forall self t c F n,
  3 <= F -> List.length (step_descendant D has_ns self t c) < n ->
  drain_items D MT F n (fresh (CDescendant self t CContext)) c = step_descendant D has_ns self t c /\
  drain D MT F n (fresh (CDescendant self t CContext)) c =
    filter (MT t) ((if self then [c] else []) ++ descendants D c).
Proof.
  intros self t c F n HF Hn.
  assert (E : lsel D MT (CDescendant self t CContext) c = step_descendant D has_ns self t c)
    by apply over_single.
  unfold drain. rewrite drain_items_lsel; [| cbn [need lsel List.length]; lia | rewrite E; exact Hn].
  rewrite E. split; [reflexivity|]. apply nodes_of_number_desc.
Qed.

(* the filter, against the List.filter-style specification of Proofs/Filter.v *)
Theorem drain_filter : forall np q Q P c r l F n,
  corr q Q -> SEL (QFilter np Q P) c = Val r -> SEL Q c = Val l ->
  boolean_valued_on D has_ns hc rm rn rr P (nodes_of l) ->
  need D MT (CFilter np (pred_of P) q) c <= F -> List.length r < n ->
  drain D MT F n (fresh (CFilter np (pred_of P) q)) c =
  filter (node_verdict D has_ns hc rm rn rr P) (nodes_of l).
Proof.
  intros np q Q P c r l F n HC HS HI HB HF Hn.
  destruct (m1_refines_list _ _ c r F n (corr_pred_of np q Q P HC) HS HF Hn) as [_ E].
  rewrite E. eapply filter_is_filter; eassumption.
Qed.

End Link.

(* ================================================================== *)
(** * 8. Closedness *)
Print Assumptions tsize_all_nodes.
Print Assumptions walk_subtree.
Print Assumptions Rep_reset.
Print Assumptions drain_items_lsel.
Print Assumptions run_fresh.
Print Assumptions evaluate_resets.
Print Assumptions clone_forgets.
Print Assumptions clone_same_results.
Print Assumptions context_preserved.
Print Assumptions exhausted_stable.
Print Assumptions exhausted_forever.
Print Assumptions need_fuel_for.
Print Assumptions lsel_sel.
Print Assumptions sel_to_query.
Print Assumptions m1_refines_list.
Print Assumptions m1_refines_list_iterator.
Print Assumptions iterate_items_lsel.
Print Assumptions m1_refines_list_fuel.
Print Assumptions child_iter_never_stuck.
Print Assumptions attr_iter_never_stuck.
Print Assumptions desc_iter_never_stuck.
Print Assumptions m1_run.
Print Assumptions drain_child.
Print Assumptions drain_child_position.
Print Assumptions drain_attribute.
Print Assumptions drain_self.
Print Assumptions drain_parent.
Print Assumptions drain_descendant.
Print Assumptions drain_filter.

(* ================================================================== *)
(** * 9. Examples (document of AxesSound.Examples:
      <a x="1" y="2"><b>t</b><c z="3"><d/><!--k--></c><e/></a>) *)

Module M1Examples.
Import AxesSound.Examples.
Open Scope string_scope.

Definition mt := match_test exD false.
Definition SELx := sel exD false (fun _ => 0%N) (fun _ _ => None) (fun _ => 0) (fun _ _ _ => "").
Definition EVALx := eval exD false (fun _ => 0%N) (fun _ _ => None) (fun _ => 0) (fun _ _ _ => "").

Example ex_tsize : tsize exD = 11 /\ List.length (all_nodes exD) = 11.
Proof. vm_compute. split; reflexivity. Qed.

(* descendant-or-self::node() from the root: 8 nodes, posit 1..8, level = depth *)
Definition q_dos := CDescendant true any_t CContext.
Example ex_drain_dos :
  drain exD mt 3 9 (fresh q_dos) root_node =
  [root_node; n_a; n_b; n_t; n_c; n_d; n_k; n_e].
Proof. vm_compute. reflexivity. Qed.
Example ex_drain_dos_items :
  map (fun it => (it_pos it, it_lvl it)) (drain_items exD mt 3 9 (fresh q_dos) root_node) =
  [(1,0); (2,1); (3,2); (4,3); (5,2); (6,3); (7,3); (8,2)].
Proof. vm_compute. reflexivity. Qed.
Example ex_dos_list_level :
  SELx (QDescendant true any_t QContext) root_node = Val (drain_items exD mt 3 9 (fresh q_dos) root_node).
Proof. vm_compute. reflexivity. Qed.

(* the NodeIterator driver (t.Current() follows the results) gives the same *)
Example ex_iterate_dos :
  run_iter exD mt 3 9 (fresh q_dos) root_node =
  (drain_items exD mt 3 9 (fresh q_dos) root_node, E_nil,
   snd (fst (run_iter exD mt 3 9 (fresh q_dos) root_node)), n_e).
Proof. vm_compute. reflexivity. Qed.

(* a chain  //*/node()  : child::node() over descendant-or-self::* ; posit restarts per input node *)
Definition q_chain := CChild any_t (CDescendant true elem_t CContext).
Example ex_drain_chain :
  map (fun it => (it_node it, it_pos it)) (drain_items exD mt 6 9 (fresh q_chain) root_node) =
  [(n_b,1); (n_c,2); (n_e,3); (n_t,1); (n_d,1); (n_k,2)].
Proof. vm_compute. reflexivity. Qed.
(* the hypotheses of m1_refines_list are satisfiable, and its conclusion computed *)
Example ex_refines_chain :
  exists Q l, corr exD false (fun _ => 0%N) (fun _ _ => None) (fun _ => 0) (fun _ _ _ => "") q_chain Q /\
              SELx Q root_node = Val l /\ need exD mt q_chain root_node <= 7 /\ List.length l < 9 /\
              drain_items exD mt 7 9 (fresh q_chain) root_node = l.
Proof.
  exists (QChild any_t (QDescendant true elem_t QContext)). eexists.
  split; [repeat constructor|]. split; [vm_compute; reflexivity|].
  split; [vm_compute; lia|]. split; [vm_compute; lia|]. vm_compute. reflexivity.
Qed.
Example ex_fuel_for_chain : fuel_for exD q_chain = 123 /\ need exD mt q_chain root_node = 7.
Proof. vm_compute. split; reflexivity. Qed.

(* with too little fuel for the loop over the input the model says Stuck: the
   name test zz matches no child of the first 3 input nodes (nor of any other) *)
Definition q_skip := CChild (name_t "zz") (CDescendant true any_t CContext).
Example ex_stuck : snd (fst (fst (run exD mt 3 9 (fresh q_skip) root_node))) = E_stuck.
Proof. vm_compute. reflexivity. Qed.
Example ex_not_stuck : fst (fst (run exD mt 10 9 (fresh q_skip) root_node)) = ([], E_nil).
Proof. vm_compute. reflexivity. Qed.

(* attributes of all elements; parents of them (with repetitions) *)
Definition q_attrs := CAttribute any_t (CDescendant true any_t CContext).
Example ex_drain_attrs : drain exD mt 10 9 (fresh q_attrs) root_node = [n_ax; n_ay; n_cz].
Proof. vm_compute. reflexivity. Qed.
Example ex_drain_parents : drain exD mt 10 9 (fresh (CParent any_t q_attrs)) root_node = [n_a; n_a; n_c].
Proof. vm_compute. reflexivity. Qed.

(* filter with a positional predicate  //*/node()[1]  and with  [position() = 2] *)
Definition q_first := CFilter true (fun _ k => Nat.eqb k 1) q_chain.
Example ex_drain_first :
  map (fun it => (it_node it, it_pos it)) (drain_items exD mt 8 9 (fresh q_first) root_node) =
  [(n_b,1); (n_t,2); (n_d,3)].
Proof. vm_compute. reflexivity. Qed.
(* against Eval.sel for the real predicate  [2]  *)
Definition two : query := QNum (F64.of_Z 2).
Example ex_filter_refines :
  SELx (QFilter false (QChild any_t (QDescendant true elem_t QContext)) two) root_node =
  Val (drain_items exD mt 8 9
         (fresh (CFilter false (pred_of exD false (fun _ => 0%N) (fun _ _ => None) (fun _ => 0) (fun _ _ _ => "") two)
                         q_chain)) root_node).
Proof. vm_compute. reflexivity. Qed.
Example ex_filter_refines_nodes :
  drain exD mt 8 9
    (fresh (CFilter false (pred_of exD false (fun _ => 0%N) (fun _ _ => None) (fun _ => 0) (fun _ _ _ => "") two)
                    q_chain)) root_node = [n_c; n_k].
Proof. vm_compute. reflexivity. Qed.

(* ---- protocol ---- *)
(* the state after two Select calls *)
Definition st2 : qstate := snd (fst (run exD mt 6 2 (fresh q_chain) root_node)).
Example ex_st2_delivered : drain exD mt 6 2 (fresh q_chain) root_node = [n_b; n_c].
Proof. vm_compute. reflexivity. Qed.
(* Evaluate does not restore the zero value (posit keeps its value) ... *)
Example ex_evaluate_not_fresh : position1 (evaluate1 st2) = 2 /\ position1 (fresh q_chain) = 0.
Proof. vm_compute. split; reflexivity. Qed.
(* ... but it restarts the iteration *)
Example ex_evaluate_restarts :
  drain exD mt 6 9 (evaluate1 st2) root_node = drain exD mt 6 9 (fresh q_chain) root_node /\
  drain exD mt 6 9 st2 root_node = [n_e; n_t; n_d; n_k].
Proof. vm_compute. split; reflexivity. Qed.
(* Clone of a half-consumed query is the fresh query; Clone forgets NoPosition *)
Example ex_clone : clone1 st2 = fresh q_chain.
Proof. vm_compute. reflexivity. Qed.
Example ex_clone_nopos :
  config_of (clone1 (fresh q_first)) <> q_first /\
  drain exD mt 8 9 (clone1 (fresh q_first)) root_node = drain exD mt 8 9 (fresh q_first) root_node.
Proof. split; [vm_compute; discriminate|vm_compute; reflexivity]. Qed.
(* exhaustion is stable *)
Example ex_exhausted :
  let st' := snd (fst (run exD mt 6 9 (fresh q_chain) root_node)) in
  fst (fst (run exD mt 6 5 st' n_c)) = ([], E_nil).
Proof. vm_compute. reflexivity. Qed.

(* ---- the repair in filterQuery.Select is what context_preserved rests on:
        the code before commit 08a4038 (no root/MoveTo(root)) leaves
        t.Current() on the candidate ---- *)
Definition filter_body_unrepaired {St} (isel : St -> node -> res St) (ipos ilvl : St -> nat)
           (pred : node -> nat -> bool)
           (again : filter_st St -> node -> res (filter_st St))
           (st : filter_st St) (cur : node) : res (filter_st St) :=
  match isel (f_in st) cur with
  | Stuck => Stuck
  | R None s' cur' => R None (mkFilter (f_posit st) (f_pm st) s') cur'
  | R (Some n) s' cur' =>
    let cur1 := n in                       (* t.Current().MoveTo(node), and no way back *)
    if pred cur1 (ipos s') then
      let pm := match f_pm st with Some m => m | None => [] end in
      let level := ilvl s' in
      let v := S (pm_get pm level) in
      R (Some n) (mkFilter v (Some (pm_set pm level v)) s') cur1
    else again (mkFilter (f_posit st) (f_pm st) s') cur1
  end.

Example ex_unrepaired_moves_context :
  match iter_loop (filter_body_unrepaired (child_select exD ctx_select (mt any_t) 5) c_posit (fun _ => 0)
                                          (fun _ _ => true)) 5
                  (mkFilter 0 (Some []) (mkChild 0 CI_none 0)) root_node with
  | R o _ cur' => o = Some n_a /\ cur' = n_a /\ cur' <> root_node
  | Stuck => False
  end.
Proof. vm_compute. repeat split; discriminate. Qed.

End M1Examples.

(* ================================================================== *)
(** * Summary

   Model (Model1/Iter.v).  qconfig = CContext | CAbsolute | CChild t i | CAttribute t i |
   CSelf t i | CParent t i | CDescendant self t i | CFilter nopos pred i ;  state_of q is
   the record of the mutable Go fields, nested like the query;  qstate = {q & state_of q}.
   select1 F / evaluate1 / clone1 / position1 / depth1 are Select / Evaluate / Clone /
   getNodePosition / getNodeDepth;  run (Select in a loop, t.Current() left alone) and
   run_iter (NodeIterator.MoveNext in a loop: t.Current() moves to each result) drive them.
   Fuel: the loops in the closures use dfuel D = 1 + tsize D  (tsize_all_nodes: tsize D is
   the number of nodes, |all_nodes D|) and provably never run out
   (child_iter_never_stuck, attr_iter_never_stuck for every state; desc_iter_never_stuck
   for the states of a walk); the climbing loop of descendantQuery is structural in level;
   the loops over the INPUT take the parameter F:  need q c <= F suffices, and
   need q c <= fuel_for D q = (tsize D)^(number of child/attribute/descendant steps) + 2.

   Refinement.
     walk_subtree / walks_base   the MoveToChild/MoveToNext/MoveToParent walk with the level
                                 counter visits exactly [descendants] in pre-order, with
                                 level = depth below the start node
     Rep_reset                   from every Reset state (fresh, cloned, or after Evaluate) the
                                 query delivers lsel q c: node, position() and depth() after
                                 every call; only the FIRST call looks at t.Current()
     drain_items_lsel, iterate_items_lsel, run_fresh, run_iter_fresh
     lsel_sel, sel_to_query      lsel is Eval.sel (filter: for any pred that agrees with
                                 truth_of_filter (eval p n))
     m1_refines_list             MAIN: corr q Q -> sel Q c = Val l -> drain_items (fresh q) c = l
     m1_refines_list_iterator    the same for NodeIterator.MoveNext
     m1_refines_list_fuel        with the computed fuel
     drain_child (+ drain_child_position: posit after the k-th result is k),
     drain_attribute, drain_self, drain_parent, drain_descendant, drain_filter
   Protocol.
     (a) exhausted_stable, exhausted_forever   every state, every later t.Current(); needs 1 <= F
     (b) evaluate_resets                       every state (not only reachable ones)
     (c) clone_forgets                         clone1 st = fresh (clone_cfg (config_of st)),
         clone_cfg_id, clone_same_results      clone_cfg = identity except NoPosition := false
     (d) context_preserved                     every state: Select leaves t.Current() alone

   What is NOT true, with counterexamples in M1Examples:
     - evaluate1 st = fresh (config_of st) fails: Evaluate keeps posit/level
       (ex_evaluate_not_fresh); only the behaviour is reset (evaluate_resets).
     - clone1 st = fresh (config_of st) fails for a filter with NoPosition = true:
       filterQuery.Clone drops the flag (ex_clone_nopos).  Harmless: no code reads it.
     - a fuel bounded by the document size does not suffice for the loops over the input
       (ex_stuck: parent::*/.. chains repeat nodes; here 3 input nodes without a match).
     - without the repair of commit 08a4038 filterQuery.Select leaves t.Current() on the
       candidate (ex_unrepaired_moves_context). *)
