(* Constant text written by go/cmd/geneffects (only Generated/Effects.v changes).
   The proof obligation re-checked on every run: the effect facts extracted from the
   Go sources as they are NOW satisfy the checker XP.Conc.effects_ok.  If a change of
   the engine makes one of the dangerous lists non-empty this file stops compiling. *)
From Coq Require Import List String.
From XP Require Import Conc.
From XP.Generated Require Import Effects.

Definition effects_table : effects :=
  mkEffects pkgvar_writes buildtime_capture_writes buildtime_capture_direct_evals
            calltime_capture_writes expr_q_uses clone_fields recv_field_writes cache_accesses.

Theorem effects_table_ok : effects_ok effects_table = true.
Proof. vm_compute. reflexivity. Qed.
