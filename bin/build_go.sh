#!/bin/bash
# builds the Go harness against /repo's working tree with the hooks enabled
set -e
cd "$(dirname "$0")/../go"
export GOFLAGS=-mod=mod GOPROXY=off GOSUMDB=off GOTOOLCHAIN=local
cp /repo/go.sum . 2>/dev/null || true
go build -tags verif -o ../build/xh ./cmd/xh
go build -o ../build/gentables ./cmd/gentables
go build -o ../build/geneffects ./cmd/geneffects
go build -o ../build/gencallgraph ./cmd/gencallgraph
go build -o ../build/gendispatch ./cmd/gendispatch
go build -o ../build/genparse ./cmd/genparse
go build -o ../build/genlogic ./cmd/genlogic
