(* C12 — flat paths yield their nodes in document order with no node repeated.
   Property theorems only; proofs in Proofs/DocOrder.v.
   [sel] is the list-level model of Select (Eval.v): the sequence of nodes the
   iterator hands out.  [flat_query] (Proofs/DocOrder.v) = a chain of child,
   attribute and self steps from the context node or the root. *)
From Coq Require Import List Sorted ZArith.
From XP Require Import Base Doc Ast Eval.
From XP.Proofs Require Import DocOrder.

(* document order is a strict total order on node addresses *)
Theorem C12_doc_order_total : forall a b, doc_compare a b = Lt \/ a = b \/ doc_compare b a = Lt.
Proof. exact doc_compare_total. Qed.
Print Assumptions C12_doc_order_total.

Theorem C12_doc_order_trans : forall a b c,
  doc_compare a b = Lt -> doc_compare b c = Lt -> doc_compare a c = Lt.
Proof. exact doc_compare_trans. Qed.
Print Assumptions C12_doc_order_trans.

Theorem C12_doc_order_irrefl : forall a, doc_compare a a <> Lt.
Proof. exact doc_compare_irrefl. Qed.
Print Assumptions C12_doc_order_irrefl.

(* a flat path (child / attribute / self steps from one context node) of any
   length, on any document, from any context node: strictly increasing in
   document order *)
Theorem C12_flat_sorted : forall D has_ns hcode rm rn rr q c l,
  flat_query q -> valid D c = true ->
  sel D has_ns hcode rm rn rr q c = Val l -> sorted_doc (nodes_of l).
Proof. exact flat_sorted. Qed.
Print Assumptions C12_flat_sorted.

(* ... hence no node is repeated *)
Theorem C12_flat_nodup : forall D has_ns hcode rm rn rr q c l,
  flat_query q -> valid D c = true ->
  sel D has_ns hcode rm rn rr q c = Val l -> NoDup (nodes_of l).
Proof. exact flat_nodup. Qed.
Print Assumptions C12_flat_nodup.

(* a flat path never aborts *)
Theorem C12_flat_never_fails : forall D has_ns hcode rm rn rr q c,
  flat_query q -> exists l, sel D has_ns hcode rm rn rr q c = Val l.
Proof. exact flat_never_fails. Qed.
Print Assumptions C12_flat_never_fails.

(* a single descendant step (//name, descendant::x, descendant-or-self::x), also
   after a flat path: document order, no duplicates *)
Theorem C12_descendant_step_sorted : forall D has_ns hcode rm rn rr q self t c l,
  flat_query q ->
  sel D has_ns hcode rm rn rr (QDescendant self t q) c = Val l -> sorted_doc (nodes_of l).
Proof. exact flat_descendant_sorted. Qed.
Print Assumptions C12_descendant_step_sorted.

Theorem C12_descendant_step_nodup : forall D has_ns hcode rm rn rr q self t c l,
  flat_query q ->
  sel D has_ns hcode rm rn rr (QDescendant self t q) c = Val l -> NoDup (nodes_of l).
Proof. exact flat_descendant_nodup. Qed.
Print Assumptions C12_descendant_step_nodup.

(* two sorted sequences with the same members are the same sequence: the flat
   path's sequence is THE document-order listing of its node set *)
Theorem C12_sorted_unique : forall l1 l2,
  sorted_doc l1 -> sorted_doc l2 -> (forall x, In x l1 <-> In x l2) -> l1 = l2.
Proof. exact sorted_doc_unique. Qed.
Print Assumptions C12_sorted_unique.

(* ---- count(), reverse(), Evaluate vs Select (Proofs/CountReverse.v) ---- *)
From XP Require Import Api.
From XP.Proofs Require Import CountReverse.

(* count(E) is the length of E's sequence, for every node-set expression E *)
Theorem C12_count_is_length : forall D has_ns hcode rm rn rr a c l,
  eval D has_ns hcode rm rn rr a c = Val (VNodes l) ->
  eval D has_ns hcode rm rn rr (QFn1 FCount a) c = Val (VNum (F64.of_Z (Z.of_nat (List.length l)))).
Proof. exact count_is_length. Qed.
Print Assumptions C12_count_is_length.

(* reverse(E) yields E's sequence reversed *)
Theorem C12_reverse : forall D has_ns hcode rm rn rr i c r l,
  sel D has_ns hcode rm rn rr (QReverse i) c = Val r -> sel D has_ns hcode rm rn rr i c = Val l ->
  nodes_of r = rev (nodes_of l).
Proof. exact reverse_is_rev. Qed.
Print Assumptions C12_reverse.

(* Evaluate returns an iterator over the same sequence as Select *)
Theorem C12_evaluate_same_sequence : forall rm rn rr hcode D has_ns q c ns,
  Absolute.nodeset_query q = true -> select rm rn rr hcode D has_ns q c = Val ns ->
  evaluate rm rn rr hcode D has_ns q c = Val (VNodes (unnumbered ns)).
Proof. exact evaluate_same_sequence. Qed.
Print Assumptions C12_evaluate_same_sequence.

(* ---- the iterator protocol at CURSOR level (Model1/Iter.v: the Go Select /
   Evaluate / Clone methods of context, absolute, child, attribute, self, parent,
   descendant and filter queries transliterated as state machines over the
   navigator operations; Proofs/IterRefine.v) ---- *)
From XP.Model1 Require Import Iter.
From XP.Proofs Require Import IterRefine.

(* the machine, run from a fresh / cloned / re-Evaluated state, hands out exactly
   the list-level sequence, node for node with the same position counters *)
Theorem C12_cursor_level_refines_list_level : forall D has_ns hc rm rn rr q Q c l F n,
  corr D has_ns hc rm rn rr q Q -> sel D has_ns hc rm rn rr Q c = Val l ->
  need D (match_test D has_ns) q c <= F -> List.length l < n ->
  drain_items D (match_test D has_ns) F n (fresh q) c = l /\
  drain D (match_test D has_ns) F n (fresh q) c = nodes_of l.
Proof. exact m1_refines_list. Qed.
Print Assumptions C12_cursor_level_refines_list_level.

(* MoveNext keeps returning false once it has returned false: from ANY state *)
Theorem C12_exhaustion_stable : forall D tst F st cur st' cur',
  1 <= F -> select1 D tst F st cur = R None st' cur' ->
  forall cur2, exists st'', select1 D tst F st' cur2 = R None st'' cur2.
Proof. exact exhausted_stable. Qed.
Print Assumptions C12_exhaustion_stable.

(* Select never moves the shared context node (with the repair 08a4038) *)
Theorem C12_context_preserved : forall D tst F st cur o st' cur',
  select1 D tst F st cur = R o st' cur' -> cur' = cur /\ config_of st' = config_of st.
Proof. exact context_preserved. Qed.
Print Assumptions C12_context_preserved.

(* ---- the extended cursor-level model (Model1/Iter2.v, Proofs/IterRefine2.v): all
   fourteen node-set query types — the eight above plus following / preceding (both
   Sibling values), ancestor (both Self values, with its de-duplication table), group,
   union and merge ---- *)
From XP.Model1 Require Import Iter2.
From XP.Proofs Require Import IterRefine2.

Theorem C12_cursor_level_refines_list_level_all : forall D has_ns hc rm rn rr q Q c l F n,
  corr2 D has_ns hc rm rn rr q Q -> sel D has_ns hc rm rn rr Q c = Val l ->
  need2 D hc (match_test D has_ns) q c <= F -> List.length l < n ->
  drain_items2 D hc (match_test D has_ns) F n (fresh2 q) c = l /\
  drain2 D hc (match_test D has_ns) F n (fresh2 q) c = nodes_of l /\
  iterate_items2 D hc (match_test D has_ns) F n (fresh2 q) c = l.
Proof. exact m1_refines_list2. Qed.
Print Assumptions C12_cursor_level_refines_list_level_all.

Theorem C12_exhaustion_stable_all : forall D hcode tst F st cur st' cur',
  1 <= F -> select2 D hcode tst F st cur = R None st' cur' ->
  forall cur2, exists st'', select2 D hcode tst F st' cur2 = R None st'' cur2.
Proof. exact exhausted_stable2. Qed.
Print Assumptions C12_exhaustion_stable_all.

Theorem C12_context_preserved_all : forall D hcode tst F st cur o st' cur',
  select2 D hcode tst F st cur = R o st' cur' -> cur' = cur /\ config_of2 st' = config_of2 st.
Proof. exact context_preserved2. Qed.
Print Assumptions C12_context_preserved_all.

(* ------------------------------------------------------------------ *)
(* END TO END, from the TEXT of an ordered path P (child / attribute / self steps, optionally ending
   in ONE descendant step, e.g. //name): P, count(P) and reverse(P) compile; Select on P yields the
   denotation in document order without repeats, Evaluate the same sequence, count(P) its length,
   reverse(P) the reversed sequence. *)
From XP Require Import F64 Scan Parse Build.
From XP.Spec Require Import Axes Paths.
From XP.Proofs Require Import HashInj RoundTripOps RoundTripPaths EndToEndPaths EndToEndFlat.
Open Scope string_scope.

Theorem C12_end_to_end_ordered : forall D has_ns hc rm rn rr,
  hash_ok (hc D) (all_nodes D) ->
  forall re_ok ns p abs steps,
  path_syntax p -> steps_of p = (abs, steps) -> ordered_steps steps ->
  xok p -> xok (XCall "count" (AOne p)) -> xok (XCall "reverse" (AOne p)) ->
  List.length steps + 2 <= max_build_depth ->
  exists q qc qr,
    compile re_ok (print_min p) ns = Ok q /\
    compile re_ok (print_min (XCall "count" (AOne p))) ns = Ok qc /\
    compile re_ok (print_min (XCall "reverse" (AOne p))) ns = Ok qr /\
    forall c, valid D c = true ->
    exists l,
      select rm rn rr hc D has_ns q c = Val l /\ sorted_doc l /\ NoDup l /\
      (forall n, In n l <-> path_den D has_ns steps (if abs then root_node else c) n) /\
      evaluate rm rn rr hc D has_ns q c = Val (VNodes (unnumbered l)) /\
      evaluate rm rn rr hc D has_ns qc c = Val (VNum (of_Z (Z.of_nat (List.length l)))) /\
      select rm rn rr hc D has_ns qr c = Val (rev l).
Proof. exact C12_ordered_end_to_end. Qed.
Print Assumptions C12_end_to_end_ordered.

(* ------------------------------------------------------------------ *)
(* CURSOR LEVEL, the whole evaluator: Model1/Iter3.v transliterates Select and Evaluate of every
   query type, of the function layer (func.go, with functionArgs cloning) and of the operator layer
   (operator.go); for every supported query tree the cursor-level run delivers exactly the list the
   list-level model returns, ends with nil, and leaves the shared context node where it was. *)
From XP.Model1 Require Import Iter3.
From XP.Proofs Require Import IterRefine3.

Theorem C12_cursor_level_select_all : forall D has_ns hc rm rn rr q (wf : m1_supported q = true) c l,
  sel D has_ns hc rm rn rr q c = Val l ->
  exists F0, forall F n, F0 <= F -> List.length l < n ->
    drain_items3 D has_ns hc rm rn rr F n (fresh3 q) c = l /\
    drain3 D has_ns hc rm rn rr F n (fresh3 q) c = nodes_of l /\
    exists st', run3 D has_ns hc rm rn rr F n (fresh3 q) c = (l, E_nil, st', c).
Proof. exact m1_refines_m2_all. Qed.
Print Assumptions C12_cursor_level_select_all.

Theorem C12_cursor_level_evaluate_all : forall D has_ns hc rm rn rr q (wf : m1_supported q = true) c V,
  eval D has_ns hc rm rn rr q c = Val V ->
  exists F0, forall F n, F0 <= F -> vlen V < n ->
    evaluate3 D has_ns hc rm rn rr F n q c = val_out V.
Proof. exact m1_evaluate_refines. Qed.
Print Assumptions C12_cursor_level_evaluate_all.

(* ... including descendantOverDescendantQuery (Proofs/IterRefine4.v): everything except lastFuncQuery *)
From XP.Proofs Require Import IterRefine4 IterProtocol3.

Theorem C12_cursor_level_select_all4 : forall D has_ns hc rm rn rr q (wf : m1_supported4 q = true) c l,
  sel D has_ns hc rm rn rr q c = Val l ->
  exists F0, forall F n, F0 <= F -> List.length l < n ->
    drain_items3 D has_ns hc rm rn rr F n (fresh3 q) c = l /\
    drain3 D has_ns hc rm rn rr F n (fresh3 q) c = nodes_of l /\
    exists st', run3 D has_ns hc rm rn rr F n (fresh3 q) c = (l, E_nil, st', c).
Proof. exact m1_refines_m2_all4. Qed.
Print Assumptions C12_cursor_level_select_all4.

Theorem C12_cursor_level_evaluate_all4 : forall D has_ns hc rm rn rr q (wf : m1_supported4 q = true) c V,
  eval D has_ns hc rm rn rr q c = Val V ->
  exists F0, forall F n, F0 <= F -> vlen V < n ->
    evaluate3 D has_ns hc rm rn rr F n q c = val_out V.
Proof. exact m1_evaluate_refines4. Qed.
Print Assumptions C12_cursor_level_evaluate_all4.

(* THE ITERATOR PROTOCOL at cursor level, for every query tree whose node-set spine is well typed
   (predicates, operands and function arguments unconstrained, lastFuncQuery included) and from ANY
   well-formed state, half-consumed or not: once Select has returned nil it returns nil for ever
   (from whatever context node it is called) ... *)
Theorem C12_cursor_level_nil_is_final : forall D has_ns hc rm rn rr F q (wt : wt3 q = true) s cur st' cur',
  1 <= F -> Inv3 q s ->
  select3 D has_ns hc rm rn rr F (existT _ q s) cur = R None st' cur' ->
  forall k, all_nil D has_ns hc rm rn rr F k st'.
Proof. exact nil_is_final3. Qed.
Print Assumptions C12_cursor_level_nil_is_final.

(* ... a Select call keeps the state well formed and, for node-set queries, leaves t.Current() alone *)
Theorem C12_cursor_level_select_protocol : forall D has_ns hc rm rn rr F q (wt : wt3 q = true) s cur o st' cur',
  Inv3 q s -> select3 D has_ns hc rm rn rr F (existT _ q s) cur = R o st' cur' ->
  exists s', st' = existT _ q s' /\ Inv3 q s' /\ (is_ns q = true -> cur' = cur) /\ (o = None -> Dead3 q s').
Proof. exact select3_protocol. Qed.
Print Assumptions C12_cursor_level_select_protocol.

(* ... and the NodeIterator driver (MoveNext / Current) reports exactly the list-level items, Current
   being positioned on the node just reported *)
Theorem C12_cursor_level_node_iterator : forall D has_ns hc rm rn rr q (wf : m1_supported4 q = true) c l,
  sel D has_ns hc rm rn rr q c = Val l ->
  exists F0, forall F n, F0 <= F -> List.length l < n ->
    exists st', run_iter3 D has_ns hc rm rn rr F n (fresh3 q) c =
                (map (fun it => (it, it_node it)) l, E_nil, st', last (nodes_of l) c).
Proof. exact run_iter3_items. Qed.
Print Assumptions C12_cursor_level_node_iterator.

(* ------------------------------------------------------------------ *)
(* Evaluate = Select, count, reverse FOR EVERY predicate-free path (all 12 axes: the sequence may
   repeat nodes and need not be sorted), from the text *)
From XP.Proofs Require Import EndToEndEvalSelect.

Theorem C12_end_to_end_evaluate_count_reverse : forall D has_ns hc rm rn rr,
  hash_ok (hc D) (all_nodes D) ->
  forall re_ok ns p abs steps,
  path_syntax p -> steps_of p = (abs, steps) -> List.length steps + 2 <= max_build_depth ->
  xok p -> xok (XCall "count" (AOne p)) -> xok (XCall "reverse" (AOne p)) ->
  exists q,
    compile re_ok (print_min p) ns = Ok q /\
    compile re_ok (print_min (XCall "count" (AOne p))) ns = Ok (QFn1 FCount q) /\
    compile re_ok (print_min (XCall "reverse" (AOne p))) ns = Ok (QReverse q) /\
    forall c, valid D c = true ->
    exists l,
      select rm rn rr hc D has_ns q c = Val l /\
      (forall n, In n l <-> path_den D has_ns steps (if abs then root_node else c) n) /\
      (exists l', evaluate rm rn rr hc D has_ns q c = Val (VNodes l') /\ nodes_of l' = l) /\
      evaluate rm rn rr hc D has_ns (QFn1 FCount q) c = Val (VNum (of_Z (Z.of_nat (List.length l)))) /\
      select rm rn rr hc D has_ns (QReverse q) c = Val (rev l).
Proof. exact C12_path_evaluate_count_reverse. Qed.
Print Assumptions C12_end_to_end_evaluate_count_reverse.

(* the protocol FROM THE TEXT: for every typed text that compiles (every predicate-free path text is
   typed: BuildWellFormed.path_text_typed), once Select has returned nil it returns nil for ever *)
From XP.Proofs Require Import BuildWellFormed.

Theorem C12_text_once_nil_always_nil : forall re_ok D has_ns hc rm rn rr F text ns q,
  compile re_ok text ns = Ok q -> forall strict : bool, text_typed strict text ns = true ->
  forall (s : state3 q) cur st' cur', 1 <= F -> Inv3 q s ->
  select3 D has_ns hc rm rn rr F (existT _ q s) cur = R None st' cur' ->
  forall k, all_nil D has_ns hc rm rn rr F k st'.
Proof. exact C12_text_nil_is_final. Qed.
Print Assumptions C12_text_once_nil_always_nil.

Theorem C12_text_paths_are_typed : forall (strict : bool) ns p,
  path_syntax p -> xok p -> text_typed strict (print_min p) ns = true.
Proof. exact path_text_typed. Qed.
Print Assumptions C12_text_paths_are_typed.
