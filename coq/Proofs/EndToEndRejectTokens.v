(* Proofs/EndToEndRejectTokens.v — property C17, whole-string statements for
   classes that Proofs/EndToEndReject.v left out.

   (b) damaged predicates on a path that ALREADY carries a predicate:
         P[E1][E2      the second predicate is never closed
         P[E1][        cut after the second bracket
         P[E1[E2]      the inner bracket is closed, the outer one is not
   (c) texts that parse but do not build:
         AXIS::NAME , P/AXIS::NAME  with an axis name outside the twelve
                      (the namespace axis included)
         $x , $x op E   a variable reference
   (a) an unclosed string literal: as the first token of the text
       ([C17_text_unclosed_string_first], from ParseReject).  At a LATER
       operand position ( E1 op 'abc ) it is not proved: the judgements of
       RoundTripOps / RoundTripPaths describe scanner states by the token layout
       that REMAINS to be read (ScanTokens.St), and the remainder  'abc  is not
       a layout of tokens; it needs a version of St / next_item_tok with an
       arbitrary tail of characters inside ScanTokens.v. *)
From XP Require Import Base F64 Doc Ast Scan Parse Build Api.
From XP.Proofs Require Import ParseTerm ParseAssoc ParseReject ScanTokens RoundTripOps RoundTripPaths
                              BuildFacts NameTest EndToEndPaths EndToEndPred EndToEndName EndToEndReject.
Require Import Lia NArith.
Open Scope nat_scope.
Open Scope string_scope.
Open Scope list_scope.

(* ------------------------------------------------------------------ *)
(** * (b) a second predicate that is damaged                            *)
(* ------------------------------------------------------------------ *)

Section Preds.
Variable ns : nsmap.

(* head [E1] [E2   and   head [E1] [ *)
Theorem Step_second_bracket : forall hts g dn1 ets1 c1 (tail : option (nat * list token * anode)),
  HeadP ns hts g -> ParsesE ns dn1 ets1 c1 ->
  match tail with
  | Some (dn2, ets2, c2) => ParsesE ns dn2 ets2 c2
  | None => True
  end ->
  StepFails ns (S (Nat.max dn1 (match tail with Some (dn2, _, _) => dn2 | None => 0 end)))
    (hts ++ TP ILBracket :: ets1 ++ TP IRBracket :: TP ILBracket ::
       match tail with Some (_, ets2, _) => ets2 | None => [] end).
Proof.
  intros hts g dn1 ets1 c1 tail HH HE1 HT f n d st lts we Hf Hd Hm HA.
  set (ets2 := match tail with Some (_, e, _) => e | None => [] end) in *.
  set (dn2 := match tail with Some (x, _, _) => x | None => 0 end) in *.
  rewrite app_length in Hf. cbn [List.length] in Hf. rewrite app_length in Hf. cbn [List.length] in Hf.
  destruct (map_snd_app_inv lts _ _ Hm) as [l1 [lr [E [H1 Hr]]]]. subst lts.
  destruct lr as [|[wb tb] lr]; [discriminate|]. cbn [map snd] in Hr. inversion Hr as [[Htb Hr']]. subst tb.
  destruct (map_snd_app_inv lr _ _ Hr') as [l2 [lr2 [E [H2 Hr2]]]]. subst lr.
  destruct lr2 as [|[wr tr] [|[wb2 tb2] l3]]; try discriminate. cbn [map snd] in Hr2.
  inversion Hr2 as [[Htr Htb2 H3]]. subst tr tb2.
  rewrite <- app_assoc in HA. cbn [app] in HA. rewrite <- app_assoc in HA. cbn [app] in HA.
  destruct f as [|[|[|f]]]; try lia.
  destruct (HH (S (S f)) (pgo ns (S (S f)) EExpr) (pgo ns (S (S f)) EStep) n d st l1
               ((wb, TP ILBracket) :: l2 ++ (wr, TP IRBracket) :: (wb2, TP ILBracket) :: l3 ++ [(we, TEOF)]))
    as [st1 [HA1 Heq]]; [lia|exact H1|exact HA|cbn; discriminate|].
  destruct (pnext_At _ _ _ _ _ HA1 ltac:(destruct l2; discriminate)) as [st2 [Hn2 HA2]].
  destruct (HE1 (S (S f)) (Some (g n)) d st2 l2
              ((wr, TP IRBracket) :: (wb2, TP ILBracket) :: l3 ++ [(we, TEOF)])) as [st3 [Hp3 HA3]];
    [lia|lia|exact H2|exact HA2|reflexivity|].
  destruct (pnext_At _ _ _ _ _ HA3 ltac:(discriminate)) as [st4 [Hn4 HA4]].
  destruct (pnext_At _ _ _ _ _ HA4 ltac:(destruct l3; discriminate)) as [st5 [Hn5 HA5]].
  assert (Hrun : pred_run (pgo ns (S (S f)) EExpr) (g n) st1 (AFilter (g n) c1) st4 1).
  { eapply pr_cons; [apply (typ_At _ _ _ _ _ HA1)|exact Hn2|exact Hp3|apply (typ_At _ _ _ _ _ HA3)|exact Hn4|].
    apply pr_nil. }
  rewrite pgo_S_step, Heq.
  change (S (S f)) with (1 + S f) at 1.
  unfold ets2, dn2 in *. clear ets2 dn2.
  destruct tail as [[[d2 e2] c2]|]; cbv beta iota in *.
  - destruct (HT (S (S f)) (Some (AFilter (g n) c1)) d st5 l3 [(we, TEOF)]) as [st6 [Hp6 HA6]];
      [lia|lia|exact H3|exact HA5|reflexivity|].
    rewrite (pred_run_missing_close (pgo ns (S (S f)) EExpr) _ _ _ _ 1 f st5 c2 st6 Hrun
               (typ_At _ _ _ _ _ HA4) Hn5 Hp6).
    + eexists. reflexivity.
    + rewrite (At_eof_typ _ _ _ HA6). discriminate.
  - destruct l3; [|discriminate]. cbn [app] in HA5.
    apply (pred_run_open_trunc (pgo ns (S (S f)) EExpr) (fun n0 st0 H => pexpr_err ns f n0 st0 H)
             _ _ _ _ 1 f st5 Hrun (typ_At _ _ _ _ _ HA4) Hn5).
    rewrite (At_eof_typ _ _ _ HA5). reflexivity.
Qed.

End Preds.

Section B.
Variable re_ok : string -> bool.
Variable ns : nsmap.

(** P[E1][E2   — the second predicate is never closed *)
Theorem C17_text_second_predicate_not_closed : forall p e1 e2,
  path_syntax p -> xwf e1 -> xwf e2 -> S (Nat.max (xdepth e1) (xdepth e2)) < max_depth ->
  rejected_all re_ok ns
    (xtoks p ++ TP ILBracket :: xtoks e1 ++ TP IRBracket :: TP ILBracket :: xtoks e2).
Proof.
  intros p e1 e2 Hp Hw1 Hw2 Hd. destruct (path_syntax_inv p Hp) as (s & r & l & -> & Er & Hw). cbn [xtoks].
  apply (rejected_all_of_FailsE re_ok ns (S (Nat.max (xdepth e1) (xdepth e2)))); [| |exact Hd].
  - apply path_tail_fails; [exact Hw| |exact I].
    apply (rel_tail_fails ns r l _ _ Er). intros hts g Hg.
    apply (Step_second_bracket ns hts g (xdepth e1) (xtoks e1) (xast e1)
             (Some (xdepth e2, xtoks e2, xast e2)) Hg).
    + apply PX_full; [exact Hw1|apply px_parses_all].
    + apply PX_full; [exact Hw2|apply px_parses_all].
  - destruct (start_toks s ++ rtoks r); discriminate.
Qed.

(** P[E1][   — cut after the second bracket *)
Theorem C17_text_cut_after_second_lbracket : forall p e1,
  path_syntax p -> xwf e1 -> S (xdepth e1) < max_depth ->
  rejected_all re_ok ns (xtoks p ++ TP ILBracket :: xtoks e1 ++ [TP IRBracket; TP ILBracket]).
Proof.
  intros p e1 Hp Hw1 Hd. destruct (path_syntax_inv p Hp) as (s & r & l & -> & Er & Hw). cbn [xtoks].
  apply (rejected_all_of_FailsE re_ok ns (S (Nat.max (xdepth e1) 0))); [| |rewrite Nat.max_0_r; exact Hd].
  - apply path_tail_fails; [exact Hw| |exact I].
    apply (rel_tail_fails ns r l _ _ Er). intros hts g Hg.
    apply (Step_second_bracket ns hts g (xdepth e1) (xtoks e1) (xast e1) None Hg); [|exact I].
    apply PX_full; [exact Hw1|apply px_parses_all].
  - destruct (start_toks s ++ rtoks r); discriminate.
Qed.

(** P[E1[E2]   — the inner bracket is closed, the outer one is missing.
    E1 a path syntax: the inner predicate belongs to the last step of E1 *)
Theorem C17_text_outer_bracket_missing : forall p e1 e2,
  path_syntax p -> path_syntax e1 -> xwf e2 -> S (S (xdepth e2)) < max_depth ->
  rejected_all re_ok ns
    (xtoks p ++ TP ILBracket :: (xtoks e1 ++ TP ILBracket :: xtoks e2 ++ [TP IRBracket])).
Proof.
  intros p e1 e2 Hp H1 H2 Hd.
  destruct (with_pred_ast e1 e2 H1 H2) as (_ & Hwf & Hdep).
  assert (Ht : xtoks e1 ++ TP ILBracket :: xtoks e2 ++ [TP IRBracket] = xtoks (with_pred e1 e2)).
  { rewrite (with_pred_toks e1 e2 H1). rewrite <- app_assoc. reflexivity. }
  rewrite Ht.
  apply (C17_text_missing_rbracket re_ok ns p (with_pred e1 e2) Hp Hwf). rewrite Hdep. exact Hd.
Qed.

End B.

(* ------------------------------------------------------------------ *)
(** * (c) texts that parse but do not build                             *)
(* ------------------------------------------------------------------ *)

Section C.
Variable re_ok : string -> bool.
Variable ns : nsmap.

Lemma compile_of_process_err : forall text a,
  parse text ns = Ok a -> BuildFacts.is_err (process re_ok 0 a fl_none fi_nil) ->
  rejected (compile re_ok text ns).
Proof. intros text a P E. apply (compile_process_err re_ok ns text a P E). Qed.

Lemma compile_process_Err' : forall text a msg,
  parse text ns = Ok a -> process re_ok 0 a fl_none fi_nil = Err msg ->
  compile re_ok text ns = Err msg.
Proof.
  intros text a msg P E.
  assert (Hne : text <> "") by (intros Ee; rewrite Ee in P; exact (EndToEndPaths.parse_empty _ _ P)).
  unfold compile, compile_fuel, build_fuel.
  apply String.eqb_neq in Hne. rewrite Hne. unfold parse in P. rewrite P. cbn [cbind]. rewrite E. reflexivity.
Qed.

(** AXIS::NAME  with an axis outside the twelve: the exact message *)
Theorem C17_text_unsupported_axis : forall ax nm,
  name_ok ax = true -> name_ok nm = true -> supported_axis ax = false ->
  compile re_ok (ax ++ "::" ++ nm) ns =
  Err (if String.eqb ax "namespace" then "xpath: the namespace axis is not supported"
       else "unknown axe type").
Proof.
  intros ax nm Ha Hn Hs.
  pose proof (parse_name ax nm ns Ha Hn) as P.
  apply (compile_process_Err' _ _ _ P).
  apply (process_unsupported_axis_noinput re_ok 0 ax _ _ _ _ _ _ fl_none fi_nil Hs).
  unfold max_build_depth. lia.
Qed.

(** ... /AXIS::test  as the last step of any location path of the round-trip grammar *)
Definition last_axis_is (ax : string) (r : rpath) : Prop :=
  (fix go (r : rpath) : Prop :=
     match r with
     | ROne s => match s with SAxis (AxName a _) _ PNil => a = ax | _ => False end
     | RCons _ _ r' => go r'
     end) r.

Lemma rast_last_axis : forall ax r n, last_axis_is ax r ->
  exists ty pre loc prop hasns uri inp, rast r n = AAxis ax ty pre loc prop hasns uri inp.
Proof.
  intros ax r. induction r as [s|s dbl r IH]; intros n H; cbn [rast].
  - cbn in H. destruct s as [|a t ps]; [contradiction|]. destruct a as [| |a w]; try contradiction.
    destruct ps; [|contradiction]. subst a. cbn [sast past axname].
    unfold nt_node, axis_node. destruct t; eauto 10.
  - apply IH. exact H.
Qed.

Theorem C17_text_unsupported_axis_in_path : forall s r ax w,
  xwf (XPath s r) -> xok (XPath s r) -> xdepth (XPath s r) < max_depth -> RoundTripWs.ws_fun w ->
  last_axis_is ax r -> supported_axis ax = false ->
  rejected (compile re_ok (print_min (XPath s r)) ns) /\
  rejected (compile re_ok (RoundTripWs.print_ws w (XPath s r)) ns).
Proof.
  intros s r ax w Hwf Hok Hd Hw Hl Hs.
  pose proof (roundtrip_print_min ns _ Hwf Hok Hd) as P.
  destruct (rast_last_axis ax r (start_node s) Hl) as (ty & pre & loc & prop & hasns & uri & inp & Ea).
  assert (He : BuildFacts.is_err (process re_ok 0 (xast (XPath s r)) fl_none fi_nil)).
  { cbn [xast]. rewrite Ea. apply process_unsupported_axis. exact Hs. }
  split.
  - apply (compile_of_process_err _ _ P He).
  - apply (compile_of_process_err _ (xast (XPath s r))); [|exact He].
    rewrite (RoundTripWs.C10_white_space ns w _ Hw Hwf Hok Hd). exact P.
Qed.

(** $x  and  $x op E *)
Lemma process_variable_operand : forall d op p n r fl fi,
  S d < max_build_depth ->
  process re_ok d (AOp op (AVar p n) r) fl fi = Err "xpath: variable is not supported".
Proof.
  intros d op p n r fl fi Hd. cbn [process].
  rewrite (depth_ok d ltac:(lia)), (depth_ok (S d) Hd). reflexivity.
Qed.

Theorem C17_text_variable : forall nm,
  xok (XVar nm) ->
  compile re_ok (print_min (XVar nm)) ns = Err "xpath: variable is not supported".
Proof.
  intros nm Hok.
  pose proof (roundtrip_print_min ns (XVar nm) I Hok ltac:(cbn; unfold max_depth; lia)) as P.
  apply (compile_process_Err' _ _ _ P).
  apply (process_variable re_ok 0 "" nm fl_none fi_nil). unfold max_build_depth. lia.
Qed.

Theorem C17_text_variable_operand : forall b nm e,
  xwf (XBin b (XVar nm) e) -> xok (XBin b (XVar nm) e) -> xdepth (XBin b (XVar nm) e) < max_depth ->
  compile re_ok (print_min (XBin b (XVar nm) e)) ns = Err "xpath: variable is not supported".
Proof.
  intros b nm e Hwf Hok Hd.
  pose proof (roundtrip_print_min ns _ Hwf Hok Hd) as P.
  apply (compile_process_Err' _ _ _ P).
  apply (process_variable_operand 0 (opname b) "" nm (xast e) fl_none fi_nil). unfold max_build_depth. lia.
Qed.

(** (a) an unclosed string literal as the first token *)
Theorem C17_text_unclosed_string_first : forall text q,
  let l := skipsp (list_of_string text) in
  (q = 34 \/ q = 39)%N -> cur l = q -> ~ In (ascii_of_N q) (advance l) ->
  compile re_ok text ns = Err "xpath: scanString got unclosed string".
Proof.
  intros text q l Hq Hc Hni.
  pose proof (parse_unclosed_first text ns q Hq Hc Hni) as P.
  unfold compile, compile_fuel, build_fuel.
  destruct (String.eqb text "") eqn:E.
  - apply String.eqb_eq in E. subst text. vm_compute in Hc. destruct Hq; subst q; discriminate Hc.
  - unfold parse in P. rewrite P. reflexivity.
Qed.

End C.

Print Assumptions C17_text_second_predicate_not_closed.
Print Assumptions C17_text_cut_after_second_lbracket.
Print Assumptions C17_text_outer_bracket_missing.
Print Assumptions C17_text_unsupported_axis.
Print Assumptions C17_text_unsupported_axis_in_path.
Print Assumptions C17_text_variable.
Print Assumptions C17_text_variable_operand.
Print Assumptions C17_text_unclosed_string_first.

(* ------------------------------------------------------------------ *)
(** * Examples                                                          *)
(* ------------------------------------------------------------------ *)
Module Examples.

Definition nm (s : string) : xstep := SAxis AxChild (NName s) PNil.
Definition pa (s : string) : px := XPath PRel (ROne (nm s)).
Definition p_ab : px := XPath PRel (RCons (nm "a") false (ROne (nm "b"))).

Lemma ps : forall s, name_ok s = true -> path_syntax (pa s).
Proof. intros s H. apply path_syntax_b_ok. unfold pa, nm, path_syntax_b. cbn. reflexivity. Qed.

(* "a/b[c][d" , "a/b[c][" , "a/b[c[d]" *)
Example damaged_second_predicate :
  rejected (compile Api.lit_ok "a/b[c][d" None) /\ rejected (compile Api.lit_ok "a/b[c][" None) /\
  rejected (compile Api.lit_ok "a/b[c[d]" None).
Proof.
  assert (Hp : path_syntax p_ab) by (apply path_syntax_b_ok; vm_compute; reflexivity).
  split; [|split].
  - replace "a/b[c][d" with
      (print_toks (xtoks p_ab ++ TP ILBracket :: xtoks (pa "c") ++ TP IRBracket :: TP ILBracket :: xtoks (pa "d")))
      by (vm_compute; reflexivity).
    apply (reject_print Api.lit_ok None _); [|vm_compute; reflexivity].
    apply C17_text_second_predicate_not_closed; [exact Hp|cbn; auto|cbn; auto|cbn; unfold max_depth; lia].
  - replace "a/b[c][" with
      (print_toks (xtoks p_ab ++ TP ILBracket :: xtoks (pa "c") ++ [TP IRBracket; TP ILBracket]))
      by (vm_compute; reflexivity).
    apply (reject_print Api.lit_ok None _); [|vm_compute; reflexivity].
    apply C17_text_cut_after_second_lbracket; [exact Hp|cbn; auto|cbn; unfold max_depth; lia].
  - replace "a/b[c[d]" with
      (print_toks (xtoks p_ab ++ TP ILBracket :: (xtoks (pa "c") ++ TP ILBracket :: xtoks (pa "d") ++ [TP IRBracket])))
      by (vm_compute; reflexivity).
    apply (reject_print Api.lit_ok None _); [|vm_compute; reflexivity].
    apply C17_text_outer_bracket_missing;
      [exact Hp|apply ps; reflexivity|cbn; auto|cbn; unfold max_depth; lia].
Qed.

Definition r_foo : rpath := RCons (nm "a") false (ROne (SAxis (AxName "foo" []) (NName "b") PNil)).

(* "foo::a" , "namespace::a" , "a/foo::b" *)
Example unsupported_axes :
  compile Api.lit_ok "foo::a" None = Err "unknown axe type" /\
  compile Api.lit_ok "namespace::a" None = Err "xpath: the namespace axis is not supported" /\
  rejected (compile Api.lit_ok "a/foo::b" None).
Proof.
  split; [|split].
  - apply (C17_text_unsupported_axis Api.lit_ok None "foo" "a"); reflexivity.
  - apply (C17_text_unsupported_axis Api.lit_ok None "namespace" "a"); reflexivity.
  - replace "a/foo::b" with (print_min (XPath PRel r_foo)) by (vm_compute; reflexivity).
    apply (proj1 (C17_text_unsupported_axis_in_path Api.lit_ok None PRel r_foo "foo" (fun _ => [])
                    ltac:(cbn; auto) ltac:(vm_compute; reflexivity) ltac:(cbn; unfold max_depth; lia)
                    (fun i => eq_refl) eq_refl eq_refl)).
Qed.

(* "$x" , "$x+1" , "'abc" *)
Example variables_and_unclosed :
  compile Api.lit_ok "$x" None = Err "xpath: variable is not supported" /\
  compile Api.lit_ok "$x+1" None = Err "xpath: variable is not supported" /\
  compile Api.lit_ok "'abc" None = Err "xpath: scanString got unclosed string".
Proof.
  split; [|split].
  - replace "$x" with (print_min (XVar "x")) by (vm_compute; reflexivity).
    apply C17_text_variable. vm_compute. reflexivity.
  - replace "$x+1" with (print_min (XBin BAdd (XVar "x") (XNum (list_of_string "1")))) by (vm_compute; reflexivity).
    apply C17_text_variable_operand; [cbn; repeat split; lia|vm_compute; reflexivity|cbn; unfold max_depth; lia].
  - apply (C17_text_unclosed_string_first Api.lit_ok None "'abc" 39%N); [right; reflexivity|vm_compute; reflexivity|].
    vm_compute. intros H. repeat (destruct H as [H|H]; [discriminate H|]). exact H.
Qed.

(* the class left open: an unclosed string later in the text IS rejected by the model
   (checked here by computation on an instance, not proved in general) *)
Example unclosed_later_instance :
  compile Api.lit_ok "a = 'abc" None = Err "xpath: scanString got unclosed string" /\
  compile Api.lit_ok "f(a, 'abc" None = Err "xpath: scanString got unclosed string".
Proof. split; vm_compute; reflexivity. Qed.

End Examples.
