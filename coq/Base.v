(* Base.v — outcomes, byte strings, small list utilities.  Definitions only
   (executable); lemmas live in the Proofs_*.v files. *)
From Coq Require Export List String Ascii ZArith NArith Bool Arith Lia.
Export ListNotations.
Open Scope string_scope.
Open Scope nat_scope.

(* ------------------------------------------------------------------ *)
(* Outcome of running Go code: a value, a deliberate error raised by the
   package (panic with an error/string value created by the package), or a
   Go runtime error / other abort the package did not intend. *)
Inductive outcome (A : Type) : Type :=
| Val (a : A)
| Complaint (msg : string)
| Crash (kind : string).
Arguments Val {A} a.
Arguments Complaint {A} msg.
Arguments Crash {A} kind.

Definition obind {A B} (x : outcome A) (f : A -> outcome B) : outcome B :=
  match x with
  | Val a => f a
  | Complaint m => Complaint m
  | Crash k => Crash k
  end.
Notation "'do' x <- e ; f" := (obind e (fun x => f))
  (at level 200, x pattern, e at level 100, f at level 200, right associativity).

Definition omap {A B} (f : A -> B) (x : outcome A) : outcome B :=
  do a <- x; Val (f a).

Fixpoint omapM {A B} (f : A -> outcome B) (l : list A) : outcome (list B) :=
  match l with
  | [] => Val []
  | a :: r => do b <- f a; do bs <- omapM f r; Val (b :: bs)
  end.

(* ------------------------------------------------------------------ *)
(* Byte strings *)

Definition str := string.

Fixpoint index_of (w s : string) : option nat :=
  if prefix w s then Some 0 else
  match s with
  | EmptyString => None
  | String _ s' => option_map S (index_of w s')
  end.

Definition contains (s w : string) : bool :=
  match index_of w s with Some _ => true | None => false end.

Fixpoint skipn_s (n : nat) (s : string) : string :=
  match n, s with
  | 0, _ => s
  | S n', String _ s' => skipn_s n' s'
  | S _, EmptyString => EmptyString
  end.

Fixpoint firstn_s (n : nat) (s : string) : string :=
  match n, s with
  | 0, _ => EmptyString
  | S n', String c s' => String c (firstn_s n' s')
  | S _, EmptyString => EmptyString
  end.

Definition has_suffix (s w : string) : bool :=
  let ls := String.length s in
  let lw := String.length w in
  if Nat.leb lw ls then String.eqb (skipn_s (ls - lw) s) w else false.

Fixpoint string_rev_acc (s acc : string) : string :=
  match s with
  | EmptyString => acc
  | String c s' => string_rev_acc s' (String c acc)
  end.
Definition string_rev (s : string) := string_rev_acc s EmptyString.

Definition byte_of (c : ascii) : nat := nat_of_ascii c.

Definition is_upper (c : ascii) : bool :=
  let n := byte_of c in andb (Nat.leb 65 n) (Nat.leb n 90).

Definition lower_ascii (c : ascii) : ascii :=
  if is_upper c then ascii_of_nat (byte_of c + 32) else c.

Fixpoint to_lower (s : string) : string :=
  match s with
  | EmptyString => EmptyString
  | String c s' => String (lower_ascii c) (to_lower s')
  end.

(* Go's unicode.IsSpace restricted to one-byte runes below 0x80. *)
Definition is_space_ascii (c : ascii) : bool :=
  let n := byte_of c in
  orb (andb (Nat.leb 9 n) (Nat.leb n 13)) (Nat.eqb n 32).

Fixpoint trim_left (s : string) : string :=
  match s with
  | String c s' => if is_space_ascii c then trim_left s' else s
  | EmptyString => EmptyString
  end.

Definition trim_space (s : string) : string :=
  string_rev (trim_left (string_rev (trim_left s))).

(* normalize-space after TrimSpace: a white-space character followed by
   another one is dropped, a kept one becomes ' '. *)
Fixpoint collapse_spaces (s : string) : string :=
  match s with
  | EmptyString => EmptyString
  | String c s' =>
    if is_space_ascii c then
      match s' with
      | String c' _ => if is_space_ascii c' then collapse_spaces s'
                       else String " "%char (collapse_spaces s')
      | EmptyString => String " "%char EmptyString
      end
    else String c (collapse_spaces s')
  end.

Definition normalize_space (s : string) : string := collapse_spaces (trim_space s).

(* translate(): the replacement for byte c is given by the first occurrence of
   c in src; beyond the end of dst the byte is deleted. *)
Fixpoint translate_lookup (c : ascii) (src : string) (i : nat) (dst : string) : option (option ascii) :=
  match src with
  | EmptyString => None
  | String a src' =>
    if Ascii.eqb a c then Some (String.get i dst)
    else translate_lookup c src' (S i) dst
  end.

Fixpoint translate (s src dst : string) : string :=
  match s with
  | EmptyString => EmptyString
  | String c s' =>
    match translate_lookup c src 0 dst with
    | None => String c (translate s' src dst)
    | Some (Some d) => String d (translate s' src dst)
    | Some None => translate s' src dst
    end
  end.

Fixpoint join (sep : string) (l : list string) : string :=
  match l with
  | [] => EmptyString
  | [x] => x
  | x :: r => x ++ sep ++ join sep r
  end.

(* lexicographic byte order, as Go compares strings *)
Fixpoint str_compare (a b : string) : comparison :=
  match a, b with
  | EmptyString, EmptyString => Eq
  | EmptyString, String _ _ => Lt
  | String _ _, EmptyString => Gt
  | String x a', String y b' =>
    match Nat.compare (byte_of x) (byte_of y) with
    | Eq => str_compare a' b'
    | c => c
    end
  end.

(* decimal rendering of a natural number (strconv.Itoa on non-negative ints) *)
Definition digit_char (d : nat) : ascii := ascii_of_nat (48 + d).

Fixpoint itoa_fuel (fuel n : nat) (acc : string) : string :=
  match fuel with
  | 0 => acc
  | S f =>
    let acc' := String (digit_char (n mod 10)) acc in
    if Nat.ltb n 10 then acc' else itoa_fuel f (n / 10) acc'
  end.
Definition itoa (n : nat) : string := itoa_fuel (S n) n EmptyString.

Definition is_digit_ascii (c : ascii) : bool :=
  let n := byte_of c in andb (Nat.leb 48 n) (Nat.leb n 57).

Definition string_of_list (l : list ascii) : string := string_of_list_ascii l.
Definition list_of_string (s : string) : list ascii := list_ascii_of_string s.

Definition nth_opt {A} (l : list A) (n : nat) : option A := nth_error l n.

Fixpoint find_index {A} (p : A -> bool) (l : list A) : option nat :=
  match l with
  | [] => None
  | a :: r => if p a then Some 0 else option_map S (find_index p r)
  end.

Definition opt_default {A} (d : A) (o : option A) : A :=
  match o with Some a => a | None => d end.
