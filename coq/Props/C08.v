(* C08 — arithmetic and numeric functions follow XPath 1.0 / IEEE 754.
   Property theorems only; proofs in Proofs/Arith.v.  binary64 is Coq's
   SpecFloat (prec 53, emax 1024); [fadd fsub fmul fdiv] are its correctly
   rounded operations, which S and M share: the theorems are about which
   operation is applied to which converted operand, the IEEE special-value rules
   the property names, the number<->string conversions, mod and unary minus. *)
From Coq Require Import List ZArith String Ascii.
From XP Require Import Base F64 Doc Ast Eval.
From XP.Proofs Require Import Arith.

(* an arithmetic node never fails by itself and applies the IEEE operation to the
   operands converted with number() — whatever the operand types *)
Theorem C08_arith_node : forall D has_ns hcode rm rn rr op l r c m n,
  eval D has_ns hcode rm rn rr l c = Val m -> eval D has_ns hcode rm rn rr r c = Val n ->
  eval D has_ns hcode rm rn rr (QNumeric op l r) c = Val (VNum (arith_op op (as_number D m) (as_number D n))).
Proof. exact eval_numeric. Qed.
Print Assumptions C08_arith_node.

(* NaN propagates through + - * div mod, on either side, for every double *)
Theorem C08_nan_left : forall op x, arith_op op fnan x = fnan.
Proof. exact arith_op_nan_l. Qed.
Print Assumptions C08_nan_left.
Theorem C08_nan_right : forall op x, arith_op op x fnan = fnan.
Proof. exact arith_op_nan_r. Qed.
Print Assumptions C08_nan_right.

(* division by zero and by infinity, for every finite dividend *)
Theorem C08_div_by_zero : forall x t, is_finite x = true ->
  fdiv x (fzer t) = if is_zero x then fnan else finf (xorb (fsign x) t).
Proof. exact fdiv_by_zero. Qed.
Print Assumptions C08_div_by_zero.
Theorem C08_div_by_inf : forall x t, is_finite x = true -> fdiv x (finf t) = fzer (xorb (fsign x) t).
Proof. exact fdiv_by_inf. Qed.
Print Assumptions C08_div_by_inf.

(* unary minus is parsed as x * -1: for every canonical double that is IEEE negation *)
Theorem C08_unary_minus : forall x, valid_binary prec emax x = true -> fmul x fminus_one = fneg x.
Proof. exact unary_minus. Qed.
Print Assumptions C08_unary_minus.

(* mod on non-negative integers below 2^53 with a non-zero divisor is the integer remainder *)
Theorem C08_mod_nonneg : forall a b, (0 <= a < 2 ^ 53)%Z -> (0 < b < 2 ^ 53)%Z ->
  fmod (of_Z a) (of_Z b) = of_Z (a mod b).
Proof. exact fmod_of_Z_nonneg. Qed.
Print Assumptions C08_mod_nonneg.

(* conversion to number: the empty node-set and every string that is not
   [ws] [-] digits [. digits] [ws] convert to NaN; every other string converts by
   the exact decimal conversion *)
Theorem C08_empty_nodeset_nan : forall D, as_number D (VNodes nil) = fnan.
Proof. exact as_number_empty. Qed.
Print Assumptions C08_empty_nodeset_nan.
Theorem C08_string_to_number : forall s,
  (string_to_number s = fnan /\
     (existsb bad_char (number_body s) = true \/ (count_dots (number_body s) >= 2)%nat
      \/ existsb is_digit_ascii (number_body s) = false))
  \/ (exists ip fp, string_to_number s = of_decimal (number_neg s) ip fp /\
        forallb is_digit_ascii ip = true /\ forallb is_digit_ascii fp = true /\
        (ip <> nil \/ fp <> nil) /\
        ((number_body s = ip /\ fp = nil) \/ number_body s = (ip ++ "."%char :: fp)%list)).
Proof. exact string_to_number_cases. Qed.
Print Assumptions C08_string_to_number.

(* string() of every finite double is plain decimal notation: digits, at most a
   leading '-', '.', never an exponent; both zeros print as "0" *)
Theorem C08_number_string_plain : forall x, is_finite x = true ->
  str_all plain_char (xpath_number_string x) = true.
Proof. exact xpath_number_string_plain. Qed.
Print Assumptions C08_number_string_plain.

(* ---- builder link (Proofs/BuildOps.v): the text [E1 op E2] with an arithmetic
   operator compiles to the arithmetic node over the compiled operands ---- *)
From XP Require Import Parse Build Api.
From XP.Proofs Require Import BuildOps.

Theorem C08_compiled_arithmetic : forall re_ok D has_ns hcode rm rn rr text ns op o a1 a2 q1 q2,
  parse text ns = Ok (AOp op a1 a2) -> arith_of op = Some o -> operands_build re_ok a1 a2 q1 q2 ->
  compile re_ok text ns = Ok (QNumeric o q1 q2) /\
  (forall c m n, eval D has_ns hcode rm rn rr q1 c = Val m -> eval D has_ns hcode rm rn rr q2 c = Val n ->
     eval D has_ns hcode rm rn rr (QNumeric o q1 q2) c = Val (VNum (arith_op o (as_number D m) (as_number D n)))).
Proof.
  intros re_ok D has_ns hcode rm rn rr text ns op o a1 a2 q1 q2 Hp Ho Hb.
  destruct (compiled_arithmetic re_ok D has_ns hcode rm rn rr text ns op o a1 a2 q1 q2 Hp Ho Hb) as (K1 & K2 & _).
  split; [exact K1|exact K2].
Qed.
Print Assumptions C08_compiled_arithmetic.

(* ------------------------------------------------------------------ *)
(* END TO END, from the TEXT  E1 op E2  for + - * div mod (operands: number literal, string literal
   or predicate-free path): Compile succeeds and the value is the IEEE operation on number() of the
   operand values. *)
From XP.Proofs Require Import HashInj RoundTripOps RoundTripPaths EndToEndValues.

Theorem C08_end_to_end_arithmetic : forall D has_ns hc rm rn rr,
  hash_ok (hc D) (all_nodes D) ->
  forall re_ok ns b o l r,
  is_operand_px l -> is_operand_px r -> arith_of (opname b) = Some o ->
  xok (XBin b l r) -> (1 + osize l <= max_build_depth)%nat -> (1 + osize r <= max_build_depth)%nat ->
  exists q,
    compile re_ok (print_min (XBin b l r)) ns = Ok q /\
    compile re_ok (print_sp (XBin b l r)) ns = Ok q /\
    forall c, valid D c = true ->
    exists m n, opval D has_ns l c m /\ opval D has_ns r c n /\
      evaluate rm rn rr hc D has_ns q c = Val (VNum (arith_op o (as_number D m) (as_number D n))).
Proof. exact C08_text_arithmetic. Qed.
Print Assumptions C08_end_to_end_arithmetic.

(* number(E), floor(E), ceiling(E) from the TEXT *)
From XP.Proofs Require Import EndToEndNumFns.

Theorem C08_end_to_end_number_floor_ceiling : forall D has_ns hc rm rn rr,
  hash_ok (hc D) (all_nodes D) ->
  forall re_ok ns fn F l,
  In (fn, F) num1_table -> is_operand_px l -> xok (XCall fn (AOne l)) -> (1 + osize l <= max_build_depth)%nat ->
  exists q,
    compile re_ok (print_min (XCall fn (AOne l))) ns = Ok q /\
    compile re_ok (print_sp (XCall fn (AOne l))) ns = Ok q /\
    forall c, valid D c = true ->
    exists m, opval D has_ns l c m /\ opnum D l m /\
      evaluate rm rn rr hc D has_ns q c = Val (VNum (num1 F (as_number D m))).
Proof. exact C08_text_number_floor_ceiling. Qed.
Print Assumptions C08_end_to_end_number_floor_ceiling.
