(* Driver.v — entry points of the extracted model: one function per kind of
   case the harness sends.  All rendering is done here, in Coq. *)
From XP Require Import Base F64 Doc Ast Scan Parse Build Hash Eval Api Render Cache.
Open Scope nat_scope.
Open Scope string_scope.

Fixpoint no_dollar (s : string) : bool :=
  match s with EmptyString => true | String c r => andb (negb (Nat.eqb (byte_of c) 36)) (no_dollar r) end.

(* does the expression use regular expressions outside the literal instance? *)
Fixpoint regex_outside (a : anode) : bool :=
  match a with
  | ARoot _ | ANum _ | AStr _ | AVar _ _ => false
  | AAxis _ _ _ _ _ _ _ input => match input with Some i => regex_outside i | None => false end
  | AFilter i c => orb (regex_outside i) (regex_outside c)
  | AOp _ l r => orb (regex_outside l) (regex_outside r)
  | AGroup i => regex_outside i
  | AFunc _ name args =>
    orb ((fix go (l : list anode) : bool :=
            match l with [] => false | x :: r => orb (regex_outside x) (go r) end) args)
        (if String.eqb name "matches" then
           match args with
           | [_; AStr p] => negb (lit_ok p)
           | [_; _] => true
           | _ => false
           end
         else if String.eqb name "replace" then
           match args with
           | [_; AStr p; AStr t] => negb (andb (lit_ok p) (no_dollar t))
           | [_; _; _] => true
           | _ => false
           end
         else false)
  end.

(* the identity codes of a document, computed once per case *)
Fixpoint query_uses_hash (q : query) : bool :=
  match q with
  | QAncestor _ _ _ | QUnion _ _ => true
  | QAttribute _ i | QChild _ i | QCachedChild _ i | QDescendant _ _ i | QFollowing _ _ i
  | QPreceding _ _ i | QParent _ i | QSelf _ i | QDoD _ _ i | QGroup i | QReverse i
  | QPosition i | QLast i | QLastFunc i | QFn1 _ i | QConcat i => query_uses_hash i
  | QFilter _ a b | QFn2 _ a b | QArg a b | QLogical _ a b | QNumeric _ a b | QBoolean _ a b
  | QMerge a b => orb (query_uses_hash a) (query_uses_hash b)
  | QFn3 _ a b c => orb (query_uses_hash a) (orb (query_uses_hash b) (query_uses_hash c))
  | _ => false
  end.

Definition hash_table (D : tree) : list (node * N) :=
  map (fun n => (n, hash_code D n)) (all_nodes D).

Fixpoint table_lookup (D : tree) (t : list (node * N)) (n : node) : N :=
  match t with
  | [] => hash_code D n
  | (m, h) :: r => if node_eqb m n then h else table_lookup D r n
  end.

Definition table_for (q : query) (D : tree) : list (node * N) :=
  if query_uses_hash q then hash_table D else [].

Definition with_query (text : string) (ns : nsmap) (k : query -> string) : string :=
  match parse text ns with
  | Ok a =>
    if regex_outside a then "U:regex"
    else match compile lit_ok text ns with
         | Ok q => k q
         | Err m => "E:compile:" ++ esc m
         | OutOfFuel => "E:outoffuel"
         end
  | Err m => "E:compile:" ++ esc m
  | OutOfFuel => "E:outoffuel"
  end.

Definition run_sel (D : tree) (has_ns : bool) (text : string) (ns : nsmap) (c : node) : string :=
  with_query text ns (fun q => let t := table_for q D in
    render_outcome (fun l => "N:" ++ addrs l)
                   (select lit_match lit_numsubexp lit_replace_all (fun D' n => table_lookup D' t n) D has_ns q c)).

Definition run_eval (D : tree) (has_ns : bool) (text : string) (ns : nsmap) (c : node) : string :=
  with_query text ns (fun q => let t := table_for q D in
    render_outcome render_value
                   (evaluate lit_match lit_numsubexp lit_replace_all (fun D' n => table_lookup D' t n) D has_ns q c)).

Definition run_sel_all (D : tree) (has_ns : bool) (text : string) (ns : nsmap) : string :=
  with_query text ns (fun q => let t := table_for q D in
    join ";" (map (fun c => render_outcome (fun l => "N:" ++ addrs l)
                     (select lit_match lit_numsubexp lit_replace_all (fun D' n => table_lookup D' t n) D has_ns q c)) (all_nodes D))).

Definition run_eval_all (D : tree) (has_ns : bool) (text : string) (ns : nsmap) : string :=
  with_query text ns (fun q => let t := table_for q D in
    join ";" (map (fun c => render_outcome render_value
                     (evaluate lit_match lit_numsubexp lit_replace_all (fun D' n => table_lookup D' t n) D has_ns q c)) (all_nodes D))).

Definition run_compile (text : string) (ns : nsmap) : string :=
  if String.eqb text "" then "E:compile:empty" else with_query text ns (fun _ => "ok").

Definition run_parse (text : string) (ns : nsmap) : string :=
  render_cres dump_ast (parse text ns).

Definition run_qdump (text : string) (ns : nsmap) : string :=
  with_query text ns dump_query.

Definition run_hash (D : tree) (c : node) : string :=
  hex_fixed 16 (hash_code D c) "".

(* the harness navigator is itself compared with Doc.v: one cursor operation *)
Definition opt_addr (o : option node) : string :=
  match o with Some n => addr n | None => "-" end.
Definition run_nav (D : tree) (op : string) (c : node) : string :=
  if String.eqb op "parent" then opt_addr (move_parent c)
  else if String.eqb op "child" then opt_addr (move_child D c)
  else if String.eqb op "next" then opt_addr (move_next D c)
  else if String.eqb op "prev" then opt_addr (move_prev c)
  else if String.eqb op "first" then opt_addr (move_first c)
  else if String.eqb op "nextattr" then opt_addr (move_next_attr D c)
  else if String.eqb op "value" then "S:" ++ esc (node_value D c)
  else if String.eqb op "name" then "S:" ++ esc (node_prefix D c) ++ ":" ++ esc (local_name D c)
  else if String.eqb op "type" then ntype_num (node_type D c)
  else if String.eqb op "all" then addrs (all_nodes D)
  else "?".

(* number conversions, compared directly with strconv *)
Definition run_num (what : string) (arg : string) : string :=
  if String.eqb what "parse" then f64_str (string_to_number arg)
  else "?".
Definition run_fmt (bits : N) : string :=
  "S:" ++ esc (xpath_number_string (of_bits (Z.of_N bits))).

(* sequential cache histories (Cache.run_cache): "value/len/reset;..." *)
Definition run_cache_str (cap : nat) (ks : list nat) : string :=
  join ";" (map (fun '(r, len, rs) =>
                   (match r with Some v => itoa v | None => "E" end) ++ "/" ++ itoa len ++ "/" ++ itoa rs)
                (run_cache cap ks)).
