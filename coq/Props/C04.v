(* C04 — a compiled expression is a pure function of (document, context node).
   Property theorems only; proofs in Proofs/Purity.v.  An [expr_state] is the
   compiled query plus whatever iteration state earlier direct uses left in the
   shared tree ([dirt]); Select / Evaluate run on a clone (state dropped) and may be
   abandoned after any number of results; [OpDirty] is the verification hook that
   iterates the shared tree itself.  What the theorem relies on — every Go Clone
   method drops iteration state and deep-copies its sub-queries, and Select /
   Evaluate reach the shared tree only through Clone — is NOT proved here: it is the
   regenerated effect table (obligation C05_effects_table_ok, also counted for this
   property) and the correspondence check with histories and the dirtying hook. *)
From Coq Require Import List.
From XP Require Import Base F64 Doc Ast Eval Api.
From XP.Proofs Require Import Purity.

(* after ANY finite history of Select / Evaluate / Dirty operations (any documents,
   contexts, any prefix consumed) the next operation returns what it returns on a
   freshly compiled expression *)
Theorem C04_history_independent : forall rm rn rr hcode q h o,
  let e0 := {| cfg := q; dirt := nil |} in
  snd (step rm rn rr hcode (run rm rn rr hcode h e0) o) = snd (step rm rn rr hcode e0 o).
Proof. exact history_independent. Qed.
Print Assumptions C04_history_independent.

Theorem C04_histories_agree : forall rm rn rr hcode q h1 h2 o,
  snd (step rm rn rr hcode (run rm rn rr hcode h1 {| cfg := q; dirt := nil |}) o) =
  snd (step rm rn rr hcode (run rm rn rr hcode h2 {| cfg := q; dirt := nil |}) o).
Proof. exact histories_agree. Qed.
Print Assumptions C04_histories_agree.

(* the compiled configuration is never changed by using the expression *)
Theorem C04_configuration_invariant : forall rm rn rr hcode h e, cfg (run rm rn rr hcode h e) = cfg e.
Proof. exact cfg_invariant. Qed.
Print Assumptions C04_configuration_invariant.

(* ---- at CURSOR level (Model1/Iter.v, Proofs/IterRefine.v): for the modelled
   query types the facts the theorem above relies on are themselves theorems ---- *)
From XP.Model1 Require Import Iter.
From XP.Proofs Require Import IterRefine.

(* Clone drops every piece of iteration state, whatever state the query is in *)
Theorem C04_clone_forgets : forall st, clone1 st = fresh (clone_cfg (config_of st)).
Proof. exact clone_forgets. Qed.
Print Assumptions C04_clone_forgets.

(* a clone of a query in ANY state yields what a freshly built query yields *)
Theorem C04_clone_same_results : forall D tst st c F n,
  need D tst (config_of st) c <= F -> List.length (lsel D tst (config_of st) c) < n ->
  drain_items D tst F n (clone1 st) c = drain_items D tst F n (fresh (config_of st)) c.
Proof. exact clone_same_results. Qed.
Print Assumptions C04_clone_same_results.

(* Evaluate rewinds a query in ANY state (half-consumed, exhausted, ...) *)
Theorem C04_evaluate_resets : forall D tst st c F n,
  need D tst (config_of st) c <= F -> List.length (lsel D tst (config_of st) c) < n ->
  drain_items D tst F n (evaluate1 st) c = drain_items D tst F n (fresh (config_of st)) c.
Proof. exact evaluate_resets. Qed.
Print Assumptions C04_evaluate_resets.

(* ... and for all fourteen node-set query types of the extended cursor-level model *)
From XP.Model1 Require Import Iter2.
From XP.Proofs Require Import IterRefine2.

Theorem C04_clone_forgets_all : forall st, clone2 st = fresh2 (clone_cfg2 (config_of2 st)).
Proof. exact clone_forgets2. Qed.
Print Assumptions C04_clone_forgets_all.

Theorem C04_evaluate_resets_all : forall D hcode tst st c F n,
  need2 D hcode tst (config_of2 st) c <= F -> List.length (lsel2 D hcode tst (config_of2 st) c) < n ->
  drain_items2 D hcode tst F n (evaluate2 st) c = drain_items2 D hcode tst F n (fresh2 (config_of2 st)) c.
Proof. exact evaluate_resets2. Qed.
Print Assumptions C04_evaluate_resets_all.

(* ------------------------------------------------------------------ *)
(* CURSOR LEVEL, the whole evaluator (Model1/Iter3.v): from ANY state an earlier Evaluate left in
   the query tree (Evaluate resets), a Select run delivers the list-level result and leaves the
   shared context node where it was. *)
From XP.Model1 Require Import Iter3.
From XP.Proofs Require Import IterRefine3.

Theorem C04_cursor_level_any_state_all : forall D has_ns hc rm rn rr q
    (wf : m1_supported q = true) (ns : is_ns q = true) c l s,
  sel D has_ns hc rm rn rr q c = Val l ->
  exists F0, forall F n, F0 <= F -> List.length l < n ->
    exists st', run3 D has_ns hc rm rn rr F n (existT _ q (reset3 q s)) c = (l, E_nil, st', c).
Proof. exact m1_refines_after_evaluate. Qed.
Print Assumptions C04_cursor_level_any_state_all.

(* FROM THE TEXT: after any history of Select / Evaluate / Dirty operations on the compiled
   expression every operation observes what a fresh compilation of the same text observes *)
From XP Require Import Parse Build.
From XP.Proofs Require Import EndToEndTotal.

Theorem C04_text_history_independence : forall re_ok rm rn rr hcode text ns q q',
  compile re_ok text ns = Ok q -> compile re_ok text ns = Ok q' ->
  forall (h : list op) (o : op),
    snd (Purity.step rm rn rr hcode (Purity.run rm rn rr hcode h (mkExpr q [])) o) = snd (Purity.step rm rn rr hcode (mkExpr q' []) o).
Proof. exact C04_text_history_independent. Qed.
Print Assumptions C04_text_history_independence.

(* ------------------------------------------------------------------ *)
(* CURSOR LEVEL, Clone and the API layer (Model1/Clone3.v transliterates every Clone method of
   query.go; Proofs/ApiRefine3.v models Expr.Select / Expr.Evaluate / NodeIterator.MoveNext over
   it): a clone of ANY state of a query tree starts afresh, and after ANY history of Select /
   Evaluate calls with partial consumption — and arbitrary tampering with the shared tree
   (OpDirty3) — a call observes the list-level answer.  This is the theorem of Proofs/Purity.v
   with the clone-based implementation in place of the assumption that the API runs clones. *)
From XP.Model1 Require Import Clone3.
From XP.Proofs Require Import IterRefine4 CloneRefine3 ApiRefine3.

Theorem C04_cursor_level_clone_forgets : forall D has_ns hc rm rn rr q (wf : m1_supported4 q = true) c l,
  sel D has_ns hc rm rn rr q c = Val l ->
  exists F0, forall F n, F0 <= F -> List.length l < n -> forall s,
    exists st', run3 D has_ns hc rm rn rr F n (clone3 (existT _ q s)) c = (l, E_nil, st', c).
Proof. exact clone_forgets3. Qed.
Print Assumptions C04_cursor_level_clone_forgets.

Theorem C04_cursor_level_api_history_independent : forall rm rn rr hcode q (wf : m1_supported4 q = true) o ob,
  expected rm rn rr hcode q o = Some ob ->
  exists F0, forall F, F0 <= F -> forall (h : list (op3 q)) (e0 : state3 q),
    snd (step3 rm rn rr hcode q F (run_api3 rm rn rr hcode q F h e0) o) = ob.
Proof. exact api_history_independent3. Qed.
Print Assumptions C04_cursor_level_api_history_independent.
