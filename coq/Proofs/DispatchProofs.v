(* Proofs/DispatchProofs.v — the dispatch switches of /repo/build.go, as read by
   go/cmd/gendispatch on every run (Generated/DispatchTable.v), agree with the model's builder:

   - the function names the Go switch knows are exactly the names the model knows, and for
     EVERY name and EVERY argument list the Go arity verdict (guards + unconditional indexing)
     is the model's [bad_arity], hence (BuildFacts) is_err / builds of [process];
   - for 0..6 arguments the query the model builds is the one the Go case installs;
   - the axis switch and the operator switch agree name by name (query types, NonFlat, errors).

   The three [_ok] facts are re-proved by vm_compute against the regenerated table; the lifting
   lemmas are proved once. *)
From XP Require Import Base F64 Doc Ast Scan Parse Build Dispatch.
From XP.Generated Require Import DispatchTable.
From XP.Proofs Require Import BuildFacts.
Require Import Lia.
Open Scope string_scope.
Open Scope nat_scope.
Open Scope list_scope.

(* ------------------------------------------------------------------ *)
(** * 1. facts about the regenerated tables (finite, by computation)    *)

Ltac split4 H H1 H2 H3 H4 :=
  apply Bool.andb_true_iff in H; destruct H as [H1 H];
  apply Bool.andb_true_iff in H; destruct H as [H2 H];
  apply Bool.andb_true_iff in H; destruct H as [H3 H];
  apply Bool.andb_true_iff in H; destruct H as [H4 H].
Ltac split2 H H1 H2 :=
  apply Bool.andb_true_iff in H; destruct H as [H1 H];
  apply Bool.andb_true_iff in H; destruct H as [H2 H].

Definition functions_ok : bool :=
  andb (forallb frow_ok go_functions)
  (andb (forallb guards_small go_functions)
  (andb (str_seteq (map fr_name go_functions) fnames)
  (andb go_function_default_is_error
        (forallb (fun r => forallb (fun n => Bool.eqb (go_rejects r n) (bad_arity (fr_name r) n)) counts)
                 go_functions)))).

Theorem dispatch_functions_ok : functions_ok = true.
Proof. vm_compute. reflexivity. Qed.

Definition axes_ok : bool :=
  andb (forallb arow_ok go_axes)
  (andb (str_seteq (map ar_name (filter (fun r => negb (ar_error r)) go_axes)) axis_names)
        go_axis_default_is_error).

Theorem dispatch_axes_ok : axes_ok = true.
Proof. vm_compute. reflexivity. Qed.

Definition operators_ok : bool :=
  andb (forallb orow_ok go_operators)
  (andb (str_seteq (map or_name go_operators) op_names) (negb go_operator_has_default)).

Theorem dispatch_operators_ok : operators_ok = true.
Proof. vm_compute. reflexivity. Qed.

(* ------------------------------------------------------------------ *)
(** * 2. lifting: every name, every argument count                      *)

Lemma str_in_In s l : str_in s l = true <-> In s l.
Proof. apply existsb_eqb_In. Qed.

Lemma str_subset_spec a b : str_subset a b = true -> forall x, str_in x a = true -> str_in x b = true.
Proof.
  unfold str_subset. rewrite forallb_forall. intros H x Hx.
  apply H. apply str_in_In. exact Hx.
Qed.

Lemma str_seteq_spec a b : str_seteq a b = true -> forall x, str_in x a = str_in x b.
Proof.
  unfold str_seteq. intros H x. apply Bool.andb_true_iff in H. destruct H as [H1 H2].
  destruct (str_in x a) eqn:Ea; destruct (str_in x b) eqn:Eb; try reflexivity.
  - rewrite (str_subset_spec _ _ H1 x Ea) in Eb. discriminate.
  - rewrite (str_subset_spec _ _ H2 x Eb) in Ea. discriminate.
Qed.

Lemma guard_stable op k n : k <= 5 -> 6 <= n -> guard_hits (op, k) n = guard_hits (op, k) 6.
Proof.
  intros Hk Hn. unfold guard_hits.
  repeat match goal with |- context [if String.eqb op ?s then _ else _] => destruct (String.eqb op s) end;
  try reflexivity.
  - destruct (Nat.ltb_spec n k); destruct (Nat.ltb_spec 6 k); try reflexivity; lia.
  - destruct (Nat.leb_spec n k); destruct (Nat.leb_spec 6 k); try reflexivity; lia.
  - destruct (Nat.ltb_spec k n); destruct (Nat.ltb_spec k 6); try reflexivity; lia.
  - destruct (Nat.leb_spec k n); destruct (Nat.leb_spec k 6); try reflexivity; lia.
  - destruct (Nat.eqb_spec n k); destruct (Nat.eqb_spec 6 k); try reflexivity; lia.
  - destruct (Nat.eqb_spec n k); destruct (Nat.eqb_spec 6 k); try reflexivity; lia.
Qed.

Lemma go_rejects_stable r n : guards_small r = true -> 6 <= n -> go_rejects r n = go_rejects r 6.
Proof.
  unfold guards_small, go_rejects. intros H Hn.
  apply Bool.andb_true_iff in H. destruct H as [Hg Hneed].
  apply Nat.leb_le in Hneed. f_equal.
  - induction (fr_guards r) as [|[op k] gs IH]; [reflexivity|].
    cbn [forallb] in Hg. apply Bool.andb_true_iff in Hg. destruct Hg as [Hk Hgs].
    cbn [snd] in Hk. apply Nat.leb_le in Hk.
    cbn [existsb]. rewrite (guard_stable op k n Hk Hn), (IH Hgs). reflexivity.
  - destruct (Nat.ltb_spec n (fr_need r)); destruct (Nat.ltb_spec 6 (fr_need r)); try reflexivity; lia.
Qed.

Lemma bad_arity_stable name n : 6 <= n -> bad_arity name n = bad_arity name 6.
Proof.
  intro Hn. unfold bad_arity, min_args, max_args.
  repeat match goal with |- context [if existsb ?f ?l then _ else _] => destruct (existsb f l) end;
  repeat match goal with |- context [Nat.ltb ?a ?b] => destruct (Nat.ltb_spec a b) end;
  try reflexivity; lia.
Qed.

Lemma counts_spec n : n <= 6 -> In n counts.
Proof. intro H. unfold counts. cbn [In]. lia. Qed.

(* the Go arity verdict, as read from build.go, is the model's, for every argument count *)
Theorem dispatch_arity_tie r n : In r go_functions -> go_rejects r n = bad_arity (fr_name r) n.
Proof.
  intro Hr. pose proof dispatch_functions_ok as H. unfold functions_ok in H.
  split4 H Hrows Hsmall Hnames Hdef.
  rewrite forallb_forall in H. specialize (H r Hr). rewrite forallb_forall in H.
  rewrite forallb_forall in Hsmall. specialize (Hsmall r Hr).
  destruct (Nat.le_gt_cases n 6) as [Hn|Hn].
  - apply Bool.eqb_prop. apply H. apply counts_spec. exact Hn.
  - rewrite (go_rejects_stable r n Hsmall) by lia. rewrite (bad_arity_stable (fr_name r) n) by lia.
    apply Bool.eqb_prop. apply H. apply counts_spec. lia.
Qed.
Print Assumptions dispatch_arity_tie.

(* the names of the Go switch are exactly the names the model knows *)
Theorem dispatch_names_tie name : known_function name = str_in name (map fr_name go_functions).
Proof.
  pose proof dispatch_functions_ok as H. unfold functions_ok in H.
  split4 H Hrows Hsmall Hnames Hdef.
  rewrite (str_seteq_spec _ _ Hnames name).
  reflexivity.
Qed.
Print Assumptions dispatch_names_tie.

(* ------------------------------------------------------------------ *)
(** * 3. consequences for [process], for every argument list            *)

Section Consequences.
Variable re_ok : string -> bool.

(* a call the Go switch rejects by argument count does not build *)
Theorem go_rejected_call_is_error r d pre args fl fi :
  In r go_functions -> go_rejects r (List.length args) = true ->
  is_err (process re_ok d (AFunc pre (fr_name r) args) fl fi).
Proof.
  intros Hr Hg. apply process_bad_arity. rewrite <- (dispatch_arity_tie r _ Hr). exact Hg.
Qed.

(* a name the Go switch does not list falls into its default case, an error; so does the model *)
Theorem go_unlisted_name_is_error name d pre args fl fi :
  str_in name (map fr_name go_functions) = false ->
  go_function_default_is_error = true /\ is_err (process re_ok d (AFunc pre name args) fl fi).
Proof.
  intro Hn. split.
  - pose proof dispatch_functions_ok as H. unfold functions_ok in H.
    split4 H Hrows Hsmall Hnames Hdef. exact Hdef.
  - apply process_unknown_function_err. rewrite dispatch_names_tie. exact Hn.
Qed.

(* a call the Go switch accepts builds whenever its arguments build (matches() may still
   reject a constant pattern) *)
Theorem go_accepted_call_builds r d pre args fl fi :
  In r go_functions -> go_rejects r (List.length args) = false ->
  fr_name r <> "matches" -> d < max_build_depth -> args_build re_ok (S d) args ->
  exists res, process re_ok d (AFunc pre (fr_name r) args) fl fi = Ok res.
Proof.
  intros Hr Hg Hm Hd Ha. apply process_good_arity; try assumption.
  - rewrite dispatch_names_tie. apply str_in_In. apply in_map. exact Hr.
  - rewrite <- (dispatch_arity_tie r _ Hr). exact Hg.
Qed.

(* the axis names: supported by the model iff a non-error case of the Go switch *)
Theorem dispatch_axis_names_tie axis :
  supported_axis axis = str_in axis (map ar_name (filter (fun r => negb (ar_error r)) go_axes)).
Proof.
  pose proof dispatch_axes_ok as H. unfold axes_ok in H.
  split2 H Hrows Hnames.
  rewrite (str_seteq_spec _ _ Hnames axis).
  reflexivity.
Qed.

Theorem go_unlisted_axis_is_error axis t fl qi pr :
  str_in axis (map ar_name (filter (fun r => negb (ar_error r)) go_axes)) = false ->
  is_err (mk_axis axis t fl qi pr).
Proof.
  intro H. apply mk_axis_unsupported_err. rewrite dispatch_axis_names_tie. exact H.
Qed.

(* the operator names *)
Theorem dispatch_operator_names_tie op : known_op op = str_in op (map or_name go_operators).
Proof.
  pose proof dispatch_operators_ok as H. unfold operators_ok in H.
  split2 H Hrows Hnames.
  rewrite (str_seteq_spec _ _ Hnames op).
  reflexivity.
Qed.
End Consequences.

Print Assumptions go_rejected_call_is_error.
Print Assumptions go_unlisted_name_is_error.
Print Assumptions go_accepted_call_builds.
Print Assumptions dispatch_axis_names_tie.
Print Assumptions dispatch_operator_names_tie.

(* the hypotheses are met: substring(x) is rejected, substring(x,y,z,w) accepted, zz() unlisted *)
Example dispatch_ex :
  (exists r, In r go_functions /\ fr_name r = "substring" /\ go_rejects r 1 = true /\ go_rejects r 4 = false)
  /\ str_in "zz" (map fr_name go_functions) = false
  /\ model_fn "substring" 3 = Some "functionQuery:substringFunc"
  /\ model_axis "child" = [Some ("childQuery", false); Some ("childQuery", false);
                           Some ("cachedChildQuery", true); Some ("cachedChildQuery", true)]
  /\ model_op "|" = Some ("unionQuery", true).
Proof.
  split; [|vm_compute; repeat split].
  eexists. split; [unfold go_functions; cbn [In]; do 5 right; left; reflexivity|].
  vm_compute. repeat split.
Qed.
