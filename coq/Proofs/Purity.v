(* Purity.v — a compiled expression is a pure function of (document, context
   node): the value is identical to the one from a freshly compiled expression,
   no matter how the same compiled expression was evaluated before.

   In the Go code an [Expr] holds a query tree whose nodes carry MUTABLE
   iteration state (iterators, position counters, hash tables of seen nodes,
   cached children ...).  [Expr.Select] and [Expr.Evaluate] first CLONE the
   tree -- [Clone] copies the configuration and drops the state -- and run on
   the clone.  This file models that as a small state machine on top of the
   list-level evaluator (Eval.v / Api.v) and proves that the observable result
   of every API call is independent of the history of earlier calls.

   WHAT IS AND IS NOT PROVED HERE.  The theorem [history_independent] is simple:
   its whole content is that the API only ever runs clones, and that a clone is
   determined by the configuration alone.  The fact it relies on --

     (a) every Go [Clone] method drops the iteration state and deep-copies the
         sub-queries (so a clone shares no mutable cell with the original), and
     (b) [Select] / [Evaluate] reach the shared tree only through [Clone]

   -- is a property of the Go source, NOT of this model: it is what the
   definitions [clone] and [step] below ASSUME.  It is checked on the Go side
   (correspondence check that replays histories of Select / Evaluate calls,
   including partially consumed iterators, interleaved with a hook that runs
   iterators directly on the shared tree to dirty it, and compares every result
   with the one of a freshly compiled expression).  It is not proved here. *)
From XP Require Import Base F64 Doc Ast Scan Parse Build Hash Eval Api.
Open Scope nat_scope.
Open Scope list_scope.

Section Purity.
(* the parameters of the API (regexp package, identity hash) *)
Variable re_match : string -> string -> option bool.
Variable re_numsubexp : string -> nat.
Variable re_replace_all : string -> string -> string -> string.
Variable hcode : tree -> node -> N.

Notation SELECT := (select re_match re_numsubexp re_replace_all hcode).
Notation EVALUATE := (evaluate re_match re_numsubexp re_replace_all hcode).

(* The shared query tree of an [Expr]: its configuration (what Compile built)
   and [dirt], whatever iteration state earlier direct uses left in the nodes
   of the shared tree -- an arbitrary list, nothing is assumed about it. *)
Record expr_state := mkExpr { cfg : query; dirt : list nat }.

Inductive op :=
| OpSelect (D : tree) (has_ns : bool) (c : node) (consume : nat)
    (* Expr.Select, then [consume] calls of MoveNext on the iterator *)
| OpEvaluate (D : tree) (has_ns : bool) (c : node) (consume : nat)
    (* Expr.Evaluate; a node-set result is an iterator, advanced [consume] times *)
| OpDirty (junk : list nat).
    (* running iterators directly on the shared tree (the verification hook
       does that): replaces the iteration state by something arbitrary *)

(* what the caller observes *)
Inductive observation :=
| ObsNodes (o : outcome (list node))
| ObsValue (o : outcome value)
| ObsNone.

(* Clone: configuration copied, state dropped *)
Definition clone (e : expr_state) : query := cfg e.

Definition truncate_value (n : nat) (v : value) : value :=
  match v with
  | VNodes l => VNodes (firstn n l)
  | _ => v
  end.

Definition step (e : expr_state) (o : op) : expr_state * observation :=
  match o with
  | OpSelect D has_ns c n =>
    (e, ObsNodes (do l <- SELECT D has_ns (clone e) c; Val (firstn n l)))
  | OpEvaluate D has_ns c n =>
    (e, ObsValue (do v <- EVALUATE D has_ns (clone e) c; Val (truncate_value n v)))
  | OpDirty junk =>
    (mkExpr (cfg e) junk, ObsNone)
  end.

Definition run (h : list op) (e : expr_state) : expr_state :=
  fold_left (fun e o => fst (step e o)) h e.

(* the configuration is never touched *)
Lemma step_cfg e o : cfg (fst (step e o)) = cfg e.
Proof. destruct o; reflexivity. Qed.

Theorem cfg_invariant h e : cfg (run h e) = cfg e.
Proof.
  unfold run. revert e. induction h as [|o h IH]; intros e; cbn [fold_left].
  - reflexivity.
  - rewrite IH. apply step_cfg.
Qed.

(* the observation depends on the configuration only *)
Lemma step_obs_cfg e e' o : cfg e = cfg e' -> snd (step e o) = snd (step e' o).
Proof.
  intros H. destruct o; cbn [step snd]; unfold clone; try rewrite H; reflexivity.
Qed.

(* Main theorem: after any history, every operation gives the result it gives
   on a freshly compiled expression. *)
Theorem history_independent (q : query) (h : list op) (o : op) :
  let e0 := mkExpr q [] in
  snd (step (run h e0) o) = snd (step e0 o).
Proof.
  intros e0. apply step_obs_cfg. apply cfg_invariant.
Qed.

(* the same for an arbitrary (already dirty) starting state, and spelled out
   with [fold_left] *)
Theorem history_independent_gen (e : expr_state) (h : list op) (o : op) :
  snd (step (fold_left (fun e o => fst (step e o)) h e) o) = snd (step (mkExpr (cfg e) []) o).
Proof.
  apply step_obs_cfg. exact (cfg_invariant h e).
Qed.

(* two histories, same answer *)
Corollary histories_agree (q : query) (h1 h2 : list op) (o : op) :
  snd (step (run h1 (mkExpr q [])) o) = snd (step (run h2 (mkExpr q [])) o).
Proof. rewrite !history_independent. reflexivity. Qed.

(* spelled out for the two API calls: full consumption = the list-level API *)
Corollary select_after_history (q : query) (h : list op) D has_ns c :
  snd (step (run h (mkExpr q [])) (OpSelect D has_ns c (S (List.length
        (match SELECT D has_ns q c with Val l => l | _ => [] end))))) =
  ObsNodes (SELECT D has_ns q c).
Proof.
  rewrite history_independent. cbn [step snd clone cfg].
  destruct (SELECT D has_ns q c) as [l|m|k]; cbn [obind]; try reflexivity.
  rewrite firstn_all2 by lia. reflexivity.
Qed.

(* only OpDirty changes the state at all *)
Lemma step_state_select e D has_ns c n : fst (step e (OpSelect D has_ns c n)) = e.
Proof. reflexivity. Qed.
Lemma step_state_evaluate e D has_ns c n : fst (step e (OpEvaluate D has_ns c n)) = e.
Proof. reflexivity. Qed.

End Purity.

Print Assumptions cfg_invariant.
Print Assumptions history_independent.
Print Assumptions history_independent_gen.
Print Assumptions histories_agree.

(* ---- a concrete instance: the history is not trivial and does leave dirt ---- *)
Definition pdoc : tree :=
  T KRoot "" "" "" "" []
    [T KElem "" "r" "" "" []
       [T KElem "" "a" "" "" [mkAttr "" "x" "" "1"] [T KText "" "" "" "one" [] []];
        T KElem "" "a" "" "" [mkAttr "" "x" "" "2"] [T KText "" "" "" "two" [] []];
        T KElem "" "b" "" "" [] []]].

Definition pstep := step lit_match lit_numsubexp lit_replace_all hash_code.
Definition prun := run lit_match lit_numsubexp lit_replace_all hash_code.

Example purity_instance :
  exists q,
    compile lit_ok "//a[@x > 1]" None = Ok q /\
    let h := [OpSelect pdoc false root_node 1;            (* partially consumed *)
              OpDirty [3; 1; 4];
              OpEvaluate pdoc false (mkNode [0] None) 0;
              OpDirty [1; 5; 9; 2; 6]] in
    dirt (prun h (mkExpr q [])) = [1; 5; 9; 2; 6] /\
    snd (pstep (prun h (mkExpr q [])) (OpSelect pdoc false root_node 5)) =
      ObsNodes (Val [mkNode [0; 1] None]) /\
    snd (pstep (mkExpr q []) (OpSelect pdoc false root_node 5)) =
      ObsNodes (Val [mkNode [0; 1] None]).
Proof. eexists. split; [vm_compute; reflexivity|]. cbv zeta. repeat split; vm_compute; reflexivity. Qed.
