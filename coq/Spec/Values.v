(* Spec/Values.v — a declarative reading of XPath 1.0, section 3.4 ("Booleans":
   or / and / = / != / <= / < / >= / >) and of the conversion functions
   boolean() and number() of sections 4.3 / 4.4, on ABSTRACT XPath values.

   Written independently of the model (Eval.v): it mentions neither
   [compare_values] nor [cmp_num] / [cmp_str] / [as_bool] ...; it only shares
   the type of operators [cmpop] (Ast.v) and the carrier of IEEE binary64
   numbers [f64 = spec_float] with Coq's [SFcompare].

   The string -> number conversion of section 4.4 is a parameter of the
   specification ([number_of_string]); Proofs/Compare.v instantiates it with
   the model's [string_to_number]. *)
From Coq Require Import List String Ascii Bool ZArith.
From Coq Require Import Floats.SpecFloat.
From XP Require Import Base F64 Ast.
Import ListNotations.

(* The four XPath 1.0 object types.  A node-set is represented by the
   string-values of its nodes, in the order in which the engine holds them
   (3.4 only ever looks at string-values and at emptiness / the first node). *)
Inductive xval :=
| XBool (b : bool)
| XNum (f : f64)
| XStr (s : string)
| XSet (vals : list string).

(* ------------------------------------------------------------------ *)
(* IEEE 754 comparison of two numbers, from the four-way IEEE relation
   (less / equal / greater / unordered) computed by [SFcompare]:
   every operator is false on "unordered" (a NaN operand), except != . *)
Definition holds (op : cmpop) (c : option comparison) : bool :=
  match c with
  | Some Eq => match op with CEq | CLe | CGe => true | _ => false end
  | Some Lt => match op with CNe | CLt | CLe => true | _ => false end
  | Some Gt => match op with CNe | CGt | CGe => true | _ => false end
  | None    => match op with CNe => true | _ => false end
  end.

Definition num_cmp (op : cmpop) (a b : f64) : bool := holds op (SFcompare a b).

Definition is_equality (op : cmpop) : bool :=
  match op with CEq | CNe => true | _ => false end.

Definition bool_to_num (b : bool) : f64 := if b then of_Z 1 else S754_zero false.

Section Spec.
(* section 4.4, number() on a string *)
Variable number_of_string : string -> f64.

(* section 4.3, boolean() *)
Definition xboolean (v : xval) : bool :=
  match v with
  | XBool b => b
  | XNum f => negb (orb (is_zero f) (is_nan f))      (* true iff neither zero nor NaN *)
  | XStr s => negb (String.eqb s "")                 (* true iff length non-zero *)
  | XSet l => match l with [] => false | _ :: _ => true end   (* true iff non-empty *)
  end.

(* section 4.4, number() *)
Definition xnumber (v : xval) : f64 :=
  match v with
  | XBool b => bool_to_num b
  | XNum f => f
  | XStr s => number_of_string s
  | XSet l => match l with [] => S754_nan | s :: _ => number_of_string s end
              (* = number(string(set)); string of an empty set is "", and
                 number("") is NaN *)
  end.

Definition is_bool (v : xval) := match v with XBool _ => true | _ => false end.
Definition is_num (v : xval) := match v with XNum _ => true | _ => false end.

(* 3.4, "when neither object to be compared is a node-set":
   = / != : if at least one is a boolean, compare as booleans; otherwise if
            at least one is a number, compare as numbers; otherwise as strings;
   <= < >= > : convert both to numbers. *)
Definition scalar_compare (op : cmpop) (a b : xval) : bool :=
  match op with
  | CEq | CNe =>
    if orb (is_bool a) (is_bool b) then
      let e := Bool.eqb (xboolean a) (xboolean b) in
      match op with CEq => e | _ => negb e end
    else if orb (is_num a) (is_num b) then
      (* for numbers, != is not the negation of = : NaN != NaN is true *)
      num_cmp op (xnumber a) (xnumber b)
    else
      let e := match a, b with
               | XStr x, XStr y => String.eqb x y
               | _, _ => false          (* not reached: a, b are not node-sets *)
               end in
      match op with CEq => e | _ => negb e end
  | _ => num_cmp op (xnumber a) (xnumber b)
  end.

(* 3.4 in full.  Operand order is preserved everywhere. *)
Definition xcompare (op : cmpop) (a b : xval) : bool :=
  match a, b with
  | XSet l1, XSet l2 =>
      (* some node in the first and some node in the second whose
         string-values compare true *)
      existsb (fun x => existsb (fun y => scalar_compare op (XStr x) (XStr y)) l2) l1
  | XSet l, XNum n =>
      existsb (fun x => scalar_compare op (XNum (number_of_string x)) (XNum n)) l
  | XNum n, XSet l =>
      existsb (fun x => scalar_compare op (XNum n) (XNum (number_of_string x))) l
  | XSet l, XStr s =>
      existsb (fun x => scalar_compare op (XStr x) (XStr s)) l
  | XStr s, XSet l =>
      existsb (fun x => scalar_compare op (XStr s) (XStr x)) l
  | XSet l, XBool b => scalar_compare op (XBool (xboolean (XSet l))) (XBool b)
  | XBool b, XSet l => scalar_compare op (XBool b) (XBool (xboolean (XSet l)))
  | _, _ => scalar_compare op a b
  end.

(* 3.4, or / and: the right operand is not evaluated when the left one
   decides.  [r] is the (possibly failing) evaluation of the right operand. *)
Definition xor_else {E} (l : xval) (r : unit -> E + xval) : E + bool :=
  if xboolean l then inr true
  else match r tt with inl e => inl e | inr v => inr (xboolean v) end.
Definition xand_then {E} (l : xval) (r : unit -> E + xval) : E + bool :=
  if xboolean l then match r tt with inl e => inl e | inr v => inr (xboolean v) end
  else inr false.

(* ------------------------------------------------------------------ *)
(* The same clauses in relational (Prop) form, as the recommendation words
   them ("true if and only if there is a node ... such that ...") *)

Lemma xcompare_set_set : forall op l1 l2,
  xcompare op (XSet l1) (XSet l2) = true <->
  exists x y, In x l1 /\ In y l2 /\ scalar_compare op (XStr x) (XStr y) = true.
Proof.
  intros op l1 l2. cbn [xcompare]. rewrite existsb_exists. split.
  - intros [x [Hx H]]. apply existsb_exists in H. destruct H as [y [Hy H]]. eauto.
  - intros [x [y [Hx [Hy H]]]]. exists x. split; [assumption|].
    apply existsb_exists. eauto.
Qed.

Lemma xcompare_set_num : forall op l n,
  xcompare op (XSet l) (XNum n) = true <->
  exists x, In x l /\ num_cmp op (number_of_string x) n = true.
Proof.
  intros op l n. cbn [xcompare]. rewrite existsb_exists.
  split; intros [x [Hx H]]; exists x; (split; [assumption|]); destruct op; exact H.
Qed.

Lemma xcompare_num_set : forall op l n,
  xcompare op (XNum n) (XSet l) = true <->
  exists x, In x l /\ num_cmp op n (number_of_string x) = true.
Proof.
  intros op l n. cbn [xcompare]. rewrite existsb_exists.
  split; intros [x [Hx H]]; exists x; (split; [assumption|]); destruct op; exact H.
Qed.

Lemma xcompare_set_str_eq : forall l s,
  xcompare CEq (XSet l) (XStr s) = true <-> In s l.
Proof.
  intros l s. cbn [xcompare]. rewrite existsb_exists. split.
  - intros [x [Hx H]]. cbn in H. apply String.eqb_eq in H. subst x. exact Hx.
  - intros H. exists s. split; [assumption|]. cbn. apply String.eqb_refl.
Qed.

Lemma xcompare_set_str_ne : forall l s,
  xcompare CNe (XSet l) (XStr s) = true <-> exists x, In x l /\ x <> s.
Proof.
  intros l s. cbn [xcompare]. rewrite existsb_exists.
  split; intros [x [Hx H]]; exists x; (split; [assumption|]).
  - cbn in H. apply negb_true_iff in H. apply String.eqb_neq in H. exact H.
  - cbn. apply negb_true_iff. apply String.eqb_neq. exact H.
Qed.

Lemma xcompare_set_bool : forall op l b,
  xcompare op (XSet l) (XBool b) =
  scalar_compare op (XBool (match l with [] => false | _ => true end)) (XBool b).
Proof. reflexivity. Qed.

End Spec.
