#!/bin/bash
# usage: fixcommit.sh "message"   -- run baseline then commit all changes in /repo
set -e
export GOFLAGS=-mod=mod GOPROXY=off GOSUMDB=off GOTOOLCHAIN=local
cd /repo
gofmt -l . | grep -v _test || true
out=$(go test -vet=off -count=1 ./... 2>&1) || { echo "$out" | tail -30; echo TESTS FAILED; exit 1; }
n=$(go test -vet=off -count=1 -v ./... 2>&1 | grep -c '^--- PASS')
echo "top-level PASS count: $n"
git add -A
git commit -q -m "$1"
git log --oneline | head -1
