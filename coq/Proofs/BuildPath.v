(* Proofs/BuildPath.v — builder level: the query built from the parse tree of
   a predicate-free location path selects the XPath 1.0 denotation of the
   path. *)
From XP Require Import Base Doc Ast Scan Parse Build Hash Eval Api.
From XP.Spec Require Import Axes Paths.
From XP.Proofs Require Import HashInj AxesSound PathSem.
Open Scope string_scope.
Open Scope nat_scope.
Open Scope list_scope.

(* ------------------------------------------------------------------ *)
(* parse trees of predicate-free paths *)

Definition axis_name (a : axis) : string :=
  match a with
  | Child => "child"
  | Descendant => "descendant"
  | DescendantOrSelf => "descendant-or-self"
  | Parent => "parent"
  | Ancestor => "ancestor"
  | AncestorOrSelf => "ancestor-or-self"
  | FollowingSibling => "following-sibling"
  | PrecedingSibling => "preceding-sibling"
  | Attribute => "attribute"
  | Self => "self"
  | Following => "following"
  | Preceding => "preceding"
  end.

Definition step_ast (s : sstep) (prop : string) (inp : option anode) : anode :=
  AAxis (axis_name (s_axis s)) (nt_type (s_test s)) (nt_pre (s_test s)) (nt_loc (s_test s))
        prop (nt_hasns (s_test s)) (nt_ns (s_test s)) inp.

(* the steps innermost LAST (reversed path) and the parse tree of the path;
   the [prop] field of an axis node and the text of the root node are
   arbitrary (the builder ignores them) *)
Inductive rpath_ast (abs : bool) : list sstep -> option anode -> Prop :=
| RA_rel : abs = false -> rpath_ast abs [] None
| RA_abs : forall sl, abs = true -> rpath_ast abs [] (Some (ARoot sl))
| RA_step : forall s r inp prop,
    rpath_ast abs r inp -> rpath_ast abs (s :: r) (Some (step_ast s prop inp)).

Fixpoint ast_rev (abs : bool) (rsteps : list sstep) : option anode :=
  match rsteps with
  | [] => if abs then Some (ARoot "/") else None
  | s :: r => Some (step_ast s "" (ast_rev abs r))
  end.

(* step1/.../stepk  (abs = false)  or  /step1/.../stepk  (abs = true) *)
Definition to_ast (abs : bool) (steps : list sstep) : option anode := ast_rev abs (rev steps).

Lemma ast_rev_rpath : forall abs r, rpath_ast abs r (ast_rev abs r).
Proof.
  intros abs r. induction r as [|s r IH]; cbn [ast_rev].
  - destruct abs; constructor; reflexivity.
  - constructor. assumption.
Qed.

(* ------------------------------------------------------------------ *)
(* processAxis, unfolded once *)

Section Build.
Variable re_ok : string -> bool.

Definition finish (r : cres (query * props)) : BR :=
  let* (q, pr) := r in Ok (q, pr, mkFi (Some q) true).

Definition proc_opt (depth : nat) (oa : option anode) (fl : flags) : cres (query * props) :=
  match oa with
  | None => Ok (QContext, pr_none)
  | Some a => let* (q, pr, _) := process re_ok depth a fl fi_nil in Ok (q, pr)
  end.

Definition ginput_of (input : option anode) : option anode :=
  match input with Some (AAxis _ _ _ _ _ _ _ g) => g | _ => None end.

Definition fused_cond (fl : flags) (axis : string) (input : option anode) : bool :=
  match input with
  | Some (AAxis iax itt ipre iloc _ _ _ _) =>
    andb (andb (negb (f_filter fl)) (String.eqb axis "child"))
         (andb (andb (String.eqb iax "descendant-or-self") (ntype_eqb itt NTAll))
               (andb (String.eqb iloc "") (String.eqb ipre "")))
  | _ => false
  end.

Lemma process_axis_eq : forall depth axis nty pre loc prop hasns ns input fl fi,
  process re_ok depth (AAxis axis nty pre loc prop hasns ns input) fl fi =
  if Nat.ltb max_build_depth (S depth) then Err "the xpath expressions is too complex"
  else
    let t := axis_test nty pre loc hasns ns in
    if fused_cond fl axis input then
      let* (qg, pr) := proc_opt (S depth) (ginput_of input) fl_smart in
      finish (Ok (QDescendant false t qg, set_nonflat pr))
    else
      let smart := andb (negb (f_filter fl))
                        (orb (String.eqb axis "descendant") (String.eqb axis "descendant-or-self")) in
      let* (qi, pr) := proc_opt (S depth) input (mkF smart false false) in
      finish (mk_axis axis t fl qi pr).
Proof.
  intros. cbn [process]. destruct (Nat.ltb max_build_depth (S depth)); [reflexivity|].
  cbv zeta. unfold finish.
  destruct input as [inp|]; [|reflexivity].
  destruct inp; cbn [fused_cond ginput_of proc_opt];
    try (match goal with |- context [process re_ok ?d ?a ?f ?i] =>
           destruct (process re_ok d a f i) as [[[? ?] ?]| |]; reflexivity end).
  match goal with |- context [if ?c then _ else _] => destruct c end.
  - destruct input as [g|]; cbn [proc_opt]; [|reflexivity].
    destruct (process re_ok (S depth) g fl_smart fi_nil) as [[[? ?] ?]| |]; reflexivity.
  - match goal with |- context [process re_ok ?d ?a ?f ?i] =>
           destruct (process re_ok d a f i) as [[[? ?] ?]| |]; reflexivity end.
Qed.

End Build.

(* ------------------------------------------------------------------ *)
(* the builder's axis switch on the twelve axis names *)

Definition is_desc (a : axis) : bool :=
  match a with Descendant | DescendantOrSelf => true | _ => false end.

Definition mk_axis_q (a : axis) (t : ntest) (smart nonflat : bool) (qi : query) : query :=
  match a with
  | Child => if nonflat then QCachedChild t qi else QChild t qi
  | Descendant => if smart then QDoD false t qi else QDescendant false t qi
  | DescendantOrSelf => if smart then QDoD true t qi else QDescendant true t qi
  | _ => axis_query a t qi
  end.

Lemma mk_axis_name : forall a t fl qi pr,
  exists pr', mk_axis (axis_name a) t fl qi pr
              = Ok (mk_axis_q a t (f_smart fl) (pr_nonflat pr) qi, pr').
Proof. intros. destruct a; eexists; reflexivity. Qed.

Lemma smart_flag_name : forall a smart,
  andb (negb (f_filter (mkF smart false false)))
       (orb (String.eqb (axis_name a) "descendant") (String.eqb (axis_name a) "descendant-or-self"))
  = is_desc a.
Proof. intros. destruct a; reflexivity. Qed.

Lemma axis_name_child : forall a, String.eqb (axis_name a) "child" = true -> a = Child.
Proof. intros a H. destruct a; try discriminate. reflexivity. Qed.

Lemma axis_name_dos : forall a,
  String.eqb (axis_name a) "descendant-or-self" = true -> a = DescendantOrSelf.
Proof. intros a H. destruct a; try discriminate. reflexivity. Qed.

Lemma ntype_eqb_all : forall x, ntype_eqb x NTAll = true -> x = NTAll.
Proof. intros x H. destruct x; try discriminate. reflexivity. Qed.

(* ------------------------------------------------------------------ *)
Section Sem.
Variable D : tree.
Variable has_ns : bool.
Variable hcode : node -> N.
Variable rm : string -> string -> option bool.
Variable rn : string -> nat.
Variable rr : string -> string -> string -> string.
Hypothesis Hhash : hash_ok hcode (all_nodes D).
Variable re_ok : string -> bool.

Notation QDEN := (qden D has_ns hcode rm rn rr).
Notation SREL a t := (step_rel D has_ns (mkStep a t)).

(* equality of relations from valid context nodes *)
Definition req_v (R S : rel) : Prop := forall c, valid D c = true -> forall n, R c n <-> S c n.

(* T is a part of P that still covers P by descendant-or-self: good enough
   as the input of a descendant / descendant-or-self step *)
Definition approx (T P : rel) : Prop :=
  (forall c, valid D c = true -> forall n, T c n -> P c n) /\
  (forall c, valid D c = true -> forall x, P c x ->
     exists y, T c y /\ (y = x \/ axis_descendant D y x)).

Definition vrel (T : rel) : Prop :=
  forall c, valid D c = true -> forall n, T c n -> valid D n = true.

Lemma qden_ext_v : forall q R R', req_v R R' -> QDEN q R -> QDEN q R'.
Proof.
  intros q R R' E H c Hc. destruct (H c Hc) as (l & E1 & Hv & Hin).
  exists l. repeat split; auto; intros Hn; [apply (E c Hc), Hin|apply Hin, (E c Hc)]; assumption.
Qed.

Lemma qden_vrel : forall q T, QDEN q T -> vrel T.
Proof.
  intros q T H c Hc n Hn. destruct (H c Hc) as (l & _ & Hv & Hin). apply Hv, Hin. assumption.
Qed.

Lemma req_v_approx : forall T P, req_v T P -> approx T P.
Proof.
  intros T P E. split.
  - intros c Hc n. apply (E c Hc).
  - intros c Hc x Hx. exists x. split; [apply (E c Hc); assumption|left; reflexivity].
Qed.

Lemma req_v_comp : forall T P S, req_v T P -> req_v (comp T S) (comp P S).
Proof.
  intros T P S E c Hc n. unfold comp.
  split; intros (k & Hk & Hn); exists k; (split; [apply (E c Hc); assumption|assumption]).
Qed.

Lemma req_v_trans : forall A B C, req_v A B -> req_v B C -> req_v A C.
Proof. intros A B C H1 H2 c Hc n. rewrite (H1 c Hc n). apply (H2 c Hc). Qed.

Lemma req_v_sym : forall A B, req_v A B -> req_v B A.
Proof. intros A B H c Hc n. symmetry. apply (H c Hc). Qed.

(* (ii-a) a descendant step does not see the difference *)
Lemma approx_descendant : forall T P t,
  approx T P -> req_v (comp T (SREL Descendant t)) (comp P (SREL Descendant t)).
Proof.
  intros T P t [Hsub Hcov] c Hc n. unfold comp, step_rel. cbn [s_axis s_test axis_rel]. split.
  - intros (k & Hk & Hn). exists k. split; [apply (Hsub c Hc); assumption|assumption].
  - intros (x & Hx & Hd & Hm). destruct (Hcov c Hc x Hx) as (y & Hy & [->|Hyx]).
    + exists x. auto.
    + exists y. split; [assumption|]. split; [|assumption].
      eapply axis_descendant_trans; eassumption.
Qed.

Lemma approx_descendant_or_self : forall T P t,
  approx T P -> req_v (comp T (SREL DescendantOrSelf t)) (comp P (SREL DescendantOrSelf t)).
Proof.
  intros T P t [Hsub Hcov] c Hc n. unfold comp, step_rel. cbn [s_axis s_test axis_rel]. split.
  - intros (k & Hk & Hn). exists k. split; [apply (Hsub c Hc); assumption|assumption].
  - intros (x & Hx & (Hv & Hd) & Hm). destruct (Hcov c Hc x Hx) as (y & Hy & [->|Hyx]).
    + exists x. repeat split; auto.
    + exists y. split; [assumption|]. split; [|assumption]. split; [assumption|]. right.
      destruct Hd as [->|Hd]; [assumption|]. eapply axis_descendant_trans; eassumption.
Qed.

(* (ii-b) descendant-over-descendant keeps the invariant *)
Lemma approx_dod : forall T P t,
  approx T P ->
  approx (comp T (dod_rel D has_ns false t)) (comp P (SREL Descendant t)).
Proof.
  intros T P t HA. pose proof (approx_descendant T P t HA) as HE.
  destruct HA as [Hsub Hcov]. unfold dod_rel. cbn [andb]. split.
  - intros c Hc n (k & Hk & (Hd & Hm & _)). apply (HE c Hc). exists k. split; [assumption|].
    split; assumption.
  - intros c Hc x Hx. apply (HE c Hc) in Hx. destruct Hx as (k & Hk & Hd & Hm).
    cbn [s_axis s_test axis_rel] in Hd, Hm.
    destruct (top_match_exists D has_ns t k x Hd Hm) as (m0 & Htop & Hrel).
    exists m0. split; [exists k; split; assumption|].
    destruct Hrel as [->|Hrel]; [left; reflexivity|right; assumption].
Qed.

Lemma approx_dod_self : forall T P t,
  vrel T -> approx T P ->
  approx (comp T (dod_rel D has_ns true t)) (comp P (SREL DescendantOrSelf t)).
Proof.
  intros T P t HV HA. pose proof (approx_descendant_or_self T P t HA) as HE.
  destruct HA as [Hsub Hcov]. unfold dod_rel. cbn [andb]. split.
  - intros c Hc n (k & Hk & Hn). apply (HE c Hc). exists k. split; [assumption|].
    unfold step_rel. cbn [s_axis s_test axis_rel].
    destruct (match_test D has_ns t k) eqn:Ek.
    + destruct Hn as [-> Hvk]. split; [|assumption]. split; [assumption|left; reflexivity].
    + destruct Hn as (Hd & Hm & _). split; [|assumption]. split; [apply Hd|right; assumption].
  - intros c Hc x Hx. apply (HE c Hc) in Hx. destruct Hx as (k & Hk & (Hvx & Hd) & Hm).
    cbn [s_axis s_test] in Hm.
    destruct (match_test D has_ns t k) eqn:Ek.
    + exists k. split.
      * exists k. split; [assumption|]. rewrite Ek. split; [reflexivity|]. apply (HV c Hc). assumption.
      * destruct Hd as [->|Hd]; [left; reflexivity|right; assumption].
    + destruct Hd as [->|Hd]; [congruence|].
      destruct (top_match_exists D has_ns t k x Hd Hm) as (m0 & Htop & Hrel).
      exists m0. split; [exists k; split; [assumption|rewrite Ek; assumption]|].
      destruct Hrel as [->|Hrel]; [left; reflexivity|right; assumption].
Qed.

(* (i) the  //name  shortcut:  child::t o descendant-or-self::node() = descendant::t *)
Lemma child_of_dos_is_descendant : forall t0 t x z,
  (forall m, match_test D has_ns t0 m = true) ->
  ((exists y, SREL DescendantOrSelf t0 x y /\ SREL Child t y z) <-> SREL Descendant t x z).
Proof.
  intros t0 t x z Hall. unfold step_rel. cbn [s_axis s_test axis_rel]. split.
  - intros (y & ((Hvy & Hy) & _) & (Hvz & Hya & Hza & i & Ez) & Hm). split; [|assumption].
    destruct Hy as [->|(_ & Hxa & _ & r & Hr & Ey)].
    + repeat split; auto. exists [i]. split; [discriminate|assumption].
    + repeat split; auto. exists (r ++ [i]). split; [destruct r; discriminate|].
      rewrite Ez, Ey, app_assoc. reflexivity.
  - intros ((Hvz & Hxa & Hza & r & Hr & Ez) & Hm).
    destruct (snoc_cases r) as [->|(r' & i & ->)]; [congruence|].
    exists (mkNode (npath x ++ r') None).
    assert (Hvy : valid D (mkNode (npath x ++ r') None) = true).
    { destruct z as [zp za]. cbn [npath nattr] in *. subst za zp.
      rewrite app_assoc in Hvz. eapply valid_prefix; eassumption. }
    split; [split; [|apply Hall]|split; [|assumption]].
    + split; [assumption|]. destruct r' as [|j r''].
      * left. rewrite app_nil_r. apply node_eq; auto.
      * right. repeat split; auto. exists (j :: r''). split; [discriminate|reflexivity].
    + repeat split; auto. exists i. cbn [npath]. rewrite Ez, app_assoc. reflexivity.
Qed.

Lemma fuse_rel : forall P t0 t,
  (forall m, match_test D has_ns t0 m = true) ->
  req_v (comp (comp P (SREL DescendantOrSelf t0)) (SREL Child t)) (comp P (SREL Descendant t)).
Proof.
  intros P t0 t Hall c Hc z. unfold comp. split.
  - intros (y & (x & Hx & Hxy) & Hyz). exists x. split; [assumption|].
    apply (child_of_dos_is_descendant t0 t x z Hall). eauto.
  - intros (x & Hx & Hxz). apply (child_of_dos_is_descendant t0 t x z Hall) in Hxz.
    destruct Hxz as (y & Hxy & Hyz). exists y. split; [|assumption]. exists x. auto.
Qed.

Lemma match_test_node : forall t0 m,
  nt_type t0 = NTAll -> nt_loc t0 = "" -> nt_pre t0 = "" -> match_test D has_ns t0 m = true.
Proof.
  intros t0 m H1 H2 H3. unfold match_test. rewrite H1, H2, H3.
  destruct (node_type D m); reflexivity.
Qed.

(* ---- the denotation of a reversed step list ---- *)

Definition P_of (abs : bool) (rsteps : list sstep) : rel :=
  fun c n => path_den D has_ns (rev rsteps) (if abs then root_node else c) n.

Lemma P_of_cons : forall abs s r,
  req_v (P_of abs (s :: r)) (comp (P_of abs r) (step_rel D has_ns s)).
Proof.
  intros abs s r c Hc n. unfold P_of, comp. cbn [rev]. apply path_den_snoc.
Qed.

(* the invariant of the builder on paths *)
Definition inv (smart : bool) (T P : rel) : Prop := if smart then approx T P else req_v T P.

Lemma inv_exact : forall smart T P, req_v T P -> inv smart T P.
Proof. intros [|] T P H; [apply req_v_approx|]; assumption. Qed.

Definition good (abs : bool) (rsteps : list sstep) (oa : option anode) : Prop :=
  forall depth smart,
    depth + List.length rsteps + (if abs then 1 else 0) <= max_build_depth ->
    exists q pr, proc_opt re_ok depth oa (mkF smart false false) = Ok (q, pr) /\ q <> QNil /\
    exists T, QDEN q T /\ inv smart T (P_of abs rsteps).

Lemma mk_axis_q_den : forall a t smart nonflat qi T P,
  QDEN qi T -> inv (is_desc a) T P ->
  exists T', QDEN (mk_axis_q a t smart nonflat qi) T' /\ inv smart T' (comp P (SREL a t)).
Proof.
  intros a t smart nonflat qi T P Hq HI.
  assert (Hexact : is_desc a = false ->
            exists T', QDEN (axis_query a t qi) T' /\ inv smart T' (comp P (SREL a t))).
  { intros Ea. rewrite Ea in HI. cbn [inv] in HI.
    exists (comp T (SREL a t)). split; [apply qden_axis; assumption|].
    apply inv_exact, req_v_comp. assumption. }
  destruct a; try (apply Hexact; reflexivity); cbn [is_desc inv] in HI; cbn [mk_axis_q].
  - (* child *)
    exists (comp T (SREL Child t)). split.
    + destruct nonflat; [apply qden_cached_child|apply (qden_axis _ _ _ _ _ _ Hhash Child)]; assumption.
    + apply inv_exact, req_v_comp. assumption.
  - (* descendant *)
    destruct smart; cbn [inv].
    + exists (comp T (dod_rel D has_ns false t)). split; [apply qden_dod; assumption|].
      apply approx_dod. assumption.
    + exists (comp T (SREL Descendant t)). split.
      * apply (qden_axis _ _ _ _ _ _ Hhash Descendant). assumption.
      * apply approx_descendant. assumption.
  - (* descendant-or-self *)
    destruct smart; cbn [inv].
    + exists (comp T (dod_rel D has_ns true t)). split; [apply qden_dod; assumption|].
      apply approx_dod_self; [eapply qden_vrel; eassumption|assumption].
    + exists (comp T (SREL DescendantOrSelf t)). split.
      * apply (qden_axis _ _ _ _ _ _ Hhash DescendantOrSelf). assumption.
      * apply approx_descendant_or_self. assumption.
Qed.

Lemma inv_ext_r : forall smart T P P', req_v P P' -> inv smart T P -> inv smart T P'.
Proof.
  intros [|] T P P' E H; cbn [inv] in *.
  - destruct H as [Hs Hc]. split.
    + intros c Hv n Hn. apply (E c Hv). apply (Hs c Hv). assumption.
    + intros c Hv x Hx. apply (E c Hv) in Hx. apply (Hc c Hv). assumption.
  - eapply req_v_trans; eassumption.
Qed.

Lemma good_all : forall abs n rsteps oa,
  List.length rsteps <= n -> rpath_ast abs rsteps oa -> good abs rsteps oa.
Proof.
  intros abs. induction n as [|n IH]; intros rsteps oa Hlen HA.
  - destruct rsteps; [|simpl in Hlen; lia].
    inversion HA; subst; intros depth smart Hd; cbn [proc_opt].
    + exists QContext, pr_none. split; [reflexivity|]. split; [discriminate|].
      exists (fun c n => n = c). split; [apply qden_context|].
      apply inv_exact. intros c Hc n. unfold P_of. cbn. reflexivity.
    + cbn [process]. cbn [List.length] in Hd.
      replace (Nat.ltb max_build_depth (S depth)) with false
        by (symmetry; apply Nat.ltb_ge; lia).
      exists QAbsolute, pr_none. split; [reflexivity|]. split; [discriminate|].
      exists (fun _ n => n = root_node). split; [apply qden_absolute|].
      apply inv_exact. intros c Hc n. unfold P_of. cbn. reflexivity.
  - inversion HA as [Ha|sl Ha|s r inp prop HA']; subst.
    + apply (IH [] None); [simpl; lia|assumption].
    + apply (IH [] (Some (ARoot sl))); [simpl; lia|assumption].
    + cbn [List.length] in Hlen.
      intros depth smart Hd. cbn [List.length] in Hd. cbn [proc_opt]. unfold step_ast.
      rewrite process_axis_eq.
      replace (Nat.ltb max_build_depth (S depth)) with false
        by (symmetry; apply Nat.ltb_ge; destruct abs; lia).
      cbv zeta. destruct s as [a t]. cbn [s_axis s_test].
      destruct (fused_cond (mkF smart false false) (axis_name a) inp) eqn:Ef.
      * (* the //name shortcut *)
        inversion HA' as [Hb|sl Hb|s2 r2 inp2 prop2 HA2]; subst; try discriminate.
        unfold step_ast in Ef. cbn [fused_cond f_filter negb] in Ef.
        destruct s2 as [a2 t2]. cbn [s_axis s_test] in Ef.
        repeat rewrite andb_true_iff in Ef.
        destruct Ef as ((_ & Ec) & ((Ed & Ety) & (Eloc & Epre))).
        apply axis_name_child in Ec. apply axis_name_dos in Ed. apply ntype_eqb_all in Ety.
        apply String.eqb_eq in Eloc. apply String.eqb_eq in Epre. subst a a2.
        unfold step_ast. cbn [ginput_of s_axis s_test].
        cbn [List.length] in Hlen, Hd.
        destruct (IH r2 inp2) with (depth := S depth) (smart := true)
          as (qg & pr & Eg & _ & T & HqT & HI); [lia|assumption|lia|].
        change fl_smart with (mkF true false false). rewrite Eg. cbn [cbind finish].
        eexists. eexists. split; [reflexivity|]. split; [discriminate|].
        exists (comp T (SREL Descendant (axis_test (nt_type t) (nt_pre t) (nt_loc t) (nt_hasns t) (nt_ns t)))).
        replace (axis_test (nt_type t) (nt_pre t) (nt_loc t) (nt_hasns t) (nt_ns t)) with t
          by (destruct t; reflexivity).
        split; [apply (qden_axis _ _ _ _ _ _ Hhash Descendant); assumption|].
        apply inv_exact. cbn [inv] in HI.
        eapply req_v_trans; [apply approx_descendant; exact HI|].
        apply req_v_sym.
        eapply req_v_trans; [apply P_of_cons|].
        eapply req_v_trans; [apply req_v_comp, P_of_cons|].
        apply fuse_rel. intros m. apply match_test_node; assumption.
      * (* the regular case *)
        rewrite smart_flag_name.
        destruct (IH r inp) with (depth := S depth) (smart := is_desc a)
          as (qi & pr & Ei & _ & T & HqT & HI); [lia|assumption|lia|].
        rewrite Ei. cbn [cbind].
        replace (axis_test (nt_type t) (nt_pre t) (nt_loc t) (nt_hasns t) (nt_ns t)) with t
          by (destruct t; reflexivity).
        destruct (mk_axis_name a t (mkF smart false false) qi pr) as (pr' & Em).
        rewrite Em. cbn [finish cbind f_smart].
        eexists. eexists. split; [reflexivity|].
        split; [destruct a, smart, (pr_nonflat pr); discriminate|].
        destruct (mk_axis_q_den a t smart (pr_nonflat pr) qi T (P_of abs r) HqT HI) as (T' & HqT' & HI').
        exists T'. split; [assumption|].
        eapply inv_ext_r; [|exact HI']. apply req_v_sym. apply (P_of_cons abs (mkStep a t) r).
Qed.

End Sem.

(* ------------------------------------------------------------------ *)
(* the headline statements *)

(* what it means for a built query to select the denotation of the path *)
Definition selects_path D has_ns hcode rm rn rr (q : query) (abs : bool) (steps : list sstep) : Prop :=
  forall c, valid D c = true ->
  exists l, sel D has_ns hcode rm rn rr q c = Val l /\
            (forall n, In n (nodes_of l) -> valid D n = true) /\
            (forall n, In n (nodes_of l) <->
                       path_den D has_ns steps (if abs then root_node else c) n).

(* any parse tree of the path shape (arbitrary [prop] fields and root text) *)
Theorem build_path_den_gen : forall D has_ns hcode rm rn rr re_ok abs steps a,
  hash_ok hcode (all_nodes D) ->
  List.length steps < max_build_depth ->
  rpath_ast abs (rev steps) (Some a) ->
  exists q pr fi, process re_ok 0 a fl_none fi_nil = Ok (q, pr, fi) /\ q <> QNil /\
                  selects_path D has_ns hcode rm rn rr q abs steps.
Proof.
  intros D has_ns hcode rm rn rr re_ok abs steps a Hh Hlen HA.
  destruct (good_all D has_ns hcode rm rn rr Hh re_ok abs (List.length (rev steps)) (rev steps) (Some a)
              (le_n _) HA 0 false) as (q & pr & E & Hnil & T & HqT & HI).
  { rewrite rev_length. destruct abs; lia. }
  cbn [proc_opt] in E. change (mkF false false false) with fl_none in E.
  destruct (process re_ok 0 a fl_none fi_nil) as [[[q0 pr0] fi0]| |] eqn:Ep; try discriminate.
  cbn [cbind] in E. inversion E; subst q0 pr0.
  exists q, pr, fi0. split; [reflexivity|]. split; [assumption|].
  intros c Hc. cbn [inv] in HI. destruct (HqT c Hc) as (l & El & Hv & Hin).
  exists l. repeat split; auto.
  - intros H. apply Hin in H. apply (HI c Hc) in H. unfold P_of in H. rewrite rev_involutive in H. exact H.
  - intros H. apply Hin. apply (HI c Hc). unfold P_of. rewrite rev_involutive. exact H.
Qed.
Print Assumptions build_path_den_gen.

Theorem build_path_den : forall D has_ns hcode rm rn rr re_ok abs steps a,
  hash_ok hcode (all_nodes D) ->
  List.length steps < max_build_depth ->
  to_ast abs steps = Some a ->
  exists q pr fi, process re_ok 0 a fl_none fi_nil = Ok (q, pr, fi) /\ q <> QNil /\
                  selects_path D has_ns hcode rm rn rr q abs steps.
Proof.
  intros D has_ns hcode rm rn rr re_ok abs steps a Hh Hlen HA.
  apply build_path_den_gen; auto. rewrite <- HA. apply ast_rev_rpath.
Qed.
Print Assumptions build_path_den.

(* Compile (Api.v): whenever the parser returns a tree of the path shape *)
Corollary compile_path_den : forall D has_ns hcode rm rn rr re_ok fuel text ns abs steps a,
  hash_ok hcode (all_nodes D) ->
  List.length steps < max_build_depth ->
  text <> "" ->
  parse_fuel fuel text ns = Ok a ->
  rpath_ast abs (rev steps) (Some a) ->
  exists q, compile_fuel re_ok fuel text ns = Ok q /\
            selects_path D has_ns hcode rm rn rr q abs steps.
Proof.
  intros D has_ns hcode rm rn rr re_ok fuel text ns abs steps a Hh Hlen Ht Hp HA.
  destruct (build_path_den_gen D has_ns hcode rm rn rr re_ok abs steps a Hh Hlen HA)
    as (q & pr & fi & E & Hnil & Hs).
  exists q. split; [|assumption].
  unfold compile_fuel, build_fuel. apply String.eqb_neq in Ht. rewrite Ht, Hp. cbn [cbind].
  rewrite E. cbn [cbind]. destruct q; try reflexivity. congruence.
Qed.
Print Assumptions compile_path_den.

(* ------------------------------------------------------------------ *)
Module Examples.
Import AxesSound.Examples.

Definition node_t : ntest := mkTest NTAll "" "" false "".

(*  //a//b : two //name shortcuts *)
Definition p1 : list sstep :=
  [ mkStep DescendantOrSelf node_t; mkStep Child (name_t "a");
    mkStep DescendantOrSelf node_t; mkStep Child (name_t "b") ].

Example ex_p1_parse :
  exists a, parse_fuel (default_fuel "//a//b") "//a//b" None = Ok a /\ rpath_ast true (rev p1) (Some a).
Proof.
  eexists. split; [vm_compute; reflexivity|].
  cbn [rev app p1].
  apply (RA_step true (mkStep Child (name_t "b")) _ _ "").
  apply (RA_step true (mkStep DescendantOrSelf node_t) _ _ "").
  apply (RA_step true (mkStep Child (name_t "a")) _ _ "").
  apply (RA_step true (mkStep DescendantOrSelf node_t) _ _ "").
  apply RA_abs. reflexivity.
Qed.

Example ex_p1_compile :
  compile lit_ok "//a//b" None
  = Ok (QDescendant false (name_t "b") (QDescendant false (name_t "a") QAbsolute)).
Proof. vm_compute. reflexivity. Qed.

(* the same tree from [to_ast], up to the text of the root node *)
Example ex_p1_to_ast :
  to_ast true p1 =
  Some (AAxis "child" NTElem "" "b" "" false ""
     (Some (AAxis "descendant-or-self" NTAll "" "" "" false ""
     (Some (AAxis "child" NTElem "" "a" "" false ""
     (Some (AAxis "descendant-or-self" NTAll "" "" "" false "" (Some (ARoot "/"))))))))).
Proof. reflexivity. Qed.

(*  descendant::a/descendant::a/descendant-or-self::a/b : DoD over DoD *)
Definition p2 : list sstep :=
  [ mkStep Descendant (name_t "a"); mkStep Descendant (name_t "a");
    mkStep DescendantOrSelf (name_t "a"); mkStep Child (name_t "b") ].

Example ex_p2_parse :
  parse_fuel 100 "descendant::a/descendant::a/descendant-or-self::a/b" None
  = match to_ast false p2 with Some a => Ok a | None => OutOfFuel end.
Proof. vm_compute. reflexivity. Qed.

Example ex_p2_compile :
  compile lit_ok "descendant::a/descendant::a/descendant-or-self::a/b" None
  = Ok (QCachedChild (name_t "b")
         (QDescendant true (name_t "a")
           (QDoD false (name_t "a") (QDoD false (name_t "a") QContext)))).
Proof. vm_compute. reflexivity. Qed.

(*   <a><a><b/></a><b/></a>   *)
Example hash_ok_exD2 : hash_ok (hash_code exD2) (all_nodes exD2).
Proof.
  apply NoDup_codes_hash_ok; vm_compute;
    repeat (constructor; [cbn [In]; intuition discriminate|]); constructor.
Qed.

Example ex_p2_select :
  exists q, compile lit_ok "descendant::a/descendant::a/descendant-or-self::a/b" None = Ok q /\
            select lit_match lit_numsubexp lit_replace_all hash_code exD2 true q root_node
            = Val [elem_at [0;0;0]].
Proof. eexists. split; [vm_compute; reflexivity|]. vm_compute. reflexivity. Qed.

(* hence a fact about the XPath denotation, through the theorem *)
Example ex_p2_den : path_den exD2 true p2 root_node (elem_at [0;0;0]).
Proof.
  destruct (compile_path_den exD2 true (hash_code exD2) lit_match lit_numsubexp lit_replace_all lit_ok
              100 "descendant::a/descendant::a/descendant-or-self::a/b" None false p2
              (AAxis "child" NTElem "" "b" "" false ""
                 (Some (AAxis "descendant-or-self" NTElem "" "a" "" false ""
                 (Some (AAxis "descendant" NTElem "" "a" "" false ""
                 (Some (AAxis "descendant" NTElem "" "a" "" false "" None)))))))
              hash_ok_exD2) as (q & Eq & Hs).
  - vm_compute. lia.
  - discriminate.
  - vm_compute. reflexivity.
  - apply (ast_rev_rpath false (rev p2)).
  - destruct (Hs root_node eq_refl) as (l & El & _ & Hin). apply Hin.
    vm_compute in Eq. inversion Eq; subst q. vm_compute in El. inversion El; subst l.
    vm_compute. auto.
Qed.

End Examples.
