(* Proofs/EndToEndGroupNth.v — property C03, second clause, at the level of TEXTS:

     (P)[k]   P an ORDERED path (EndToEndFlat.ordered_steps: child / attribute /
              self steps, optionally one final descendant step or //t),
              k an integer literal

   compiles to a filter over the GROUP of P's query (never merged, never
   re-rooted), and Select from a valid context node returns the k-th node
   (1-based) of THE document-ordered duplicate-free list of the denotation of
   P, or nothing when there is no such node.  Contrast with  P[k]  (no
   parentheses, EndToEndPos.v): the k-th child per parent. *)
From XP Require Import Base F64 Doc Ast Scan Parse Build Hash Eval Api.
From XP.Spec Require Import Axes Paths.
From XP.Proofs Require Import ParseTerm ScanTokens RoundTripOps RoundTripPaths
                              DocOrder HashInj AxesSound PathSem BuildPath BuildFacts Filter Position
                              BuildFilter Compose BuildOps EndToEndPaths EndToEndPred EndToEndPos
                              EndToEndUnion EndToEndAbs EndToEndFlat.
Require Import Lia ZArith.
Open Scope string_scope.
Open Scope nat_scope.
Open Scope list_scope.

(* (P)[k] *)
Definition group_nth (p : px) (ds : list ascii) : px := XFilter (XParen p) (PCons (XNum ds) PNil).

Lemma path_ast_not_operand : forall p, path_syntax p -> is_operand (xast p) = false.
Proof.
  intros p Hp. destruct (steps_of p) as [abs steps] eqn:Es.
  pose proof (xast_path_shape p abs steps Hp Es) as HA.
  pose proof (steps_of_ne p abs steps Hp Es) as Hne.
  assert (Hr : rev steps <> []) by (intros E; apply Hne; rewrite <- (rev_involutive steps), E; reflexivity).
  destruct (rpath_ast_some_inv abs _ _ HA Hr) as (s & r & prop & inp & _ & -> & _). reflexivity.
Qed.

Lemma group_nth_ast : forall p ds, path_syntax p ->
  xast (group_nth p ds) = AFilter (AGroup (xast p)) (ANum (lit_f ds)) /\
  xwf (group_nth p ds) /\ xdepth (group_nth p ds) = 1.
Proof.
  intros p ds Hp. destruct (path_syntax_wf p Hp) as [Hw Hd].
  unfold group_nth. cbn [xast past xwf pwf is_prim xdepth pdepth_ps].
  rewrite (path_ast_not_operand p Hp), Hd. repeat split; auto.
Qed.

Section Build.
Variable re_ok : string -> bool.

(* the builder on  (tree)[number] : a plain filter over the group *)
Lemma process_group_nth : forall a v q2 pr2 fo2,
  process re_ok 2 a fl_none fi_nil = Ok (q2, pr2, fo2) ->
  exists pr fo,
    process re_ok 0 (AFilter (AGroup a) (ANum v)) fl_none fi_nil
      = Ok (QFilter false (QGroup q2) (QNum v), pr, fo).
Proof.
  intros a v q2 pr2 fo2 E2.
  assert (Hd0 : 0 < max_build_depth) by (unfold max_build_depth; lia).
  assert (Eg : exists fi', process re_ok 1 (AGroup a) (mkF false false true) fi_nil = Ok (QGroup q2, pr2, fi')).
  { cbn [process]. change (Nat.ltb max_build_depth 2) with false. cbv iota. rewrite E2. cbn [cbind].
    destruct (fi_q fo2); eexists; reflexivity. }
  destruct Eg as [fi' Eg].
  assert (Ec : process re_ok 1 (ANum v) fl_none fi' = Ok (QNum v, pr_none, mkFi (fi_q fi') false)).
  { cbn [process]. change (Nat.ltb max_build_depth 2) with false. reflexivity. }
  rewrite (process_filter_intro re_ok 0 (AGroup a) (ANum v) fl_none fi_nil _ _ _ _ _ _ Hd0 Eg Ec).
  unfold filter_result, ret. cbn [negb f_filter fl_none q_merge andb].
  destruct (fi_q fi'); eexists; eexists; reflexivity.
Qed.

End Build.

Section E2E.
Variable D : tree.
Variable has_ns : bool.
Variable hc : tree -> node -> N.
Variable rm : string -> string -> option bool.
Variable rn : string -> nat.
Variable rr : string -> string -> string -> string.
Hypothesis Hhash : hash_ok (hc D) (all_nodes D).
Variable re_ok : string -> bool.
Variable ns : nsmap.

Notation SELECT := (select rm rn rr hc D has_ns).

(** (P)[k] : the k-th node of P in document order *)
Theorem C03_group_nth_end_to_end : forall p abs steps ds,
  path_syntax p -> steps_of p = (abs, steps) -> ordered_steps steps ->
  xok (group_nth p ds) -> List.length steps + 3 <= max_build_depth ->
  (Z.abs (lit_Z ds) <= 2 ^ 53)%Z ->
  exists q,
    compile re_ok (print_min (group_nth p ds)) ns = Ok q /\
    forall c, valid D c = true ->
    exists l,
      (* l: THE sorted duplicate-free list of the denotation of P *)
      sorted_doc l /\ (forall n, In n l <-> path_den D has_ns steps (if abs then root_node else c) n) /\
      SELECT q c = Val (pick_nth (lit_Z ds) l) /\
      (* spelled out *)
      (forall x, (1 <= lit_Z ds)%Z -> nth_error l (Z.to_nat (lit_Z ds - 1)) = Some x -> SELECT q c = Val [x]) /\
      ((lit_Z ds < 1)%Z \/ (Z.of_nat (List.length l) < lit_Z ds)%Z -> SELECT q c = Val []).
Proof.
  intros p abs steps ds Hp Hs Ho Hok Hl Hk.
  destruct (group_nth_ast p ds Hp) as (Hast & Hwf & Hd).
  pose proof (xast_path_shape p abs steps Hp Hs) as HA.
  pose proof (steps_of_ne p abs steps Hp Hs) as Hne.
  assert (Hr : rev steps <> []) by (intros E; apply Hne; rewrite <- (rev_involutive steps), E; reflexivity).
  destruct (path_tree_builds D has_ns (hc D) rm rn rr Hhash re_ok abs (rev steps) (xast p) 2 fi_nil HA Hr)
    as (q2 & pr2 & fo2 & E2 & _ & _).
  { rewrite rev_length. destruct abs; lia. }
  destruct (process_group_nth re_ok (xast p) (lit_f ds) q2 pr2 fo2 E2) as (pr & fo & E).
  assert (P : parse (print_min (group_nth p ds)) ns = Ok (AFilter (AGroup (xast p)) (ANum (lit_f ds)))).
  { rewrite <- Hast. apply roundtrip_print_min; [exact Hwf|exact Hok|rewrite Hd; unfold max_depth; lia]. }
  exists (QFilter false (QGroup q2) (QNum (lit_f ds))). split.
  - apply (compile_of_parse re_ok _ ns _ _ pr fo P E). discriminate.
  - intros c Hc.
    destruct (built_query_selects D has_ns hc rm rn rr Hhash re_ok p abs steps 2 fi_nil q2 pr2 fo2 c
                Hp Hs Ho ltac:(lia) E2 Hc) as (_ & l & El & Hsort & Hin).
    exists l. split; [exact Hsort|]. split; [exact Hin|].
    assert (Esel : SELECT (QFilter false (QGroup q2) (QNum (lit_f ds))) c = Val (pick_nth (lit_Z ds) l)).
    { unfold select in *.
      destruct (sel D has_ns (hc D) rm rn rr q2 c) as [l0| |] eqn:E0; cbn [obind] in El; try discriminate.
      inversion El; subst l.
      rewrite (group_index D has_ns (hc D) rm rn rr false q2 (lit_f ds) c l0 E0). cbn [obind].
      rewrite DocOrder.nodes_of_numbered, (go_int_lit ds Hk). reflexivity. }
    split; [exact Esel|]. split.
    + intros x H1 Hx. rewrite Esel. rewrite (proj2 (pick_nth_spec (lit_Z ds) l x) (conj H1 Hx)). reflexivity.
    + intros Hout. rewrite Esel. unfold pick_nth.
      destruct (1 <=? lit_Z ds)%Z eqn:E1; [|reflexivity].
      apply Z.leb_le in E1. destruct Hout as [Hlt|Hgt]; [lia|].
      replace (nth_error l (Z.to_nat (lit_Z ds - 1))) with (@None node); [reflexivity|].
      symmetry. apply nth_error_None. lia.
Qed.

End E2E.
Print Assumptions C03_group_nth_end_to_end.

(* ------------------------------------------------------------------ *)
(** * Examples                                                          *)
(* ------------------------------------------------------------------ *)
Module Examples.
Import AxesSound.Examples EndToEndPaths.Examples Position.PositionExamples EndToEndPos.Examples.

(*   <r><p><x/><y/><x/></p><p><x/><x/><x/></p></r>   *)
Notation SELECTd := (select lit_match lit_numsubexp lit_replace_all hash_code d2 true).

Example texts :
  print_min (group_nth pth two) = "(/r/p/x)[2]" /\
  print_min (group_nth pth (list_of_string "5")) = "(/r/p/x)[5]" /\
  print_min (group_nth pth (list_of_string "6")) = "(/r/p/x)[6]".
Proof. repeat split; vm_compute; reflexivity. Qed.

(* (/r/p/x)[2] is the second x of the document; /r/p/x[2] the second x of EACH p *)
Example group_vs_plain :
  exists q q', compile Api.lit_ok "(/r/p/x)[2]" None = Ok q /\ compile Api.lit_ok "/r/p/x[2]" None = Ok q' /\
    SELECTd q root_node = Val [elem_at [0;0;2]] /\
    SELECTd q' root_node = Val [elem_at [0;0;2]; elem_at [0;1;1]].
Proof.
  destruct (C03_group_nth_end_to_end d2 true hash_code lit_match lit_numsubexp lit_replace_all hash_ok_d2
              Api.lit_ok None pth true (snd (steps_of pth)) two) as (q & C & HV).
  - apply path_syntax_b_ok. vm_compute. reflexivity.
  - vm_compute. reflexivity.
  - apply OS_flat. vm_compute. repeat constructor.
  - vm_compute. reflexivity.
  - vm_compute. lia.
  - vm_compute. discriminate.
  - destruct texts as (T & _). rewrite T in C.
    exists q. eexists. split; [exact C|]. split; [vm_compute; reflexivity|].
    split; [|vm_compute; reflexivity].
    destruct (HV root_node eq_refl) as (l & _ & _ & Esel & _).
    vm_compute in C. inversion C; subst q. vm_compute. reflexivity.
Qed.

(* the fifth x exists (5 x elements in all), the sixth does not *)
Example group_bounds :
  exists q5 q6, compile Api.lit_ok "(/r/p/x)[5]" None = Ok q5 /\ compile Api.lit_ok "(/r/p/x)[6]" None = Ok q6 /\
    SELECTd q5 root_node = Val [elem_at [0;1;2]] /\ SELECTd q6 root_node = Val [].
Proof.
  eexists. eexists. split; [vm_compute; reflexivity|]. split; [vm_compute; reflexivity|].
  split; vm_compute; reflexivity.
Qed.

End Examples.
