(* Proofs/BuildWellFormed.v — the well-formedness hypotheses of the cursor-level
   theorems (FrameRefine3.frame_wf, IterProtocol3.wt3, IterRefine4.m1_supported4)
   discharged for the query trees that Compile returns.

   NOT every compiled tree is well formed in that sense: the builder does no
   type checking, so  (1)/a ,  1|2 ,  a|2 ,  count(a)/b ,  'x'[1] ,  reverse(1)
   compile to trees in which a node-set operator has an input that is not a
   node-set query (Examples.not_well_formed), and in  (1+2)=reverse(/)[1]  the
   merge rewrite of the filter takes the unrelated group (1+2) as its parent.
   What holds: the builder's output is well formed for every syntax tree that
   is TYPED, a boolean computed from the tree alone ([typed]):
     - the input of a location step, of a filter, the operand(s) of | and the
       argument of reverse() are node-set expressions ([a_ns]: a path, a
       filter, a union, reverse(..), a parenthesised node-set expression);
     - a filter is not reached while the builder's firstInput is a
       parenthesised expression that is not a node-set (tracked by the boolean
       state threaded through [ty], conservatively).
   process_swf is proved by induction over Build.process for EVERY typed tree;
   compile_frame_wf / compile_wt3 / compile_supported4 follow for every text
   whose parse tree is typed ([text_typed], decidable by computation). *)
From XP Require Import Base F64 Doc Ast Scan Parse Build Hash Eval Api.
From XP.Model1 Require Import Iter Iter2 Iter3 Clone3.
From XP.Proofs Require Import BuildFacts IterRefine3 IterRefine4 IterProtocol3 CloneRefine3 FrameRefine3 ConcRefine3.
Require Import Lia.
Open Scope string_scope.
Open Scope nat_scope.
Open Scope list_scope.

(* ------------------------------------------------------------------ *)
(** * 1. The invariant on query trees                                   *)
(* ------------------------------------------------------------------ *)

(* frame_wf, and also below last() / position() (their captured query can
   become the input of a lastFuncQuery); strict: both operands of | are
   node-set queries (what m1_supported4 asks) *)
Fixpoint swf (strict : bool) (q : query) : bool :=
  match q with
  | QAncestor _ _ i | QAttribute _ i | QChild _ i | QCachedChild _ i | QDescendant _ _ i
  | QFollowing _ _ i | QPreceding _ _ i | QParent _ i | QSelf _ i | QReverse i | QDoD _ _ i =>
    andb (is_ns i) (swf strict i)
  | QFilter _ i p => andb (andb (is_ns i) (swf strict i)) (swf strict p)
  | QMerge i ch => andb (andb (is_ns i) (swf strict i)) (andb (is_ns ch) (swf strict ch))
  | QUnion l r => andb (andb (andb (is_ns r) (swf strict r)) (swf strict l)) (orb (negb strict) (is_ns l))
  | QGroup i | QLastFunc i | QLast i | QPosition i => swf strict i
  | QLogical _ l r | QNumeric _ l r | QBoolean _ l r => andb (swf strict l) (swf strict r)
  | QFn1 _ a => swf strict a
  | QFn2 _ a b => andb (swf strict a) (swf strict b)
  | QFn3 _ a b c => andb (andb (swf strict a) (swf strict b)) (swf strict c)
  | QConcat args => andb (is_arglist args) (swf strict args)
  | QArg a rest => andb (andb (swf strict a) (is_arglist rest)) (swf strict rest)
  | _ => true
  end.

Ltac inv_bind H :=
  let x := fresh "x" in let Hx := fresh "Hx" in
  apply cbind_Ok_inv in H; destruct H as [x [Hx H]];
  repeat match goal with y : (_ * _)%type |- _ => destruct y end;
  cbv beta iota in H.

Ltac inv_binds :=
  repeat match goal with
  | H : cbind _ _ = Ok _ |- _ => inv_bind H
  end.

Ltac inv_oks :=
  repeat match goal with
  | H : Ok _ = Ok _ |- _ => inversion H; clear H; subst
  end.

Ltac forall_inv :=
  repeat match goal with
  | H : Forall _ (_ :: _) |- _ =>
    let H1 := fresh "IHa" in apply Forall_cons_iff in H; destruct H as [H1 H]
  end.

Ltac bools :=
  repeat match goal with
  | H : andb _ _ = true |- _ => apply andb_prop in H; destruct H
  end.

Lemma swf_frame_wf : forall b q, swf b q = true -> frame_wf q = true.
Proof.
  intros b. induction q; cbn [swf frame_wf]; intros H; auto; bools;
    repeat (apply andb_true_intro; split); auto.
Qed.

Lemma frame_wf_wt3 : forall q, frame_wf q = true -> wt3 q = true.
Proof.
  induction q; cbn [frame_wf wt3]; intros H; auto; bools;
    repeat (apply andb_true_intro; split); auto.
Qed.

(* lastFuncQuery on the part of the tree that m1_supported4 looks at *)
Fixpoint has_lastfunc (q : query) : bool :=
  match q with
  | QLastFunc _ => true
  | QAncestor _ _ i | QAttribute _ i | QChild _ i | QCachedChild _ i | QDescendant _ _ i
  | QFollowing _ _ i | QPreceding _ _ i | QParent _ i | QSelf _ i | QReverse i | QDoD _ _ i
  | QGroup i | QFn1 _ i => has_lastfunc i
  | QFilter _ l r | QMerge l r | QUnion l r | QLogical _ l r | QNumeric _ l r | QBoolean _ l r
  | QFn2 _ l r | QArg l r => orb (has_lastfunc l) (has_lastfunc r)
  | QFn3 _ a b c => orb (orb (has_lastfunc a) (has_lastfunc b)) (has_lastfunc c)
  | QConcat a => has_lastfunc a
  | _ => false
  end.

Lemma swf_supported4 : forall q, swf true q = true -> has_lastfunc q = false -> m1_supported4 q = true.
Proof.
  induction q; cbn [swf has_lastfunc m1_supported4 orb negb]; intros H L; auto; try discriminate L;
    repeat match goal with H : orb _ _ = false |- _ => apply Bool.orb_false_elim in H; destruct H end;
    bools; repeat (apply andb_true_intro; split); auto.
Qed.

(* m1_supported4 excludes lastFuncQuery, so the characterisation is exact on that side *)
Lemma supported4_no_lastfunc : forall q, m1_supported4 q = true -> has_lastfunc q = false.
Proof.
  induction q; cbn [has_lastfunc m1_supported4]; intros H; auto; try discriminate H; bools;
    repeat match goal with |- orb _ _ = false => apply Bool.orb_false_intro end; auto.
Qed.

(* the queries whose re-rooting gives a node-set parent *)
Definition safe_q (q : query) : bool := match q with QGroup i => is_ns i | _ => true end.

Lemma reroot_ok : forall b fq parent fq',
  swf b fq = true -> safe_q fq = true -> reroot fq = Some (parent, fq') ->
  is_ns parent = true /\ swf b parent = true /\ is_ns fq' = true /\ swf b fq' = true.
Proof.
  intros b fq parent fq' W S R.
  destruct fq; cbn [reroot] in R; try discriminate R;
    match type of R with (if is_context ?i then _ else _) = _ => destruct (is_context i) end;
    try discriminate R; inversion R; subst; cbn [swf safe_q] in *; bools; repeat split; auto.
Qed.

(* ------------------------------------------------------------------ *)
(** * 2. Typed syntax trees                                             *)
(* ------------------------------------------------------------------ *)

(* node-set expressions *)
Fixpoint a_ns (a : anode) : bool :=
  match a with
  | ARoot _ | AAxis _ _ _ _ _ _ _ _ | AFilter _ _ => true
  | AOp op _ _ => String.eqb op "|"
  | AFunc _ name _ => String.eqb name "reverse"
  | AGroup i => a_ns i
  | _ => false
  end.

(* [ty strict a s]: None = ill typed; Some s' = typed, s/s' say whether the
   builder's firstInput is known to be safe to re-root before / after a *)
Fixpoint ty (strict : bool) (a : anode) (s : bool) : option bool :=
  match a with
  | ANum _ | AStr _ | ARoot _ | AVar _ _ => Some s
  | AAxis _ _ _ _ _ _ _ None => Some true
  | AAxis _ _ _ _ _ _ _ (Some i) =>
    if a_ns i then match ty strict i true with Some _ => Some true | None => None end else None
  | AFilter i c =>
    if a_ns i then
      match ty strict i s with
      | Some true => match ty strict c true with Some _ => Some true | None => None end
      | _ => None
      end
    else None
  | AFunc _ name args =>
    if andb (String.eqb name "reverse") (negb (match args with a0 :: _ => a_ns a0 | [] => true end))
    then None
    else
      let r := (fix go (l : list anode) (s : bool) : option bool :=
            match l with
            | [] => Some s
            | a :: r =>
              match ty strict a s with
              | Some s1 => match go r s1 with Some s2 => Some (andb s1 s2) | None => None end
              | None => None
              end
            end) args s in
      (* true() false() last() position() do not look at their arguments *)
      if orb (orb (String.eqb name "true") (String.eqb name "false"))
             (orb (String.eqb name "last") (String.eqb name "position"))
      then match r with Some _ => Some s | None => None end
      else r
  | AOp op l r =>
    match ty strict l s with
    | Some s1 =>
      match ty strict r s1 with
      | Some s2 =>
        if String.eqb op "|" then
          if andb (a_ns r) (orb (negb strict) (a_ns l)) then Some s2 else None
        else Some s2
      | None => None
      end
    | None => None
    end
  | AGroup i =>
    match ty strict i s with Some s1 => Some (andb s1 (a_ns i)) | None => None end
  end.

Definition tys (strict : bool) : list anode -> bool -> option bool :=
  fix go (l : list anode) (s : bool) : option bool :=
    match l with
    | [] => Some s
    | a :: r =>
      match ty strict a s with
      | Some s1 => match go r s1 with Some s2 => Some (andb s1 s2) | None => None end
      | None => None
      end
    end.

Lemma tys_cons : forall strict a r s s', tys strict (a :: r) s = Some s' ->
  exists s1 s2, ty strict a s = Some s1 /\ tys strict r s1 = Some s2 /\ s' = andb s1 s2.
Proof.
  intros strict a r s s' H. cbn [tys] in H. fold (tys strict) in H.
  destruct (ty strict a s) as [s1|] eqn:E1; [|discriminate].
  destruct (tys strict r s1) as [s2|] eqn:E2; [|discriminate]. inversion H. exists s1, s2. auto.
Qed.

Definition typed (strict : bool) (a : anode) : bool :=
  match ty strict a true with Some _ => true | None => false end.

Definition text_typed (strict : bool) (text : string) (ns : nsmap) : bool :=
  match parse text ns with Ok a => typed strict a | _ => false end.

(* ------------------------------------------------------------------ *)
(** * 3. The builder on typed trees                                     *)
(* ------------------------------------------------------------------ *)

(* firstInput: always well formed; safe to re-root when the state says so *)
Definition fi_inv (b : bool) (fi : first) (s : bool) : Prop :=
  match fi_q fi with
  | None => True
  | Some fq => swf b fq = true /\ (s = true -> safe_q fq = true)
  end.

Lemma fi_inv_weaken : forall b fi s s', fi_inv b fi s -> (s' = true -> s = true) -> fi_inv b fi s'.
Proof. unfold fi_inv. intros b fi s s' H Hs. destruct (fi_q fi); [|exact I]. destruct H; split; auto. Qed.

Lemma fi_inv_nil : forall b s, fi_inv b fi_nil s.
Proof. intros; exact I. Qed.

Lemma fi_inv_q : forall b fi x s, fi_inv b (mkFi (fi_q fi) x) s <-> fi_inv b fi s.
Proof. intros; reflexivity. Qed.

Lemma fi_inv_some : forall b q x s, swf b q = true -> safe_q q = true -> fi_inv b (mkFi (Some q) x) s.
Proof. intros. split; auto. Qed.

Section Builder.
Variable re_ok : string -> bool.
Variable strict : bool.

Lemma mk_axis_swf : forall axis t fl qi pr q pr',
  mk_axis axis t fl qi pr = Ok (q, pr') -> is_ns qi = true -> swf strict qi = true ->
  swf strict q = true /\ is_ns q = true /\ safe_q q = true.
Proof.
  intros axis t fl qi pr q pr' H Hn Hw. unfold mk_axis in H.
  repeat match type of H with
  | (if String.eqb axis ?s then _ else _) = _ => destruct (String.eqb axis s)
  end; try discriminate H; inversion H; subst;
  repeat match goal with |- context [if ?c then _ else _] => destruct c end;
  cbn [swf is_ns safe_q]; rewrite Hn, Hw; auto.
Qed.

Definition good (a : anode) : Prop :=
  forall d fl fi q pr fo s s',
    ty strict a s = Some s' -> fi_inv strict fi s ->
    process re_ok d a fl fi = Ok (q, pr, fo) ->
    swf strict q = true /\ (a_ns a = true -> is_ns q = true) /\ fi_inv strict fo s'.

Lemma opt_default_swf : forall fi s, fi_inv strict fi s -> swf strict (opt_default QNil (fi_q fi)) = true.
Proof. unfold fi_inv. intros fi s H. destruct (fi_q fi); cbn; [tauto|reflexivity]. Qed.

Lemma list_of_args_swf : forall qs, Forall (fun q => swf strict q = true) qs ->
  is_arglist (list_of_args qs) = true /\ swf strict (list_of_args qs) = true.
Proof.
  induction 1 as [|q r Hq Hr [IH1 IH2]]; cbn [list_of_args is_arglist swf]; [auto|].
  rewrite Hq, IH1, IH2. auto.
Qed.

Lemma concat_go_good : forall d l, Forall good l ->
  forall fi pr qs pr' fi' s s', tys strict l s = Some s' -> fi_inv strict fi s ->
  concat_go re_ok d l fi pr = Ok (qs, pr', fi') ->
  Forall (fun q => swf strict q = true) qs /\ fi_inv strict fi' s'.
Proof.
  induction 1 as [|a r Ha Hr IH]; intros fi pr qs pr' fi' s s' T Hi H.
  - cbn in H, T. inversion H; inversion T; subst. auto.
  - cbn [concat_go] in H. fold (concat_go re_ok d) in H.
    destruct (tys_cons _ _ _ _ _ T) as (s1 & s2 & T1 & T2 & ->).
    inv_binds. inversion H; subst.
    destruct (Ha _ _ _ _ _ _ _ _ T1 Hi Hx) as (W & _ & Hi1).
    destruct (IH _ _ _ _ _ _ _ T2 Hi1 Hx0) as (Wr & Hi2).
    split; [constructor; assumption|].
    apply (fi_inv_weaken _ _ _ _ Hi2). intros E. apply andb_prop in E. tauto.
Qed.

Lemma lastfunc_swf : forall (b : bool) c, swf strict c = true ->
  swf strict (if b then
                match c with
                | QLast (QFilter np i p) => QLastFunc (QFilter np i p)
                | QPosition (QFilter np i p) => QLastFunc (QFilter np i p)
                | _ => c
                end
              else c) = true.
Proof.
  intros b c H. destruct b; [|exact H]. destruct c; try exact H; destruct c; exact H.
Qed.

Lemma matches_k : forall a b q,
  match b with
  | QStr p => if re_ok p then Ok (QFn2 FMatches a b) else Err "matches() got error."
  | QNum _ => Err "interface conversion: interface {} is float64, not string"
  | _ => Ok (QFn2 FMatches a b)
  end = Ok q -> q = QFn2 FMatches a b.
Proof.
  intros a b q H. destruct b; try discriminate H; try (inversion H; reflexivity).
  destruct (re_ok s); [inversion H; reflexivity|discriminate H].
Qed.

Ltac split_tys :=
  repeat match goal with
  | T : tys _ (_ :: _) _ = Some _ |- _ =>
    let s1 := fresh "s" in let s2 := fresh "s" in let T0 := fresh "T" in let Tr := fresh "T" in
    let E := fresh "E" in
    destruct (tys_cons _ _ _ _ _ T) as (s1 & s2 & T0 & Tr & E); clear T
  end;
  repeat match goal with
  | Tz : tys _ [] _ = Some _ |- _ => cbn [tys] in Tz; inversion Tz; clear Tz
  end.

Ltac use_good :=
  repeat match goal with
  | IHg : good ?a, Tq : ty _ ?a ?s0 = Some _, Hfi : fi_inv _ ?f ?s0, Hp : process _ _ ?a _ ?f = Ok _ |- _ =>
    let W := fresh "W" in let N := fresh "N" in let Hi' := fresh "Hi" in
    destruct (IHg _ _ _ _ _ _ _ _ Tq Hfi Hp) as (W & N & Hi'); clear Hp
  end.

Ltac chain :=
  let Es := fresh "Es" in intros Es; subst; bools; subst;
  try reflexivity; try assumption.

Ltac rew_true :=
  repeat match goal with Hq : ?x = true |- context [?x] => rewrite Hq end.

Theorem process_good : forall a, good a.
Proof.
  induction a as [sl|axis nty pre loc prop hasns ns|axis nty pre loc prop hasns ns i IHi IHg
                  |i c IHi IHc|pre name args IH|op l r IHl IHr|v|sv|p n|i IHi] using anode_ind2;
    intros d fl fi q pr fo s s' T Hi H; cbn [Build.process] in H;
    (destruct (Nat.ltb max_build_depth (S d)) eqn:Hd; [discriminate H|]).
  - (* ARoot *)
    inversion H; subst. cbn [ty] in T. inversion T; subst. repeat split. exact Hi.
  - (* AAxis, no input *)
    inv_binds. inversion H; subst. cbn [ty] in T. inversion T; subst.
    destruct (mk_axis_swf _ _ _ _ _ _ _ Hx eq_refl eq_refl) as (W & N & S).
    split; [exact W|]. split; [intros _; exact N|]. apply fi_inv_some; assumption.
  - (* AAxis with input *)
    cbn [ty] in T. destruct (a_ns i) eqn:Ni; [|discriminate T].
    destruct (ty strict i true) as [si|] eqn:Ti; [|discriminate T]. inversion T; subst s'. clear T.
    assert (Hn : forall fl0 : flags,
      (let* (qi, pr, _) := process re_ok (S d) i fl0 fi_nil
       in let* (q, pr0) := mk_axis axis (axis_test nty pre loc hasns ns) fl qi pr
          in Ok (q, pr0, {| fi_q := Some q; fi_self := true |})) = Ok (q, pr, fo) ->
      swf strict q = true /\ (true = true -> is_ns q = true) /\ fi_inv strict fo true).
    { intros fl0 H0. inv_binds. inversion H0; subst.
      destruct (IHi _ _ _ _ _ _ _ _ Ti (fi_inv_nil strict true) Hx) as (Wi & Nsi & _).
      destruct (mk_axis_swf _ _ _ _ _ _ _ Hx0 (Nsi Ni) Wi) as (W & N & S).
      split; [exact W|]. split; [intros _; exact N|]. apply fi_inv_some; assumption. }
    cbn [a_ns].
    destruct i as [| iax itt ipre iloc iprop ihasns ins ginput | | | | | | |]; try (eapply Hn; exact H).
    match type of H with (if ?c then _ else _) = _ => destruct c eqn:E end; [|eapply Hn; exact H].
    destruct ginput as [g|].
    + cbn [axis_grandchild] in IHg. cbn [ty] in Ti.
      destruct (a_ns g) eqn:Ng; [|discriminate Ti].
      destruct (ty strict g true) as [sg|] eqn:Tg; [|discriminate Ti].
      inv_binds. inv_oks.
      destruct (IHg _ _ _ _ _ _ _ _ Tg (fi_inv_nil strict true) Hx) as (Wg & Nsg & _).
      cbn [swf is_ns]. rewrite (Nsg Ng), Wg. split; [reflexivity|]. split; [reflexivity|].
      apply fi_inv_some; cbn [swf safe_q]; [rewrite (Nsg Ng), Wg|]; reflexivity.
    + inv_binds. inv_oks. cbn [swf is_ns]. split; [reflexivity|]. split; [reflexivity|].
      apply fi_inv_some; reflexivity.
  - (* AFilter *)
    cbn [ty] in T. destruct (a_ns i) eqn:Ni; [|discriminate T].
    destruct (ty strict i s) as [[|]|] eqn:Ti; try discriminate T.
    destruct (ty strict c true) as [sc|] eqn:Tc; [|discriminate T]. inversion T; subst s'. clear T.
    cbv zeta in H. inv_binds.
    destruct (IHi _ _ _ _ _ _ _ _ Ti Hi Hx) as (Wi & Nsi & Hi1). specialize (Nsi Ni).
    destruct (IHc _ _ _ _ _ _ _ _ Tc Hi1 Hx0) as (Wc & _ & _).
    match type of H with context [QFilter false q0 ?cc] =>
      assert (Wcc : swf strict cc = true) by (apply lastfunc_swf; exact Wc);
      set (c' := cc) in *; clearbody c'
    end.
    assert (Hf : forall fq, fi_q f = Some fq -> swf strict fq = true /\ safe_q fq = true).
    { intros fq Ef. unfold fi_inv in Hi1. rewrite Ef in Hi1. destruct Hi1 as [A B]. auto. }
    repeat match type of H with
    | (if ?b then _ else _) = _ => destruct b
    | match fi_q f with _ => _ end = _ => destruct (fi_q f) as [fq|] eqn:Ef
    | match reroot ?x with _ => _ end = _ => destruct (reroot x) as [[parent fq']|] eqn:Er
    end; inversion H; subst; clear H;
    try (destruct (Hf _ eq_refl) as [Wf Sf]; destruct (reroot_ok _ _ _ _ Wf Sf Er) as (A & B & C & D));
    try destruct (fi_self f);
    (split; [|split; [intros _|apply fi_inv_some]]); cbn [swf is_ns safe_q];
    repeat match goal with Hq : ?x = true |- context [?x] => rewrite Hq end; reflexivity.
  - (* AFunc *)
    assert (T' : (if andb (String.eqb name "reverse")
                          (negb (match args with a0 :: _ => a_ns a0 | [] => true end))
                  then None
                  else if orb (orb (String.eqb name "true") (String.eqb name "false"))
                              (orb (String.eqb name "last") (String.eqb name "position"))
                       then match tys strict args s with Some _ => Some s | None => None end
                       else tys strict args s) = Some s') by exact T.
    clear T.
    destruct (known_function name) eqn:Hk.
    2:{ exfalso. revert H. unfold known_function in Hk.
        repeat match goal with
        | |- context [String.eqb name ?s] =>
          rewrite (existsb_eqb_neq_b name _ Hk s eq_refl)
        end. cbn [orb]. discriminate. }
    apply known_function_In in Hk; unfold fnames in Hk; cbn [In] in Hk;
    repeat (destruct Hk as [Hk|Hk]; [symmetry in Hk|]); [..|contradiction]; subst name;
    cbn [String.eqb Ascii.eqb Bool.eqb andb orb negb] in H, T'; cbn [a_ns String.eqb Ascii.eqb Bool.eqb].
    all: try (match type of H with context [cbind (?f _ _ pr_none) _] =>
               change f with (concat_go re_ok (S d)) in H end;
              destruct (Nat.ltb (List.length args) 2); [discriminate H|]; inv_binds; inv_oks;
              match goal with Hc : concat_go _ _ _ _ _ = Ok _ |- _ =>
                destruct (concat_go_good (S d) args IH _ _ _ _ _ _ _ T' Hi Hc) as [Wq Hi'] end;
              destruct (list_of_args_swf _ Wq) as [A1 A2];
              split; [cbn [swf]; rewrite A1, A2; reflexivity|]; split; [discriminate|exact Hi']).
    all: destruct args as [|a0 [|a1 [|a2 [|a3 r]]]];
         cbn [List.length Nat.eqb Nat.ltb Nat.leb negb] in H; try discriminate H;
         forall_inv.
    all: try match type of T' with context [a_ns ?x] =>
           destruct (a_ns x) eqn:Na; cbn [negb andb] in T'; [|discriminate T'] end.
    all: try match type of T' with match ?x with _ => _ end = Some _ =>
           destruct x eqn:Tx; [|discriminate T']; inversion T'; subst s' end.
    all: split_tys; inv_binds;
         try match goal with Hb : Err _ = Ok _ |- _ => discriminate Hb end;
         repeat match goal with
         | Hm : match ?qq with _ => _ end = Ok _ |- _ => apply matches_k in Hm; subst
         end;
         inv_oks; use_good;
         repeat match goal with N : ?a = true -> _, Na : ?a = true |- _ => specialize (N Na) end.
    all: split;
         [cbn [swf]; try first [apply (opt_default_swf _ _ Hi) | rew_true; reflexivity]
         |split;
          [first [discriminate | intros _; reflexivity]
          |try first [ apply fi_inv_some; reflexivity
                 | match goal with
                   | Hk : fi_inv _ ?f ?sk |- fi_inv _ (mkFi (fi_q ?f) _) ?sg =>
                     change (fi_inv strict f sg); apply (fi_inv_weaken strict f sk sg Hk); chain
                   end ]]].
  - (* AOp *)
    cbn [ty] in T. destruct (ty strict l s) as [s1|] eqn:Tl; [|discriminate T].
    destruct (ty strict r s1) as [s2|] eqn:Tr; [|discriminate T].
    inv_binds.
    destruct (IHl _ _ _ _ _ _ _ _ Tl Hi Hx) as (Wl & Nl & Hi1).
    destruct (IHr _ _ _ _ _ _ _ _ Tr Hi1 Hx0) as (Wr & Nr & Hi2).
    cbn [a_ns]. destruct (String.eqb op "|") eqn:Eu.
    + apply String.eqb_eq in Eu. subst op.
      unfold arith_of, cmp_of in H. cbn [String.eqb Ascii.eqb Bool.eqb] in H. inv_oks.
      destruct (a_ns r) eqn:Nar; cbn [andb] in T; [|discriminate T].
      destruct (orb (negb strict) (a_ns l)) eqn:Nal; [|discriminate T]. inversion T; subst s'.
      split; [|split; [reflexivity|exact Hi2]].
      cbn [swf]. rewrite (Nr eq_refl), Wr, Wl. cbn [andb].
      destruct strict; cbn [negb orb] in *; [|reflexivity]. exact (Nl Nal).
    + inversion T; subst s'.
      destruct (arith_of op); [|destruct (cmp_of op);
        [|destruct (String.eqb op "or"); [|destruct (String.eqb op "and")]]];
      inv_oks; (split; [cbn [swf]; rew_true; reflexivity|split; [discriminate|exact Hi2]]).
  - (* ANum *) inversion H; subst. cbn [ty] in T. inversion T; subst. split; [reflexivity|]. split; [discriminate|exact Hi].
  - (* AStr *) inversion H; subst. cbn [ty] in T. inversion T; subst. split; [reflexivity|]. split; [discriminate|exact Hi].
  - (* AVar *) discriminate H.
  - (* AGroup *)
    cbn [ty] in T. destruct (ty strict i s) as [s1|] eqn:Ti; [|discriminate T]. inversion T; subst s'. clear T.
    inv_binds. destruct (IHi _ _ _ _ _ _ _ _ Ti Hi Hx) as (Wi & Ni & Hi1).
    cbn [a_ns]. destruct (fi_q f) as [fq|] eqn:Ef; inv_oks.
    + split; [exact Wi|]. split; [exact Ni|].
      unfold fi_inv in Hi1. rewrite Ef in Hi1. destruct Hi1 as [A B].
      split; [exact A|]. intros E. apply andb_prop in E. apply B. tauto.
    + split; [exact Wi|]. split; [exact Ni|].
      split; [exact Wi|]. intros E. apply andb_prop in E. cbn [safe_q]. apply Ni. tauto.
Qed.

End Builder.

Print Assumptions process_good.

(* ------------------------------------------------------------------ *)
(** * 4. Compile                                                        *)
(* ------------------------------------------------------------------ *)

Section Compile.
Variable re_ok : string -> bool.

(** the builder's output for every typed tree, at any depth, with any flags,
    from any well-formed firstInput *)
Theorem process_frame_wf : forall strict a d fl fi q pr fo s s',
  ty strict a s = Some s' -> fi_inv strict fi s ->
  process re_ok d a fl fi = Ok (q, pr, fo) ->
  swf strict q = true /\ frame_wf q = true /\ wt3 q = true /\ (a_ns a = true -> is_ns q = true).
Proof.
  intros strict a d fl fi q pr fo s s' T Hi H.
  destruct (process_good re_ok strict a d fl fi q pr fo s s' T Hi H) as (W & N & _).
  pose proof (swf_frame_wf strict q W) as Fw.
  split; [exact W|]. split; [exact Fw|]. split; [exact (frame_wf_wt3 q Fw)|exact N].
Qed.

Lemma compile_parse_process : forall text ns q,
  compile re_ok text ns = Ok q ->
  exists a pr fo, parse text ns = Ok a /\ process re_ok 0 a fl_none fi_nil = Ok (q, pr, fo).
Proof.
  intros text ns q Hc. unfold compile, compile_fuel, build_fuel in Hc.
  destruct (String.eqb text ""); [discriminate|].
  unfold parse. destruct (parse_fuel _ text ns) as [a| |]; cbn [cbind] in Hc; try discriminate.
  destruct (process re_ok 0 a fl_none fi_nil) as [[[q0 pr] fo]| |] eqn:E; cbn [cbind] in Hc; try discriminate.
  exists a, pr, fo. split; [reflexivity|]. destruct q0; inversion Hc; subst; exact E.
Qed.

Theorem compile_swf : forall strict text ns q,
  compile re_ok text ns = Ok q -> text_typed strict text ns = true -> swf strict q = true.
Proof.
  intros strict text ns q Hc Ht.
  destruct (compile_parse_process text ns q Hc) as (a & pr & fo & Hp & E).
  unfold text_typed in Ht. rewrite Hp in Ht. unfold typed in Ht.
  destruct (ty strict a true) as [s'|] eqn:T; [|discriminate Ht].
  exact (proj1 (process_frame_wf strict a 0 fl_none fi_nil q pr fo true s' T (fi_inv_nil strict true) E)).
Qed.

(** for every text whose parse tree is typed *)
Theorem compile_frame_wf : forall strict text ns q,
  compile re_ok text ns = Ok q -> text_typed strict text ns = true -> frame_wf q = true.
Proof. intros strict text ns q Hc Ht. exact (swf_frame_wf strict q (compile_swf strict text ns q Hc Ht)). Qed.

Theorem compile_wt3 : forall strict text ns q,
  compile re_ok text ns = Ok q -> text_typed strict text ns = true -> wt3 q = true.
Proof. intros strict text ns q Hc Ht. exact (frame_wf_wt3 q (compile_frame_wf strict text ns q Hc Ht)). Qed.

(** the refinement theorem's coverage: typed (both operands of | node-set
    expressions) and no lastFuncQuery; the second condition is necessary *)
Theorem compile_supported4 : forall text ns q,
  compile re_ok text ns = Ok q -> text_typed true text ns = true ->
  has_lastfunc q = false -> m1_supported4 q = true.
Proof. intros text ns q Hc Ht HL. exact (swf_supported4 q (compile_swf true text ns q Hc Ht) HL). Qed.

Theorem compile_supported4_iff : forall text ns q,
  compile re_ok text ns = Ok q -> text_typed true text ns = true ->
  (m1_supported4 q = true <-> has_lastfunc q = false).
Proof.
  intros text ns q Hc Ht. split; [apply supported4_no_lastfunc|apply (compile_supported4 text ns q Hc Ht)].
Qed.

(* ------------------------------------------------------------------ *)
(** * 5. The cursor-level theorems, from the text                       *)
(* ------------------------------------------------------------------ *)

Section Cursor.
Variable D : tree.
Variable has_ns : bool.
Variable hc : node -> N.
Variable rm : string -> string -> option bool.
Variable rn : string -> nat.
Variable rr : string -> string -> string -> string.
Variable F : nat.
Variable text : string.
Variable ns : nsmap.
Variable q : query.
Hypothesis Hc : compile re_ok text ns = Ok q.
Variable strict : bool.
Hypothesis Ht : text_typed strict text ns = true.

(** C05: two calls on the compiled expression, interleaved step by step under
    ANY schedule, from ANY state of the shared tree: each observes what it
    observes alone, and the shared tree is unchanged *)
Theorem C05_text_cursor_interleaving : forall (sched : list bool) (s0 : state3 q) (t1 t2 : thread q),
  TInv q s0 t1 -> TInv q s0 t2 ->
  run_sched D has_ns hc rm rn rr F q sched s0 t1 t2 =
  (s0, solo D has_ns hc rm rn rr F q s0 (turns false sched) t1,
       solo D has_ns hc rm rn rr F q s0 (turns true sched) t2).
Proof. exact (interleaving_independent3 D has_ns hc rm rn rr F q (compile_frame_wf strict text ns q Hc Ht)). Qed.

Theorem C05_text_two_calls_any_schedule : forall (sched : list bool) (s0 : state3 q) (todo1 todo2 : list call3),
  let '(sh, t1, t2) := run_sched D has_ns hc rm rn rr F q sched s0 (new_call q todo1) (new_call q todo2) in
  sh = s0 /\
  t_obs q t1 = t_obs q (solo D has_ns hc rm rn rr F q s0 (turns false sched) (new_call q todo1)) /\
  t_obs q t2 = t_obs q (solo D has_ns hc rm rn rr F q s0 (turns true sched) (new_call q todo2)).
Proof. exact (two_calls_any_schedule3 D has_ns hc rm rn rr F q (compile_frame_wf strict text ns q Hc Ht)). Qed.

(** C05: whatever is done with a clone of the compiled tree, in any state, the
    original is afterwards exactly what it was *)
Theorem C05_text_clone_shares_nothing_mutable :
  forall (s : state3 q) (l : list call3) (k : state3 (clone_cfg3 q)),
  calls3 D has_ns hc rm rn rr F (clone_cfg3 q) l (clone_state3 q s) = Some k -> absorb3 q k s = s.
Proof. exact (clone_independent3_all D has_ns hc rm rn rr F q (compile_frame_wf strict text ns q Hc Ht)). Qed.

(** C12: a Select on the compiled tree that returned nil, from any
    well-formed state: nil for ever *)
Theorem C12_text_nil_is_final : forall (s : state3 q) (cur : node) (st' : qstate3) (cur' : node),
  1 <= F -> Inv3 q s ->
  select3 D has_ns hc rm rn rr F (existT state3 q s) cur = R None st' cur' ->
  forall k : nat, all_nil D has_ns hc rm rn rr F k st'.
Proof. exact (nil_is_final3 D has_ns hc rm rn rr F q (compile_wt3 strict text ns q Hc Ht)). Qed.

End Cursor.
End Compile.

Print Assumptions process_frame_wf.
Print Assumptions compile_frame_wf.
Print Assumptions compile_wt3.
Print Assumptions compile_supported4.
Print Assumptions C05_text_cursor_interleaving.
Print Assumptions C05_text_two_calls_any_schedule.
Print Assumptions C05_text_clone_shares_nothing_mutable.
Print Assumptions C12_text_nil_is_final.

(* ------------------------------------------------------------------ *)
(** * 6. Examples                                                       *)
(* ------------------------------------------------------------------ *)
Module Examples.

Definition facts (s : string) : option (bool * bool * bool * bool * bool * bool) :=
  match compile Api.lit_ok s None with
  | Ok q => Some (text_typed false s None, text_typed true s None,
                  frame_wf q, wt3 q, m1_supported4 q, has_lastfunc q)
  | _ => None
  end.

(* typed texts: paths, predicates (positional, nested, last()), unions, groups,
   functions over node-sets, the merge rewrite, a parenthesised arithmetic
   expression before a filter *)
Definition typed_corpus : list string :=
  ["//a/b"; "a[1]"; "a[b][2]"; "//a[b='x']/c[last()]"; "a|b"; "(a|b)[1]"; "(a)[1]/b"; "count(a/b)";
   "reverse(a)[1]"; "(1+2)=reverse(a)[1]"; "a[1][position()=last()]"; "concat('a',b,'c')"; "(1+2)*3=a[1]"; "a/b[1]/c[2]";
   "//a//b[1]"; "a[b[2]][3]"; "a[not(b)]"; "/"; "/*[1]"; "a[last()-1]"; "ancestor::a[1]/b"; "sum(a|b)";
   "a[b][c][1]"; "//*[@x][2]"; "a[.//b[1]]"; "(//a)[2]/b[1]"; "a[(b|c)[1]]"; "name(a[1])"].

Example typed_corpus_ok :
  forallb (fun s => match facts s with
                    | Some (true, true, true, true, true, false) => true
                    | _ => false end) typed_corpus = true.
Proof. vm_compute. reflexivity. Qed.

(* COUNTEREXAMPLES to "every compiled tree is frame_wf / wt3": texts that
   compile, are not typed, and whose tree is not well formed *)
Example not_well_formed :
  map facts ["(1)/a"; "1|2"; "a|2"; "count(a)/b"; "'x'[1]"; "reverse(1)"]
  = [Some (false, false, false, false, false, false); Some (false, false, false, false, false, false);
     Some (false, false, false, false, false, false); Some (false, false, false, false, false, false);
     Some (false, false, false, false, false, false); Some (false, false, false, false, false, false)].
Proof. vm_compute. reflexivity. Qed.

Example not_well_formed_tree :
  compile Api.lit_ok "count(a)/b" None
  = Ok (QChild (mkTest NTElem "" "b" false "")
          (QFn1 FCount (QChild (mkTest NTElem "" "a" false "") QContext))).
Proof. vm_compute. reflexivity. Qed.

(* the merge rewrite of a filter takes an UNRELATED earlier group as parent:
   not frame_wf (wt3 holds: it does not look below the comparison) *)
Example merge_takes_unrelated_group :
  facts "(1+2)=reverse(/)[1]" = Some (false, false, false, true, false, false) /\
  compile Api.lit_ok "(1+2)=reverse(/)[1]" None
  = Ok (QLogical CEq (QGroup (QNumeric OAdd (QNum (of_Z 1)) (QNum (of_Z 2))))
          (QMerge (QNumeric OAdd (QNum (of_Z 1)) (QNum (of_Z 2)))
                  (QFilter false (QReverse QAbsolute) (QNum (of_Z 1))))).
Proof. split; vm_compute; reflexivity. Qed.

(* the typing is conservative: here the tree IS well formed (the filter input is
   a group, which the merge rewrite never touches) *)
Example typing_is_conservative :
  facts "(1+2)=(/)[1]" = Some (false, false, true, true, true, false).
Proof. vm_compute. reflexivity. Qed.

(* non-strict typing: a non-node-set LEFT operand of | keeps frame_wf, not m1_supported4 *)
Example union_left_operand : facts "2|a" = Some (true, false, true, true, false, false).
Proof. vm_compute. reflexivity. Qed.

(* COUNTEREXAMPLE to m1_supported4 for typed texts: lastFuncQuery *)
Example lastfunc_not_supported :
  facts "a[position()=last()][last()]" = Some (true, true, true, true, false, true) /\
  facts "a[position()<3][last()]" = Some (true, true, true, true, false, true).
Proof. split; vm_compute; reflexivity. Qed.

(* the corollaries instantiated on a text *)
Example nil_is_final_on_text :
  forall D has_ns hc rm rn rr F q,
  compile Api.lit_ok "//a[b][2]/c|d" None = Ok q ->
  forall (s : state3 q) cur st' cur', 1 <= F -> Inv3 q s ->
  select3 D has_ns hc rm rn rr F (existT state3 q s) cur = R None st' cur' ->
  forall k, all_nil D has_ns hc rm rn rr F k st'.
Proof.
  intros D has_ns hc rm rn rr F q Hc.
  apply (C12_text_nil_is_final Api.lit_ok D has_ns hc rm rn rr F "//a[b][2]/c|d" None q Hc true).
  vm_compute. reflexivity.
Qed.

Example clone_on_text :
  forall D has_ns hc rm rn rr F q,
  compile Api.lit_ok "count(//a[b][2]/c|d)" None = Ok q ->
  forall (s : state3 q) l k,
  calls3 D has_ns hc rm rn rr F (clone_cfg3 q) l (clone_state3 q s) = Some k -> absorb3 q k s = s.
Proof.
  intros D has_ns hc rm rn rr F q Hc.
  apply (C05_text_clone_shares_nothing_mutable Api.lit_ok D has_ns hc rm rn rr F "count(//a[b][2]/c|d)" None q Hc true).
  vm_compute. reflexivity.
Qed.

End Examples.

(* ------------------------------------------------------------------ *)
(** * 7. A syntactic class: every predicate-free path is typed          *)
(* ------------------------------------------------------------------ *)
From XP.Proofs Require Import RoundTripOps RoundTripPaths BuildPath EndToEndPaths.

Lemma rpath_typed : forall strict abs rs oa, rpath_ast abs rs oa ->
  match oa with
  | Some a => a_ns a = true /\ forall s, exists s', ty strict a s = Some s'
  | None => True
  end.
Proof.
  intros strict abs rs oa H. induction H as [Ha|sl Ha|st r inp prop HA IH].
  - exact I.
  - split; [reflexivity|]. intros s. exists s. reflexivity.
  - split; [reflexivity|]. intros s. unfold step_ast. cbn [ty].
    destruct inp as [i|]; [|exists true; reflexivity].
    destruct IH as [Ni Ti]. rewrite Ni. destruct (Ti true) as [s' ->]. exists true. reflexivity.
Qed.

(** every text of a predicate-free location path (all axes) is typed: the
    cursor-level theorems apply to every query of C01 / C12 / C13 *)
Theorem path_text_typed : forall strict ns p,
  path_syntax p -> xok p -> text_typed strict (print_min p) ns = true.
Proof.
  intros strict ns p Hp Hok.
  destruct (path_syntax_wf p Hp) as [Hwf Hd].
  unfold text_typed.
  rewrite (roundtrip_print_min ns p Hwf Hok ltac:(rewrite Hd; unfold max_depth; lia)).
  destruct (steps_of p) as [abs steps] eqn:Hs.
  pose proof (rpath_typed strict abs _ _ (xast_path_shape p abs steps Hp Hs)) as [_ T].
  unfold typed. destruct (T true) as [s' ->]. reflexivity.
Qed.
Print Assumptions path_text_typed.
