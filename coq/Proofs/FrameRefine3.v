(* Proofs/FrameRefine3.v — the tree-wide frame theorem for the cursor-level model (Model1/Iter3.v):
   no Select and no Evaluate of ANY query changes the state of a functionQuery-like object
   (QFn1 / QFn2 / QFn3 / QConcat / QArg: the argument queries captured by a closure) nested
   anywhere inside it.  These are the only objects a Clone shares with its original
   (Model1/Clone3.v), so running a clone leaves the original exactly as it was.
   Summary at the end. *)
From XP Require Import Base F64 Doc Ast Hash Eval.
From XP.Model1 Require Import Iter Iter2 Iter3 Clone3.
From XP.Proofs Require Import AxesSound IterRefine IterRefine2 Filter IterRefine3 IterRefine4 IterProtocol3
     Absolute CloneRefine3.
Open Scope nat_scope.
Open Scope list_scope.

(* ================================================================== *)
(** * 1. Preservation of an invariant of the state: generic lemmas *)

(* Select keeps the invariant (whatever t.Current() is) *)
Definition SelFr {W} (sel : W -> node -> res W) (Inv : W -> Prop) : Prop :=
  forall s cur o s' cur', Inv s -> sel s cur = R o s' cur' -> Inv s'.

(* an evaluated operand: a query result can be run and reset by the consumer *)
Definition HOK {W} (v : cval W) (Inv : W -> Prop) : Prop :=
  match v with
  | CVS _ => True
  | CVQuery h => SelFr (h_sel h) Inv /\ forall w, Inv w -> Inv (h_reset h w)
  end.

Definition EvFr {W} (ev : W -> node -> eres W) (Inv : W -> Prop) : Prop :=
  forall s cur v s' cur', Inv s -> ev s cur = OK3 v s' cur' -> Inv s' /\ HOK v Inv.

Lemma GoodI_SelFr : forall {W} (sel : W -> node -> res W) Inv Dead, GoodI sel Inv Dead -> SelFr sel Inv.
Proof. intros W sel Inv Dead H s cur o s' cur' Hi E. apply (H _ _ _ _ _ Hi E). Qed.

Lemma GoodI_and : forall {W} (sel : W -> node -> res W) (I1 I2 Dead : W -> Prop),
  GoodI sel I1 Dead -> SelFr sel I2 -> GoodI sel (fun s => I1 s /\ I2 s) Dead.
Proof.
  intros W sel I1 I2 Dead H1 H2 s cur o s' cur' [Ha Hb] E.
  destruct (H1 _ _ _ _ _ Ha E) as (A & B & C). repeat split; auto. apply (H2 _ _ _ _ _ Hb E).
Qed.

Section Consumers.
Variable D : tree.
Context {W : Type}.
Variable Inv : W -> Prop.

Lemma sel_loop_fr : forall {A} (asel : W -> node -> res W) (step : A -> node -> A * bool),
  SelFr asel Inv -> forall fuel acc w cur a w' cur',
    Inv w -> sel_loop asel step fuel acc w cur = OK3 a w' cur' -> Inv w'.
Proof.
  intros A asel step HS. induction fuel as [|k IH]; intros acc w cur a w' cur' Hi E; [discriminate|].
  cbn [sel_loop] in E. destruct (asel w cur) as [[n|] w1 c1|] eqn:Es; try discriminate.
  - pose proof (HS _ _ _ _ _ Hi Es) as H1. destruct (step acc n) as [acc' stop]. destruct stop.
    + inversion E; subst. exact H1.
    + apply (IH _ _ _ _ _ _ H1 E).
  - inversion E; subst. apply (HS _ _ _ _ _ Hi Es).
Qed.

Lemma mcollect_fr : forall (csel : W -> node -> res W), SelFr csel Inv ->
  forall fuel s cur acc lst s' cur', Inv s -> mcollect csel fuel s cur acc = Some (lst, s', cur') -> Inv s'.
Proof.
  intros csel HS. induction fuel as [|k IH]; intros s cur acc lst s' cur' Hi E; [discriminate|].
  cbn [mcollect] in E. destruct (csel s cur) as [[n|] s1 c1|] eqn:Es; try discriminate.
  - apply (IH _ _ _ _ _ _ (HS _ _ _ _ _ Hi Es) E).
  - inversion E; subst. apply (HS _ _ _ _ _ Hi Es).
Qed.

Lemma ucollect_fr : forall hcode (csel : W -> node -> res W), SelFr csel Inv ->
  forall fuel s cur m acc m' acc' s' cur', Inv s ->
    ucollect hcode csel fuel s cur m acc = Some (m', acc', s', cur') -> Inv s'.
Proof.
  intros hcode csel HS. induction fuel as [|k IH]; intros s cur m acc m' acc' s' cur' Hi E; [discriminate|].
  cbn [ucollect] in E. destruct (csel s cur) as [[n|] s1 c1|] eqn:Es; try discriminate.
  - pose proof (HS _ _ _ _ _ Hi Es) as H1.
    destruct (existsb (N.eqb (hcode n)) m); apply (IH _ _ _ _ _ _ _ _ H1 E).
  - inversion E; subst. apply (HS _ _ _ _ _ Hi Es).
Qed.

Lemma first_value_fr : forall (h : handle W) w cur o w' cur',
  HOK (CVQuery h) Inv -> Inv w -> first_value_c D h w cur = OK3 o w' cur' -> Inv w'.
Proof.
  intros h w cur o w' cur' [HS _] Hi E. unfold first_value_c in E.
  destruct (h_sel h w cur) as [[n|] w1 c1|] eqn:Es; inversion E; subst; apply (HS _ _ _ _ _ Hi Es).
Qed.

Ltac conv_tac f :=
  let v := fresh "v" in let E := fresh "E" in let H := fresh "H" in let Hi := fresh "Hi" in
  intros v ? ? ? ? ? H Hi E; unfold f in E; destruct v as [[| | | |]|h];
  try (inversion E; subst; exact Hi); try discriminate.

Lemma str_or_first_fr : forall v w cur y w' cur',
  HOK v Inv -> Inv w -> str_or_first_c D v w cur = OK3 y w' cur' -> Inv w'.
Proof.
  conv_tac (@str_or_first_c). destruct (first_value_c D h w cur) as [o w1 c1| |] eqn:Ef; try discriminate.
  inversion E; subst. apply (first_value_fr _ _ _ _ _ _ H Hi Ef).
Qed.

Lemma as_string_fr : forall v w cur y w' cur',
  HOK v Inv -> Inv w -> as_string_c D v w cur = OK3 y w' cur' -> Inv w'.
Proof.
  conv_tac (@as_string_c). destruct (first_value_c D h w cur) as [o w1 c1| |] eqn:Ef; try discriminate.
  inversion E; subst. apply (first_value_fr _ _ _ _ _ _ H Hi Ef).
Qed.

Lemma as_number_fr : forall v w cur y w' cur',
  HOK v Inv -> Inv w -> as_number_c D v w cur = OK3 y w' cur' -> Inv w'.
Proof.
  conv_tac (@as_number_c). destruct (first_value_c D h w cur) as [[x|] w1 c1| |] eqn:Ef; try discriminate;
    inversion E; subst; apply (first_value_fr _ _ _ _ _ _ H Hi Ef).
Qed.

Lemma as_bool_fr : forall v w cur y w' cur',
  HOK v Inv -> Inv w -> as_bool_c v w cur = OK3 y w' cur' -> Inv w'.
Proof.
  conv_tac (@as_bool_c). destruct H as [HS _].
  destruct (h_sel h w cur) as [o w1 c1|] eqn:Es; try discriminate. inversion E; subst. apply (HS _ _ _ _ _ Hi Es).
Qed.

Lemma bool_num_fr : forall v w cur y w' cur',
  HOK v Inv -> Inv w -> bool_num_c D v w cur = OK3 y w' cur' -> Inv w'.
Proof.
  intros v w cur y w' cur' H Hi E. unfold bool_num_c in E.
  destruct v as [[| | | |]|h]; try (apply (as_number_fr _ _ _ _ _ _ H Hi E));
    match type of E with context [as_bool_c ?v ?w ?c] =>
      destruct (as_bool_c v w c) as [bb w1 c1| |] eqn:Eb; try discriminate; inversion E; subst;
      apply (as_bool_fr _ _ _ _ _ _ H Hi Eb) end.
Qed.

Lemma cmp_loop_fr : forall F (h : handle W) p w cur b w' cur',
  HOK (CVQuery h) Inv -> Inv w -> cmp_loop D F h p w cur = OK3 b w' cur' -> Inv w'.
Proof.
  intros F h p w cur b w' cur' [HS _] Hi E. unfold cmp_loop in E. apply (sel_loop_fr _ _ HS _ _ _ _ _ _ _ Hi E).
Qed.

(* filterQuery.do *)
Lemma filter_do_fr : forall (pev : W -> node -> eres W) (psel : W -> node -> res W),
  EvFr pev Inv -> SelFr psel Inv -> forall pos ps cur b ps' cur',
    Inv ps -> filter_do pev psel pos ps cur = OK3 b ps' cur' -> Inv ps'.
Proof.
  intros pev psel HE HS pos ps cur b ps' cur' Hi E. unfold filter_do in E.
  destruct (pev ps cur) as [v p1 c1| |] eqn:Ep; try discriminate.
  destruct (HE _ _ _ _ _ Hi Ep) as [H1 _].
  destruct v as [[| | | |]|h]; try (inversion E; subst; exact H1);
    (destruct (psel p1 c1) as [o p2 c2|] eqn:Es; try discriminate; inversion E; subst; apply (HS _ _ _ _ _ H1 Es)).
Qed.

End Consumers.

(* the two operands of a comparison *)
Section Two.
Variable D : tree.
Context {WA WB : Type}.
Variable IA : WA -> Prop.
Variable IB : WB -> Prop.

Lemma cmp_sets_fr : forall F op (ha : handle WA) (hb : handle WB),
  HOK (CVQuery ha) IA -> HOK (CVQuery hb) IB ->
  forall fuel wa wb cur b wa' wb' cur', IA wa -> IB wb ->
    cmp_sets D F op ha hb fuel wa wb cur = OK3 b (wa', wb') cur' -> IA wa' /\ IB wb'.
Proof.
  intros F op ha hb HA HB. pose proof HA as [HSa _]. pose proof HB as [HSb HRb].
  induction fuel as [|k IH]; intros wa wb cur b wa' wb' cur' Ha Hb E; [discriminate|].
  cbn [cmp_sets] in E. destruct (h_sel ha wa cur) as [[x|] wa1 c1|] eqn:Ea; try discriminate.
  - pose proof (HSa _ _ _ _ _ Ha Ea) as Ha1.
    destruct (h_sel hb wb c1) as [[y|] wb1 c2|] eqn:Eb; try discriminate.
    + pose proof (HSb _ _ _ _ _ Hb Eb) as Hb1.
      destruct (cmp_str op (node_value D x) (node_value D y)); [inversion E; subst; auto|].
      destruct (cmp_loop D F hb (fun s => cmp_str op (node_value D x) s) wb1 c2) as [r wb2 c3| |] eqn:El;
        try discriminate.
      pose proof (cmp_loop_fr D IB _ _ _ _ _ _ _ _ HB Hb1 El) as Hb2.
      destruct r; [inversion E; subst; auto|]. apply (IH _ _ _ _ _ _ _ Ha1 (HRb _ Hb2) E).
    + inversion E; subst. split; [exact Ha1|apply (HSb _ _ _ _ _ Hb Eb)].
  - inversion E; subst. split; [apply (HSa _ _ _ _ _ Ha Ea)|exact Hb].
Qed.

Lemma cmp_boolean_any_fr : forall op va wa vb wb cur b wa' wb' cur',
  HOK va IA -> HOK vb IB -> IA wa -> IB wb ->
  cmp_boolean_any_c D op va wa vb wb cur = OK3 b (wa', wb') cur' -> IA wa' /\ IB wb'.
Proof.
  intros op va wa vb wb cur b wa' wb' cur' HA HB Ha Hb E. unfold cmp_boolean_any_c in E.
  assert (HBB : forall c y w' c', as_bool_c vb wb c = OK3 y w' c' -> IB w')
    by (intros c y w' c' Eb; apply (as_bool_fr IB _ _ _ _ _ _ HB Hb Eb)).
  assert (HBN : forall c y w' c', bool_num_c D vb wb c = OK3 y w' c' -> IB w')
    by (intros c y w' c' Eb; apply (bool_num_fr D IB _ _ _ _ _ _ HB Hb Eb)).
  destruct op.
  1-2: destruct (as_bool_c va wa cur) as [a wa1 c1| |] eqn:E1; try discriminate;
       pose proof (as_bool_fr IA _ _ _ _ _ _ HA Ha E1);
       destruct (as_bool_c vb wb c1) as [b1 wb1 c2| |] eqn:E2; try discriminate; inversion E; subst;
       split; [assumption|eapply HBB; eassumption].
  all: destruct (bool_num_c D va wa cur) as [a wa1 c1| |] eqn:E1; try discriminate;
       pose proof (bool_num_fr D IA _ _ _ _ _ _ HA Ha E1);
       destruct (bool_num_c D vb wb c1) as [b1 wb1 c2| |] eqn:E2; try discriminate; inversion E; subst;
       split; [assumption|eapply HBN; eassumption].
Qed.

Lemma logical_do_fr : forall F op va wa vb wb cur b wa' wb' cur',
  HOK va IA -> HOK vb IB -> IA wa -> IB wb ->
  logical_do D F op va wa vb wb cur = OK3 b (wa', wb') cur' -> IA wa' /\ IB wb'.
Proof.
  intros F op va wa vb wb cur b wa' wb' cur' HA HB Ha Hb E. unfold logical_do in E.
  destruct va as [[| | | |]|ha]; destruct vb as [[| | | |]|hb]; cbn [xtype_of] in E; try discriminate;
    try (apply (cmp_boolean_any_fr _ _ _ _ _ _ _ _ _ _ HA HB Ha Hb E));
    try (inversion E; subst; auto; fail);
    try (apply (cmp_sets_fr _ _ _ _ HA HB _ _ _ _ _ _ _ _ Ha Hb E));
    match type of E with
    | context [cmp_loop D F ?h ?p wb cur] =>
      let El := fresh "El" in
      destruct (cmp_loop D F h p wb cur) as [? ? ?| |] eqn:El; try discriminate; inversion E; subst;
      split; [exact Ha|eapply (cmp_loop_fr D IB); [exact HB|exact Hb|exact El]]
    | context [cmp_loop D F ?h ?p wa cur] =>
      let El := fresh "El" in
      destruct (cmp_loop D F h p wa cur) as [? ? ?| |] eqn:El; try discriminate; inversion E; subst;
      split; [eapply (cmp_loop_fr D IA); [exact HA|exact Ha|exact El]|exact Hb]
    end.
Qed.

Lemma logical_ev_fr : forall F op (lev : WA -> node -> eres WA) (rev' : WB -> node -> eres WB),
  EvFr lev IA -> EvFr rev' IB -> forall st cur b st' cur',
    IA (lg_l st) -> IB (lg_r st) -> logical_ev D F op lev rev' st cur = OK3 b st' cur' ->
    IA (lg_l st') /\ IB (lg_r st').
Proof.
  intros F op lev rev' HL HR st cur b st' cur' Ha Hb E. unfold logical_ev in E.
  destruct (lev (lg_l st) cur) as [va wa c1| |] eqn:El; try discriminate.
  destruct (rev' (lg_r st) c1) as [vb wb c2| |] eqn:Er; try discriminate.
  destruct (HL _ _ _ _ _ Ha El) as [Ha1 HA]. destruct (HR _ _ _ _ _ Hb Er) as [Hb1 HB].
  destruct (logical_do D F op va wa vb wb c2) as [r [wa' wb'] c3| |] eqn:Ed; try discriminate.
  inversion E; subst. cbn [lg_l lg_r]. apply (logical_do_fr _ _ _ _ _ _ _ _ _ _ _ HA HB Ha1 Hb1 Ed).
Qed.

End Two.

(* ------------------------------------------------------------------ *)
(* the components of the iterators that are not their Input *)
Section Components.
Context {St P : Type}.
Variable F : nat.

(* filterQuery: the Predicate *)
Lemma filter3_pred_fr : forall (isel : St -> node -> res St) ipos ilvl (pev : P -> node -> eres P)
                               (psel : P -> node -> res P) (InvP : P -> Prop),
  EvFr pev InvP -> SelFr psel InvP ->
  SelFr (filter3_select isel ipos ilvl pev psel F) (fun st => InvP (f3_pred st)).
Proof.
  intros isel ipos ilvl pev psel InvP HE HS. unfold filter3_select.
  assert (H : forall f st cur o st' cur', InvP (f3_pred st) ->
             iter_loop (filter3_body isel ipos ilvl pev psel) f st cur = R o st' cur' -> InvP (f3_pred st')).
  { induction f as [|f IH]; intros st cur o st' cur' Hi E; cbn [iter_loop] in E; [discriminate|].
    unfold filter3_body at 1 in E. destruct (isel (f3_in st) cur) as [[n|] s1 cur1|] eqn:Ei; [| |discriminate].
    - destruct (filter_do pev psel (ipos s1) (f3_pred st) n) as [ok ps' c'| |] eqn:Ef; try discriminate.
      pose proof (filter_do_fr InvP pev psel HE HS _ _ _ _ _ _ Hi Ef) as H1.
      destruct ok; [inversion E; subst; exact H1|(refine (IH _ _ _ _ _ _ E); exact H1)].
    - inversion E; subst. exact Hi. }
  intros st cur o st' cur' Hi E. refine (H _ _ _ _ _ _ _ E). exact Hi.
Qed.

(* unionQuery: Left (and Right) *)
Lemma union_fr : forall hcode (lsel : St -> node -> res St) (rsel : P -> node -> res P) (IL : St -> Prop) (IR : P -> Prop),
  SelFr lsel IL -> SelFr rsel IR ->
  SelFr (union_select hcode lsel rsel F) (fun st => IL (u_l st) /\ IR (u_r st)).
Proof.
  intros hcode lsel rsel IL IR HL HR st cur o st' cur' [Ha Hb] E. unfold union_select in E.
  destruct (u_it st) as [|lst i].
  - destruct (ucollect hcode lsel F (u_l st) cur [] []) as [[[[m1 l1] sl'] c1]|] eqn:E1; [|discriminate].
    destruct (ucollect hcode rsel F (u_r st) cur m1 l1) as [[[[m2 l2] sr'] c3]|] eqn:E2; [|discriminate].
    destruct (list_next l2 0) as [o' i']. inversion E; subst. cbn [u_l u_r]. split.
    + apply (ucollect_fr IL hcode lsel HL _ _ _ _ _ _ _ _ _ Ha E1).
    + apply (ucollect_fr IR hcode rsel HR _ _ _ _ _ _ _ _ _ Hb E2).
  - destruct (list_next lst i) as [o' i']. inversion E; subst. cbn [u_l u_r]. auto.
Qed.

(* mergeQuery: Child *)
Lemma merge_ch_fr : forall (isel : St -> node -> res St) (csel : P -> node -> res P) (ceval : P -> P) (IC : P -> Prop),
  SelFr csel IC -> (forall c, IC c -> IC (ceval c)) ->
  SelFr (merge_select isel csel ceval F) (fun st => IC (m_ch st)).
Proof.
  intros isel csel ceval IC HS HR. unfold merge_select. generalize F at 2. intros f.
  induction f as [|f IH]; intros st cur o st' cur' Hi E; cbn [iter_loop] in E; [discriminate|].
  assert (Hpump : forall lst i s ch cur1, IC ch ->
             merge_pump (iter_loop (merge_body isel csel ceval F) f) lst i s ch cur1 = R o st' cur' -> IC (m_ch st')).
  { intros lst i s ch cur1 Hc Ep. unfold merge_pump, list_next in Ep. destruct (nth_error lst i) as [x|].
    - inversion Ep; subst. exact Hc.
    - refine (IH _ _ _ _ _ _ Ep). exact Hc. }
  unfold merge_body at 1, merge_body_gen in E. destruct (m_it st) as [|lst i].
  - destruct (isel (m_in st) cur) as [[root|] s1 cur1|] eqn:Ei; [| |discriminate].
    + destruct (mcollect csel F (ceval (m_ch st)) root []) as [[[lst ch2] cur2]|] eqn:Em; [|discriminate].
      apply (Hpump _ _ _ _ _ (mcollect_fr IC csel HS _ _ _ _ _ _ _ (HR _ Hi) Em) E).
    + inversion E; subst. exact Hi.
  - apply (Hpump _ _ _ _ _ Hi E).
Qed.

(* booleanQuery.Select *)
Lemma bool_fr : forall (lsel : St -> node -> res St) (rsel : P -> node -> res P) isor (IL : St -> Prop) (IR : P -> Prop),
  SelFr lsel IL -> SelFr rsel IR ->
  SelFr (bool_select lsel rsel isor F) (fun st => IL (bo_l st) /\ IR (bo_r st)).
Proof.
  intros lsel rsel isor IL IR HL HR st cur o st' cur' [Ha Hb] E. unfold bool_select in E.
  destruct (bo_it st) as [|lst i].
  - destruct (mcollect lsel F (bo_l st) cur []) as [[[la l'] c1]|] eqn:E1; [|discriminate].
    destruct (mcollect rsel F (bo_r st) cur []) as [[[lb r'] c3]|] eqn:E2; [|discriminate].
    match type of E with context [list_next ?l 0] => destruct (list_next l 0) as [o' i'] end.
    inversion E; subst. cbn [bo_l bo_r]. split.
    + apply (mcollect_fr IL lsel HL _ _ _ _ _ _ _ Ha E1).
    + apply (mcollect_fr IR rsel HR _ _ _ _ _ _ _ Hb E2).
  - destruct (list_next lst i) as [o' i']. inversion E; subst. cbn [bo_l bo_r]. auto.
Qed.

(* groupQuery.Evaluate hands out its Input *)
Lemma lift_group_HOK : forall (v : cval St) (I : St -> Prop),
  HOK v I -> HOK (lift_group v) (fun st => I (g_in st)).
Proof.
  intros [x|h] I H; cbn [lift_group HOK]; [exact Logic.I|]. destruct H as [HS HR]. split.
  - intros s cur o s' cur' Hi E. cbn [h_sel] in E.
    destruct (h_sel h (g_in s) cur) as [o1 s1 c1|] eqn:Es; [|discriminate]. inversion E; subst. cbn [g_in].
    apply (HS _ _ _ _ _ Hi Es).
  - intros w Hi. cbn [h_reset g_in]. apply HR, Hi.
Qed.

End Components.

(* ================================================================== *)
(** * 2. The frame invariant of a query tree *)

(* FI q s0 s: every functionQuery-like object nested anywhere in q has in s the state it has in s0
   (and, a data-structure invariant needed on the way, the index of every reverse iterator is
   within its list) *)
Fixpoint FI (q : query) : state3 q -> state3 q -> Prop :=
  match q return state3 q -> state3 q -> Prop with
  | QAncestor _ _ i => fun s0 s => FI i (n_in s0) (n_in s)
  | QAttribute _ i => fun s0 s => FI i (a_in s0) (a_in s)
  | QChild _ i | QCachedChild _ i => fun s0 s => FI i (c_in s0) (c_in s)
  | QDescendant _ _ i => fun s0 s => FI i (d_in s0) (d_in s)
  | QFollowing _ _ i => fun s0 s => FI i (fo_in s0) (fo_in s)
  | QPreceding _ _ i => fun s0 s => FI i (pr_in s0) (pr_in s)
  | QParent _ i | QSelf _ i => FI i
  | QFilter _ i p => fun s0 s => FI i (f3_in s0) (f3_in s) /\ FI p (f3_pred s0) (f3_pred s)
  | QReverse i => fun s0 s => rev_wf s /\ FI i (rv_in s0) (rv_in s)
  | QGroup i => fun s0 s => FI i (g_in s0) (g_in s)
  | QUnion l r => fun s0 s => FI r (u_r s0) (u_r s) /\ FI l (u_l s0) (u_l s)
  | QDoD _ _ i => fun s0 s => FI i (dd_in s0) (dd_in s)
  | QMerge i ch => fun s0 s => FI i (m_in s0) (m_in s) /\ FI ch (m_ch s0) (m_ch s)
  | QLogical _ l r => fun s0 s => FI l (lg_l s0) (lg_l s) /\ FI r (lg_r s0) (lg_r s)
  | QNumeric _ l r => fun s0 s => FI l (fst s0) (fst s) /\ FI r (snd s0) (snd s)
  | QBoolean _ l r => fun s0 s => FI l (bo_l s0) (bo_l s) /\ FI r (bo_r s0) (bo_r s)
  | QLastFunc i => fun s0 s => FI i (lf_in s0) (lf_in s)
  | QFn1 _ _ | QFn2 _ _ _ | QFn3 _ _ _ _ | QConcat _ | QArg _ _ => fun s0 s => s = s0
  | _ => fun _ _ => True
  end.

(* the trees covered: node-set operators have node-set inputs, concat's arguments form a list *)
Fixpoint frame_wf (q : query) : bool :=
  match q with
  | QAncestor _ _ i | QAttribute _ i | QChild _ i | QCachedChild _ i | QDescendant _ _ i
  | QFollowing _ _ i | QPreceding _ _ i | QParent _ i | QSelf _ i | QReverse i | QDoD _ _ i =>
    andb (is_ns i) (frame_wf i)
  | QFilter _ i p => andb (andb (is_ns i) (frame_wf i)) (frame_wf p)
  | QMerge i ch => andb (andb (is_ns i) (frame_wf i)) (frame_wf ch)
  | QUnion l r => andb (andb (is_ns r) (frame_wf r)) (frame_wf l)
  | QGroup i | QLastFunc i => frame_wf i
  | QLogical _ l r | QNumeric _ l r | QBoolean _ l r => andb (frame_wf l) (frame_wf r)
  | QFn1 _ a => frame_wf a
  | QFn2 _ a b => andb (frame_wf a) (frame_wf b)
  | QFn3 _ a b c => andb (andb (frame_wf a) (frame_wf b)) (frame_wf c)
  | QConcat args => andb (is_arglist args) (frame_wf args)
  | QArg a rest => andb (andb (frame_wf a) (is_arglist rest)) (frame_wf rest)
  | _ => true
  end.

Lemma frame_wf_fnwf : forall q, frame_wf q = true -> fnwf q = true.
Proof.
  induction q; cbn [frame_wf fnwf]; intros H; auto;
    repeat match goal with H : andb _ _ = true |- _ => apply andb_prop in H; destruct H end;
    repeat (apply andb_true_intro; split); auto.
Qed.

(* the reset done by Evaluate of a node-set query *)
Lemma FI_reset : forall q s0 s, FI q s0 s -> FI q s0 (reset3 q s).
Proof.
  induction q; intros s0 st H;
    cbn [FI reset3 n_in a_in c_in d_in fo_in pr_in f3_in f3_pred rv_in g_in u_l u_r dd_in m_in m_ch] in *; auto.
  - destruct H; split; auto.
  - destruct H as [_ H]. split; [exact I|auto].
  - destruct H; split; auto.
  - destruct H; split; auto.
Qed.

(* a start state *)
Lemma FI_refl_init : forall q, FI q (init3 q) (init3 q).
Proof.
  induction q; cbn [FI init3 n_in a_in c_in d_in fo_in pr_in f3_in f3_pred rv_in g_in u_l u_r dd_in m_in m_ch
                       lg_l lg_r bo_l bo_r lf_in fst snd]; auto.
  split; [exact I|auto].
Qed.

Lemma FI_refl_clone : forall q s, FI (clone_cfg3 q) (clone_state3 q s) (clone_state3 q s).
Proof.
  induction q; intros st;
    cbn [clone_cfg3 clone_state3 FI n_in a_in c_in d_in fo_in pr_in f3_in f3_pred rv_in g_in u_l u_r dd_in m_in m_ch
         lg_l lg_r bo_l bo_r lf_in fst snd]; auto.
  split; [exact I|auto].
Qed.

(* ================================================================== *)
(** * 3. The frame theorem *)
Section Frame.
Variable D : tree.
Variable has_ns : bool.
Variable hc : node -> N.
Variable rm : string -> string -> option bool.
Variable rn : string -> nat.
Variable rr : string -> string -> string -> string.
Notation S3 := (sel3 D has_ns hc rm rn rr).
Notation E3 := (ev3 D has_ns hc rm rn rr).

Definition FrOK (F : nat) (q : query) (s0 : state3 q) : Prop :=
  SelFr (S3 F q) (FI q s0) /\ EvFr (E3 F q) (FI q s0) /\
  (is_ns q = true -> GoodI (S3 F q) (FI q s0) (Dead3 q)).

(* the node-set query types: Evaluate resets and returns the query itself *)
Lemma ns_pack : forall F q s0,
  GoodI (S3 F q) (FI q s0) (Dead3 q) ->
  (forall s cur, E3 F q s cur = OK3 (CVQuery (mkHandle (S3 F q) (reset3 q))) (reset3 q s) cur) ->
  FrOK F q s0.
Proof.
  intros F q s0 G He. pose proof (GoodI_SelFr _ _ _ G) as HS. split; [exact HS|]. split; [|intros _; exact G].
  intros s cur v s' cur' Hi E. rewrite He in E. inversion E; subst. split; [apply FI_reset, Hi|].
  cbn [HOK h_sel h_reset]. split; [exact HS|]. intros w Hw. apply FI_reset, Hw.
Qed.

(* the function-like types: nothing changes at all *)
Lemma fn_pack : forall F q s0, frame_wf q = true -> fnlike q = true ->
  (forall s0 s, s = s0 -> FI q s0 s) -> FrOK F q s0.
Proof.
  intros F q s0 Hw Hf Hfi. split; [|split].
  - intros s cur o s' cur' Hi E.
    assert (Hn : S3 F q s cur = R None s cur) by (destruct q; try discriminate Hf; reflexivity).
    rewrite Hn in E. inversion E; subst. exact Hi.
  - intros s cur v s' cur' Hi E.
    destruct (fn_immutable D has_ns hc rm rn rr q (frame_wf_fnwf q Hw) Hf F _ _ _ _ _ E) as [-> [x ->]].
    split; [exact Hi|exact I].
  - intros Hns. destruct q; discriminate.
Qed.

Ltac splitw Hw := repeat (apply andb_prop in Hw; let H1 := fresh "Hw" in destruct Hw as [Hw H1]).

Theorem frame3 : forall F q, frame_wf q = true -> forall s0, FrOK F q s0.
Proof.
  intros F. induction q; intros Hw s0; cbn [frame_wf] in Hw.
  - (* QNil *) apply fn_pack; auto; intros; exact I.
  - (* QNop *) split; [|split; [|intros Hns; discriminate Hns]].
    + intros s cur o s' cur' Hi E. exact I.
    + intros s cur v s' cur' Hi E. inversion E; subst. split; exact I.
  - (* QContext *)
    apply ns_pack; [|intros; reflexivity].
    exact (Prot_GoodI D has_ns hc rm rn rr F QContext eq_refl (prot3 D has_ns hc rm rn rr F QContext eq_refl)).
  - (* QAbsolute *)
    apply ns_pack; [|intros; reflexivity].
    exact (Prot_GoodI D has_ns hc rm rn rr F QAbsolute eq_refl (prot3 D has_ns hc rm rn rr F QAbsolute eq_refl)).
  - (* QAncestor *) splitw Hw. apply ns_pack; [|intros; reflexivity].
    apply (anc_goodI hc (S3 F q) (FI q (n_in s0)) (Dead3 q) (proj2 (proj2 (IHq Hw0 (n_in s0))) Hw)).
  - (* QAttribute *) splitw Hw. apply ns_pack; [|intros; reflexivity].
    apply (attr_goodI D (S3 F q) (FI q (a_in s0)) (Dead3 q) (proj2 (proj2 (IHq Hw0 (a_in s0))) Hw)).
  - (* QChild *) splitw Hw. apply ns_pack; [|intros; reflexivity].
    apply (child_goodI D (S3 F q) (FI q (c_in s0)) (Dead3 q) (proj2 (proj2 (IHq Hw0 (c_in s0))) Hw)).
  - (* QCachedChild *) splitw Hw. apply ns_pack; [|intros; reflexivity].
    apply (child_goodI D (S3 F q) (FI q (c_in s0)) (Dead3 q) (proj2 (proj2 (IHq Hw0 (c_in s0))) Hw)).
  - (* QDescendant *) splitw Hw. apply ns_pack; [|intros; reflexivity].
    apply (desc_goodI D (S3 F q) (FI q (d_in s0)) (Dead3 q) (proj2 (proj2 (IHq Hw0 (d_in s0))) Hw)).
  - (* QFollowing *) splitw Hw. apply ns_pack; [|intros; reflexivity].
    apply (fol_goodI D (S3 F q) (FI q (fo_in s0)) (Dead3 q) (proj2 (proj2 (IHq Hw0 (fo_in s0))) Hw)).
  - (* QPreceding *) splitw Hw. apply ns_pack; [|intros; reflexivity].
    apply (pre_goodI D (S3 F q) (FI q (pr_in s0)) (Dead3 q) (proj2 (proj2 (IHq Hw0 (pr_in s0))) Hw)).
  - (* QParent *) splitw Hw. apply ns_pack; [|intros; reflexivity].
    apply (parent_goodI (S3 F q) (FI q s0) (Dead3 q) (proj2 (proj2 (IHq Hw0 s0)) Hw)).
  - (* QSelf *) splitw Hw. apply ns_pack; [|intros; reflexivity].
    apply (self_goodI (S3 F q) (FI q s0) (Dead3 q) (proj2 (proj2 (IHq Hw0 s0)) Hw)).
  - (* QFilter *) splitw Hw. apply ns_pack; [|intros; reflexivity].
    destruct (IHq1 Hw1 (f3_in s0)) as (_ & _ & G1). destruct (IHq2 Hw0 (f3_pred s0)) as (HS2 & HE2 & _).
    apply (GoodI_and _ _ _ _
             (filter3_goodI (S3 F q1) (FI q1 (f3_in s0)) (Dead3 q1) (G1 Hw) F
                            (position_of3 q1) (depth_of3 q1) (E3 F q2) (S3 F q2))
             (filter3_pred_fr F (S3 F q1) (position_of3 q1) (depth_of3 q1) (E3 F q2) (S3 F q2)
                              (FI q2 (f3_pred s0)) HE2 HS2)).
  - (* QFn0 *) apply fn_pack; auto; intros; exact I.
  - (* QFn1 *) apply fn_pack; auto.
  - (* QFn2 *) apply fn_pack; auto.
  - (* QFn3 *) apply fn_pack; auto.
  - (* QConcat *) apply fn_pack; auto.
  - (* QArg *) apply fn_pack; auto.
    splitw Hw. unfold fnlike. cbn [is_fn is_arglist orb]. exact Hw1.
  - (* QPosition *) apply fn_pack; auto; intros; exact I.
  - (* QLast *) apply fn_pack; auto; intros; exact I.
  - (* QReverse *) splitw Hw. apply ns_pack; [|intros; reflexivity].
    apply (rev_goodI (S3 F q) (FI q (rv_in s0)) (Dead3 q) (proj2 (proj2 (IHq Hw0 (rv_in s0))) Hw)).
  - (* QNum *) split; [|split; [|intros Hns; discriminate Hns]].
    + intros s cur o s' cur' Hi E. exact I.
    + intros s cur vv s' cur' Hi E. inversion E; subst. split; exact I.
  - (* QStr *) split; [|split; [|intros Hns; discriminate Hns]].
    + intros st cur o s' cur' Hi E. exact I.
    + intros st cur vv s' cur' Hi E. inversion E; subst. split; exact I.
  - (* QGroup *)
    destruct (IHq Hw (g_in s0)) as (HS & HE & G). split; [|split].
    + intros s cur o s' cur' Hi E.
      assert (Hshape : S3 F (QGroup q) s cur =
                match S3 F q (g_in s) cur with
                | Stuck => Stuck
                | R None s1 c1 => R None (mkGroup (g_posit s) s1) c1
                | R (Some n) s1 c1 => R (Some n) (mkGroup (S (g_posit s)) s1) c1
                end) by reflexivity.
      rewrite Hshape in E. destruct (S3 F q (g_in s) cur) as [[n|] s1 c1|] eqn:Es; try discriminate;
        inversion E; subst; cbn [FI g_in] in *; apply (HS _ _ _ _ _ Hi Es).
    + intros s cur vv s' cur' Hi E.
      assert (Hshape : E3 F (QGroup q) s cur =
                match E3 F q (g_in s) cur with
                | OK3 v s1 c1 => OK3 (lift_group v) (mkGroup 0 s1) c1
                | Stuck3 => Stuck3 | Panic3 m => Panic3 m end) by reflexivity.
      rewrite Hshape in E. destruct (E3 F q (g_in s) cur) as [v1 s1 c1| |] eqn:Ee; try discriminate.
      inversion E; subst. destruct (HE _ _ _ _ _ Hi Ee) as [H1 H2]. split; [exact H1|].
      apply (lift_group_HOK _ _ H2).
    + intros Hns. apply (group_goodI (S3 F q) (FI q (g_in s0)) (Dead3 q) (G Hns)).
  - (* QLogical *) splitw Hw.
    destruct (IHq1 Hw (lg_l s0)) as (_ & HE1 & _). destruct (IHq2 Hw0 (lg_r s0)) as (_ & HE2 & _).
    split; [|split; [|intros Hns; discriminate Hns]].
    + intros s cur o s' cur' [Ha Hb] E.
      assert (Hsel : S3 F (QLogical op q1 q2) s cur =
                if lg_done s then R None s cur
                else match logical_ev D F op (E3 F q1) (E3 F q2) s cur with
                     | OK3 b st' c' => R (if b then Some cur else None) (mkLogic true (lg_l st') (lg_r st')) c'
                     | _ => Stuck
                     end) by reflexivity.
      rewrite Hsel in E. destruct (lg_done s); [inversion E; subst; split; assumption|].
      destruct (logical_ev D F op (E3 F q1) (E3 F q2) s cur) as [b st' c'| |] eqn:El; try discriminate.
      inversion E; subst. cbn [FI lg_l lg_r].
      apply (logical_ev_fr D _ _ F op _ _ HE1 HE2 _ _ _ _ _ Ha Hb El).
    + intros s cur vv s' cur' [Ha Hb] E.
      assert (Hshape : E3 F (QLogical op q1 q2) s cur =
                match logical_ev D F op (E3 F q1) (E3 F q2) s cur with
                | OK3 b st' c' => OK3 (CVS (SBool b)) st' c'
                | Stuck3 => Stuck3 | Panic3 m => Panic3 m end) by reflexivity.
      rewrite Hshape in E.
      destruct (logical_ev D F op (E3 F q1) (E3 F q2) s cur) as [b st' c'| |] eqn:El; try discriminate.
      inversion E; subst. split; [|exact I].
      apply (logical_ev_fr D _ _ F op _ _ HE1 HE2 _ _ _ _ _ Ha Hb El).
  - (* QNumeric *) splitw Hw.
    destruct (IHq1 Hw (fst s0)) as (_ & HE1 & _). destruct (IHq2 Hw0 (snd s0)) as (_ & HE2 & _).
    split; [|split; [|intros Hns; discriminate Hns]].
    + intros s cur o s' cur' Hi E.
      assert (Hn : S3 F (QNumeric op q1 q2) s cur = R None s cur) by reflexivity.
      rewrite Hn in E. inversion E; subst. exact Hi.
    + intros s cur vv s' cur' [Ha Hb] E.
      assert (Hshape : E3 F (QNumeric op q1 q2) s cur =
        match E3 F q1 (fst s) cur with
        | Stuck3 => Stuck3 | Panic3 m => Panic3 m
        | OK3 va wa cur1 =>
          match E3 F q2 (snd s) cur1 with
          | Stuck3 => Stuck3 | Panic3 m => Panic3 m
          | OK3 vb wb cur2 =>
            match as_number_c D va wa cur2 with
            | Stuck3 => Stuck3 | Panic3 m => Panic3 m
            | OK3 a wa' cur3 =>
              match as_number_c D vb wb cur3 with
              | Stuck3 => Stuck3 | Panic3 m => Panic3 m
              | OK3 b wb' cur4 => OK3 (CVS (SNum (arith_op op a b))) (wa', wb') cur4
              end
            end
          end
        end) by reflexivity.
      rewrite Hshape in E.
      destruct (E3 F q1 (fst s) cur) as [va wa c1| |] eqn:E1; try discriminate.
      destruct (E3 F q2 (snd s) c1) as [vb wb c2| |] eqn:E2; try discriminate.
      destruct (HE1 _ _ _ _ _ Ha E1) as [Ha1 HA]. destruct (HE2 _ _ _ _ _ Hb E2) as [Hb1 HB].
      destruct (as_number_c D va wa c2) as [a wa' c3| |] eqn:E3a; try discriminate.
      destruct (as_number_c D vb wb c3) as [b wb' c4| |] eqn:E4; try discriminate.
      inversion E; subst. split; [|exact I]. cbn [FI fst snd]. split.
      * apply (as_number_fr D _ _ _ _ _ _ _ HA Ha1 E3a).
      * apply (as_number_fr D _ _ _ _ _ _ _ HB Hb1 E4).
  - (* QBoolean *) splitw Hw.
    destruct (IHq1 Hw (bo_l s0)) as (HS1 & HE1 & _). destruct (IHq2 Hw0 (bo_r s0)) as (HS2 & HE2 & _).
    split; [|split; [|intros Hns; discriminate Hns]].
    + change (S3 F (QBoolean isor q1 q2)) with (bool_select (S3 F q1) (S3 F q2) isor F).
      apply (bool_fr F _ _ isor _ _ HS1 HS2).
    + intros s cur vv s' cur' [Ha Hb] E.
      assert (Hshape : E3 F (QBoolean isor q1 q2) s cur =
        match E3 F q1 (bo_l s) cur with
        | Stuck3 => Stuck3 | Panic3 m => Panic3 m
        | OK3 va wa cur1 =>
          match as_bool_c va wa cur1 with
          | Stuck3 => Stuck3 | Panic3 m => Panic3 m
          | OK3 a wa' cur2 =>
            if Bool.eqb isor a then OK3 (CVS (SBool a)) (mkBoolSt (bo_it s) wa' (bo_r s)) cur2
            else
              match E3 F q2 (bo_r s) cur with
              | Stuck3 => Stuck3 | Panic3 m => Panic3 m
              | OK3 vb wb cur4 =>
                match as_bool_c vb wb cur4 with
                | Stuck3 => Stuck3 | Panic3 m => Panic3 m
                | OK3 b wb' cur5 => OK3 (CVS (SBool b)) (mkBoolSt (bo_it s) wa' wb') cur5
                end
              end
          end
        end) by reflexivity.
      rewrite Hshape in E.
      destruct (E3 F q1 (bo_l s) cur) as [va wa c1| |] eqn:E1; try discriminate.
      destruct (HE1 _ _ _ _ _ Ha E1) as [Ha1 HA].
      destruct (as_bool_c va wa c1) as [a wa' c2| |] eqn:E2; try discriminate.
      pose proof (as_bool_fr _ _ _ _ _ _ _ HA Ha1 E2) as Ha2.
      destruct (Bool.eqb isor a).
      * inversion E; subst. split; [|exact I]. cbn [FI bo_l bo_r]. split; assumption.
      * destruct (E3 F q2 (bo_r s) cur) as [vb wb c4| |] eqn:E4; try discriminate.
        destruct (HE2 _ _ _ _ _ Hb E4) as [Hb1 HB].
        destruct (as_bool_c vb wb c4) as [b wb' c5| |] eqn:E5; try discriminate.
        inversion E; subst. split; [|exact I]. cbn [FI bo_l bo_r]. split; [assumption|].
        apply (as_bool_fr _ _ _ _ _ _ _ HB Hb1 E5).
  - (* QUnion *) splitw Hw. apply ns_pack; [|intros; reflexivity].
    destruct (IHq1 Hw0 (u_l s0)) as (HS1 & _ & _). destruct (IHq2 Hw1 (u_r s0)) as (_ & _ & G2).
    refine (GoodI_and _ _ _ _
             (union_goodI hc F (S3 F q1) (S3 F q2) (FI q2 (u_r s0)) (Dead3 q2) (G2 Hw)) _).
    intros s cur o s' cur' Hi E.
    apply (union_fr F hc (S3 F q1) (S3 F q2) (FI q1 (u_l s0)) (fun _ => True) HS1
                    (fun _ _ _ _ _ _ _ => I) s cur o s' cur' (conj Hi I) E).
  - (* QLastFunc *)
    destruct (IHq Hw (lf_in s0)) as (HS & _ & _). split; [|split; [|intros Hns; discriminate Hns]].
    + intros s cur o s' cur' Hi E.
      assert (Hn : S3 F (QLastFunc q) s cur = R None s cur) by reflexivity.
      rewrite Hn in E. inversion E; subst. exact Hi.
    + intros s cur vv s' cur' Hi E.
      assert (Hshape : E3 F (QLastFunc q) s cur =
        if lf_counted s then OK3 (CVS (SNum (num_of_nat (List.length (lf_buffer s))))) s cur
        else match mcollect (S3 F q) F (lf_in s) cur (lf_buffer s) with
             | None => Stuck3
             | Some (buf, s1, c1) => OK3 (CVS (SNum (num_of_nat (List.length buf)))) (mkLastF buf true s1) c1
             end) by reflexivity.
      rewrite Hshape in E. destruct (lf_counted s).
      * inversion E; subst. split; [exact Hi|exact I].
      * destruct (mcollect (S3 F q) F (lf_in s) cur (lf_buffer s)) as [[[buf s1] c1]|] eqn:Em; try discriminate.
        inversion E; subst. split; [|exact I]. cbn [FI lf_in].
        apply (mcollect_fr _ _ HS _ _ _ _ _ _ _ Hi Em).
  - (* QDoD *) splitw Hw. apply ns_pack; [|intros; reflexivity].
    apply (dod_goodI D (S3 F q) (FI q (dd_in s0)) (Dead3 q) (proj2 (proj2 (IHq Hw0 (dd_in s0))) Hw)).
  - (* QMerge *) splitw Hw. apply ns_pack; [|intros; reflexivity].
    destruct (IHq1 Hw1 (m_in s0)) as (_ & _ & G1). destruct (IHq2 Hw0 (m_ch s0)) as (HS2 & _ & _).
    apply (GoodI_and _ _ _ _
             (merge_goodI F (S3 F q1) (FI q1 (m_in s0)) (Dead3 q1) (S3 F q2) (reset3 q2) (G1 Hw))
             (merge_ch_fr F (S3 F q1) (S3 F q2) (reset3 q2) (FI q2 (m_ch s0)) HS2
                          (fun c Hc => FI_reset q2 _ _ Hc))).
Qed.

End Frame.

Print Assumptions frame3.

(* ================================================================== *)
(** * 4. Running a clone leaves the original as it was *)

Lemma clone_cfg3_frame_wf : forall q, frame_wf (clone_cfg3 q) = frame_wf q.
Proof.
  induction q; cbn [clone_cfg3 frame_wf]; auto;
    rewrite ?clone_cfg3_is_ns, ?IHq, ?IHq1, ?IHq2, ?IHq3; reflexivity.
Qed.

(* The original (configuration q, state s) after its clone has reached state k: the objects the
   two share (Clone3.clone_state3: the captured argument queries of functionQuery closures) are in
   the state the clone left them in; every other object of the original is its own. *)
Fixpoint absorb3 (q : query) : state3 (clone_cfg3 q) -> state3 q -> state3 q :=
  match q return state3 (clone_cfg3 q) -> state3 q -> state3 q with
  | QAncestor _ _ i => fun k s => mkAnc (n_it s) (n_table s) (absorb3 i (n_in k) (n_in s))
  | QAttribute _ i => fun k s => mkAttrSt (a_it s) (absorb3 i (a_in k) (a_in s))
  | QChild _ i => fun k s => mkChild (c_posit s) (c_it s) (absorb3 i (c_in k) (c_in s))
  | QCachedChild _ i => fun k s => mkChild (c_posit s) (c_it s) (absorb3 i (c_in k) (c_in s))
  | QDescendant _ _ i => fun k s => mkDesc (d_it s) (d_posit s) (d_level s) (absorb3 i (d_in k) (d_in s))
  | QFollowing _ _ i => fun k s => mkFol (fo_posit s) (fo_it s) (absorb3 i (fo_in k) (fo_in s))
  | QPreceding _ _ i => fun k s => mkPre (pr_posit s) (pr_it s) (absorb3 i (pr_in k) (pr_in s))
  | QParent _ i => fun k s => absorb3 i k s
  | QSelf _ i => fun k s => absorb3 i k s
  | QFilter _ i p => fun k s => mkFilter3 (f3_posit s) (f3_pm s) (absorb3 i (f3_in k) (f3_in s))
                                          (absorb3 p (f3_pred k) (f3_pred s))
  | QFn1 _ _ => fun k _ => k
  | QFn2 _ _ _ => fun k _ => k
  | QFn3 _ _ _ _ => fun k _ => k
  | QConcat _ => fun k _ => k
  | QArg _ _ => fun k _ => k
  | QReverse i => fun k s => mkRev (rv_it s) (absorb3 i (rv_in k) (rv_in s))
  | QGroup i => fun k s => mkGroup (g_posit s) (absorb3 i (g_in k) (g_in s))
  | QLogical _ l r => fun k s => mkLogic (lg_done s) (absorb3 l (lg_l k) (lg_l s)) (absorb3 r (lg_r k) (lg_r s))
  | QNumeric _ l r => fun k s => (absorb3 l (fst k) (fst s), absorb3 r (snd k) (snd s))
  | QBoolean _ l r => fun k s => mkBoolSt (bo_it s) (absorb3 l (bo_l k) (bo_l s)) (absorb3 r (bo_r k) (bo_r s))
  | QUnion l r => fun k s => mkUnion (u_it s) (absorb3 l (u_l k) (u_l s)) (absorb3 r (u_r k) (u_r s))
  | QLastFunc i => fun k s => mkLastF (lf_buffer s) (lf_counted s) (absorb3 i (lf_in k) (lf_in s))
  | QDoD _ _ i => fun k s => mkDod (dd_level s) (dd_posit s) (dd_node s) (absorb3 i (dd_in k) (dd_in s))
  | QMerge i ch => fun k s => mkMerge (m_it s) (absorb3 i (m_in k) (m_in s)) (absorb3 ch (m_ch k) (m_ch s))
  | _ => fun _ s => s
  end.

(* as long as the clone's state satisfies the frame invariant relative to its start state,
   the original has not changed *)
Lemma absorb3_id : forall q s k, FI (clone_cfg3 q) (clone_state3 q s) k -> absorb3 q k s = s.
Proof.
  induction q; intros st k H;
    cbn [clone_cfg3 clone_state3 FI absorb3 n_in a_in c_in d_in fo_in pr_in f3_in f3_pred rv_in g_in u_l u_r
         dd_in m_in m_ch lg_l lg_r bo_l bo_r lf_in fst snd] in *;
    try reflexivity; try (exact H); auto;
    try (destruct st; cbn; f_equal; auto; fail).
  - destruct H as [H1 H2]. destruct st; cbn in *. f_equal; auto.
  - destruct H as [_ H]. destruct st; cbn in *. f_equal; auto.
  - destruct H as [H1 H2]. destruct st; cbn in *. f_equal; auto.
  - destruct H as [H1 H2]. destruct st; cbn in *. f_equal; auto.
  - destruct H as [H1 H2]. destruct st; cbn in *. f_equal; auto.
  - destruct H as [H1 H2]. destruct st; cbn in *. f_equal; auto.
  - destruct H as [H1 H2]. destruct st; cbn in *. f_equal; auto.
Qed.

Section Runs.
Variable D : tree.
Variable has_ns : bool.
Variable hc : node -> N.
Variable rm : string -> string -> option bool.
Variable rn : string -> nat.
Variable rr : string -> string -> string -> string.
Notation S3 := (sel3 D has_ns hc rm rn rr).
Notation E3 := (ev3 D has_ns hc rm rn rr).

(* any sequence of Select / Evaluate calls on a query object, each with its own context node *)
Inductive call3 := CSelect (c : node) | CEvaluate (c : node).

Fixpoint calls3 (F : nat) (q : query) (l : list call3) (s : state3 q) : option (state3 q) :=
  match l with
  | [] => Some s
  | CSelect c :: r => match S3 F q s c with R _ s' _ => calls3 F q r s' | Stuck => None end
  | CEvaluate c :: r => match E3 F q s c with OK3 _ s' _ => calls3 F q r s' | _ => None end
  end.

Theorem frame_select3 : forall F q (wf : frame_wf q = true) s0 s c o s' c',
  FI q s0 s -> S3 F q s c = R o s' c' -> FI q s0 s'.
Proof. intros F q wf s0 s c o s' c' Hi E. apply (proj1 (frame3 D has_ns hc rm rn rr F q wf s0) _ _ _ _ _ Hi E). Qed.

Theorem frame_evaluate3 : forall F q (wf : frame_wf q = true) s0 s c v s' c',
  FI q s0 s -> E3 F q s c = OK3 v s' c' -> FI q s0 s'.
Proof.
  intros F q wf s0 s c v s' c' Hi E.
  apply (proj1 (proj2 (frame3 D has_ns hc rm rn rr F q wf s0)) _ _ _ _ _ Hi E).
Qed.

Theorem frame_calls3 : forall F q (wf : frame_wf q = true) s0 l s s',
  FI q s0 s -> calls3 F q l s = Some s' -> FI q s0 s'.
Proof.
  intros F q wf s0. induction l as [|[c|c] r IH]; intros s s' Hi E; cbn [calls3] in E.
  - inversion E; subst. exact Hi.
  - destruct (S3 F q s c) as [o s1 c1|] eqn:Es; [|discriminate].
    apply (IH _ _ (frame_select3 F q wf _ _ _ _ _ _ Hi Es) E).
  - destruct (E3 F q s c) as [v s1 c1| |] eqn:Ee; try discriminate.
    apply (IH _ _ (frame_evaluate3 F q wf _ _ _ _ _ _ Hi Ee) E).
Qed.

(** ** clone_independent3 for whole trees: whatever is done with a clone of (q, s) -- any number of
    Select / Evaluate calls, from any contexts -- the original is afterwards exactly (q, s) *)
Theorem clone_independent3_all : forall F q (wf : frame_wf q = true) s l k,
  calls3 F (clone_cfg3 q) l (clone_state3 q s) = Some k -> absorb3 q k s = s.
Proof.
  intros F q wf s l k E. apply absorb3_id.
  apply (frame_calls3 F (clone_cfg3 q) ltac:(rewrite clone_cfg3_frame_wf; exact wf) _ l _ _ (FI_refl_clone q s) E).
Qed.

(* hence the original's later runs are what they would have been without the clone *)
Corollary clone_then_original3 : forall F q (wf : frame_wf q = true) s l k l2,
  calls3 F (clone_cfg3 q) l (clone_state3 q s) = Some k ->
  calls3 F q l2 (absorb3 q k s) = calls3 F q l2 s.
Proof. intros F q wf s l k l2 E. rewrite (clone_independent3_all F q wf s l k E). reflexivity. Qed.

(* a clone of a clone, and the original running in between, are no different: the invariant only
   speaks about the shared objects *)
Corollary original_run_keeps_frame3 : forall F q (wf : frame_wf q = true) s l s',
  FI q s s -> calls3 F q l s = Some s' -> FI q s s'.
Proof. intros F q wf s l s' Hi E. apply (frame_calls3 F q wf s l s s' Hi E). Qed.

End Runs.

Print Assumptions frame_calls3.
Print Assumptions clone_independent3_all.
Print Assumptions clone_then_original3.

(* ================================================================== *)
(** * 5. Examples *)
From XP Require Import Api.
Module FrameExamples.
Import AxesSound.Examples IterRefine3.M3Examples.
Open Scope string_scope.
Open Scope list_scope.

(* the compiled queries are covered *)
Example ex_frame_wf :
  forallb (fun s => frame_wf (comp s))
    ["//*[count(*) > 1][contains(name(), 'a')]"; "//a[b = 't' and not(@z)]/c | //e";
     "concat(name(), '-', string(count(//*[@x])), b)"; "reverse(//*[position() < last()])";
     "(//node())[3]/following::*[string-length(name()) = 1]"; "sum(//@*) + count(//d/ancestor::*) * 2";
     "//*[substring(name(), 1, 1) = 'c' or starts-with(., 't')]"] = true.
Proof. vm_compute. reflexivity. Qed.

(* run a clone of (q, s): the original, with the shared objects as the clone left them, is (q, s) *)
Definition indep (q : query) (s : state3 q) (l : list call3) : Prop :=
  match calls3 exD false hc lit_match lit_numsubexp lit_replace_all 60 (clone_cfg3 q) l (clone_state3 q s) with
  | Some k => absorb3 q k s = s
  | None => False
  end.
(* the original after k Selects of its own *)
Definition used (q : query) (k : nat) : state3 q :=
  Nat.iter k (fun s => match sel3 exD false hc lit_match lit_numsubexp lit_replace_all 60 q s root_node with
                       | R _ s' _ => s' | Stuck => s end) (init3 q).

Definition q1 := comp "//*[count(*) > 1 or contains(name(), 'b')][string-length(concat(name(), 'x')) = 2]".
Example ex_clone_independent :
  indep q1 (used q1 2) [CSelect root_node; CSelect root_node; CEvaluate n_a; CSelect n_c; CSelect n_c; CSelect n_c].
Proof. vm_compute. reflexivity. Qed.

Definition q2 := comp "concat(name(), '-', string(count(//*[@x])), b)".
Example ex_clone_independent_fn : indep q2 (init3 q2) [CEvaluate n_a; CEvaluate n_c; CSelect n_a].
Proof. vm_compute. reflexivity. Qed.
End FrameExamples.

(* ================================================================== *)
(** * Summary

   FI q s0 s       frame invariant: every QFn1 / QFn2 / QFn3 / QConcat / QArg object nested ANYWHERE in
                   q (node-set spine, filter predicates, union / merge / boolean / logical / numeric
                   operands, lastFuncQuery input, group) has in s the state it has in s0; plus the
                   data-structure invariant of reverse iterators (index within its list)
   frame_wf q      the trees covered: node-set operators have node-set inputs, concat's arguments
                   (and the tail of every QArg) form an argument list.  Every query type is covered,
                   lastFuncQuery and descendantOverDescendantQuery included.
   frame3          for every frame_wf q and every s0:  Select keeps FI q s0, Evaluate keeps FI q s0 and
                   the query value it returns keeps it too when the consumer runs / resets it
                   (HOK), and for node-set q Select is GoodI with that invariant
   frame_select3 / frame_evaluate3 / frame_calls3      the same for one call / any list of calls
   absorb3 q k s   the original (q, s) after its clone reached state k: shared objects as in k
   clone_independent3_all   any list of Select / Evaluate calls on clone3 (q, s), from any contexts:
                            absorb3 q k s = s, the original is exactly what it was
   clone_then_original3     so the original's later runs are those it would have made anyway
   Generic lemmas (section 1): sel_loop / mcollect / ucollect / first_value / asString / asNumber /
   asBool / cmp_loop / cmpNodeSetNodeSet / cmpBooleanAny / logical Do / filterQuery.do /
   filter predicate / union / merge child / booleanQuery.Select / groupQuery's handed-out input
   preserve any invariant of the operand's state that the operand's own Select / reset preserve.

   Not covered: a call that gets stuck or panics (calls3 = None: nothing is said about the state a
   panic leaves behind); a stray QArg whose tail is not an argument list (build.go never makes one;
   m1_supported4 alone does not exclude it, frame_wf does). *)
