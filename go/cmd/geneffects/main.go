// geneffects extracts, from the Go sources of the xpath engine, the table of
// "effect facts" on which property C05 (concurrent use is race free and every
// call returns what it would return alone) rests, and writes it as plain Coq
// data to Generated/Effects.v.  The Coq side (Conc.v: effects_ok, and
// Generated/Effects_ok.v: effects_table_ok) re-checks the table on every run.
//
//	geneffects <repo-dir> <out Effects.v> [<out Effects_ok.v>]
//
// The analysis uses go/ast + go/parser only (no type checker).  It is name
// based and over-approximating: see the LIMITATIONS comment at the end.
package main

import (
	"fmt"
	"go/ast"
	"go/parser"
	"go/token"
	"os"
	"path/filepath"
	"sort"
	"strings"
)

// ---------------------------------------------------------------- helpers

// lhsRoot returns the identifier at the root of an assignable expression
// (x, x.f, x[i], *x, x[i:j]) and whether the expression is the bare identifier.
func lhsRoot(e ast.Expr) (*ast.Ident, bool) {
	switch v := e.(type) {
	case *ast.Ident:
		return v, true
	case *ast.SelectorExpr:
		id, _ := lhsRoot(v.X)
		return id, false
	case *ast.IndexExpr:
		id, _ := lhsRoot(v.X)
		return id, false
	case *ast.SliceExpr:
		id, _ := lhsRoot(v.X)
		return id, false
	case *ast.StarExpr:
		id, _ := lhsRoot(v.X)
		return id, false
	case *ast.ParenExpr:
		return lhsRoot(v.X)
	}
	return nil, false
}

func unparen(e ast.Expr) ast.Expr {
	for {
		p, ok := e.(*ast.ParenExpr)
		if !ok {
			return e
		}
		e = p.X
	}
}

func recvOf(fd *ast.FuncDecl) (name, typ string) {
	if fd == nil || fd.Recv == nil || len(fd.Recv.List) == 0 {
		return "", ""
	}
	f := fd.Recv.List[0]
	if len(f.Names) > 0 {
		name = f.Names[0].Name
	}
	t := f.Type
	if s, ok := t.(*ast.StarExpr); ok {
		t = s.X
	}
	if id, ok := t.(*ast.Ident); ok {
		typ = id.Name
	}
	return
}

// hasVerifConstraint: the file carries a build constraint mentioning the tag `verif`.
func hasVerifConstraint(af *ast.File) bool {
	for _, cg := range af.Comments {
		if cg.Pos() >= af.Package {
			break
		}
		for _, c := range cg.List {
			t := strings.TrimSpace(c.Text)
			if strings.HasPrefix(t, "//go:build") || strings.HasPrefix(t, "// +build") || strings.HasPrefix(t, "//+build") {
				for _, w := range strings.FieldsFunc(t, func(r rune) bool {
					return !(r == '_' || r >= 'a' && r <= 'z' || r >= 'A' && r <= 'Z' || r >= '0' && r <= '9')
				}) {
					if w == "verif" {
						return true
					}
				}
			}
		}
	}
	return false
}

// mentions reports whether the type expression mentions the identifier name.
func mentions(t ast.Expr, name string) bool {
	found := false
	ast.Inspect(t, func(n ast.Node) bool {
		if id, ok := n.(*ast.Ident); ok && id.Name == name {
			found = true
		}
		return !found
	})
	return found
}

// ---------------------------------------------------------------- facts

type pair struct{ a, b string }
type triple struct{ a, b, c string }
type flagged struct {
	a  string
	ok bool
}

type facts struct {
	pkgvarWrites     map[pair][]string // value: positions (summary only)
	buildCapWrites   map[pair][]string
	callCapWrites    map[pair][]string
	buildDirectEvals map[pair][]string
	exprQUses        []flagged
	exprQPos         []string
	cloneFields      map[triple][]string
	recvFieldWrites  map[pair][]string
	cacheAccesses    []flagged
	cachePos         []string
}

type analyzer struct {
	fset      *token.FileSet
	files     []*ast.File
	pkgVars   map[string]bool
	typeDecls map[string]ast.Expr
	structs   map[string]*ast.StructType
	fieldOf   map[string][]string // field name -> struct types declaring it
	calls     map[string]map[string]bool
	declared  map[string]bool
	build     map[string]bool
	cloners   map[string]bool // helper functions all of whose results are X.Clone()
	f         facts
}

func (a *analyzer) pos(p token.Pos) string {
	q := a.fset.Position(p)
	return fmt.Sprintf("%s:%d", filepath.Base(q.Filename), q.Line)
}

func add(m map[pair][]string, k pair, pos string) { m[k] = append(m[k], pos) }

// names of the methods that run at evaluation time (they are never "build-time",
// whatever the name based call graph says).
var evalNames = map[string]bool{"Select": true, "Evaluate": true, "Clone": true, "Test": true,
	"ValueType": true, "Properties": true, "position": true, "depth": true, "MoveNext": true, "Current": true}

var buildRoots = []string{"build", "Compile", "CompileWithNS", "MustCompile"}

func (a *analyzer) collect() {
	a.pkgVars = map[string]bool{}
	a.typeDecls = map[string]ast.Expr{}
	a.structs = map[string]*ast.StructType{}
	a.fieldOf = map[string][]string{}
	a.calls = map[string]map[string]bool{}
	a.declared = map[string]bool{}
	for _, af := range a.files {
		for _, d := range af.Decls {
			switch d := d.(type) {
			case *ast.GenDecl:
				for _, s := range d.Specs {
					switch s := s.(type) {
					case *ast.ValueSpec:
						if d.Tok == token.VAR {
							for _, n := range s.Names {
								a.pkgVars[n.Name] = true
							}
						}
					case *ast.TypeSpec:
						a.typeDecls[s.Name.Name] = s.Type
						if st, ok := s.Type.(*ast.StructType); ok {
							a.structs[s.Name.Name] = st
							for _, f := range st.Fields.List {
								for _, n := range f.Names {
									a.fieldOf[n.Name] = append(a.fieldOf[n.Name], s.Name.Name)
								}
							}
						}
					}
				}
			case *ast.FuncDecl:
				if d.Body == nil {
					continue
				}
				name := d.Name.Name
				a.declared[name] = true
				if a.calls[name] == nil {
					a.calls[name] = map[string]bool{}
				}
				ast.Inspect(d.Body, func(n ast.Node) bool {
					if ce, ok := n.(*ast.CallExpr); ok {
						switch f := unparen(ce.Fun).(type) {
						case *ast.Ident:
							a.calls[name][f.Name] = true
						case *ast.SelectorExpr:
							a.calls[name][f.Sel.Name] = true
						}
					}
					return true
				})
			}
		}
	}
	// build-time functions: reachable (by name) from the compile entry points,
	// not entering the evaluation-time methods.
	a.build = map[string]bool{}
	var visit func(string)
	visit = func(n string) {
		if a.build[n] || !a.declared[n] || evalNames[n] {
			return
		}
		a.build[n] = true
		for c := range a.calls[n] {
			visit(c)
		}
	}
	for _, r := range buildRoots {
		visit(r)
	}
	// cloning helpers: f(x) whose every return statement returns X.Clone() (or a cloning helper).
	a.cloners = map[string]bool{}
	for changed := true; changed; {
		changed = false
		for _, af := range a.files {
			for _, d := range af.Decls {
				fd, ok := d.(*ast.FuncDecl)
				if !ok || fd.Body == nil || fd.Recv != nil || a.cloners[fd.Name.Name] {
					continue
				}
				n, all := 0, true
				ast.Inspect(fd.Body, func(m ast.Node) bool {
					if _, ok := m.(*ast.FuncLit); ok {
						return false
					}
					if r, ok := m.(*ast.ReturnStmt); ok {
						n++
						if len(r.Results) != 1 || !a.isCloneCall(r.Results[0]) {
							all = false
						}
					}
					return true
				})
				if n > 0 && all {
					a.cloners[fd.Name.Name] = true
					changed = true
				}
			}
		}
	}
}

// isCloneCall: e is X.Clone() or cloner(X).
func (a *analyzer) isCloneCall(e ast.Expr) bool {
	ce, ok := unparen(e).(*ast.CallExpr)
	if !ok {
		return false
	}
	switch f := unparen(ce.Fun).(type) {
	case *ast.SelectorExpr:
		return f.Sel.Name == "Clone" && len(ce.Args) == 0
	case *ast.Ident:
		return a.cloners[f.Name] && len(ce.Args) == 1
	}
	return false
}

// ---------------------------------------------------------------- per-function walk

type fnCtx struct {
	label    string // function name used in the facts
	name     string // bare function name
	recvName string
	recvType string
	lo, hi   token.Pos // extent of the declaration (for "declared inside this function")
	isInit   bool
	isBuild  bool
	ownVar   string // for a package-level initialiser: the variable being initialised
}

func (a *analyzer) isPkgVar(id *ast.Ident, c *fnCtx) bool {
	if !a.pkgVars[id.Name] {
		return false
	}
	if id.Obj == nil {
		return true // not resolved in this file: declared in another file of the package
	}
	if id.Obj.Kind != ast.Var {
		return false
	}
	dp := id.Obj.Pos()
	return !(c.lo <= dp && dp < c.hi) || c.ownVar != ""
}

func (a *analyzer) walkFunc(c *fnCtx, body ast.Node) {
	var stack []ast.Node
	var lits []*ast.FuncLit // enclosing ESCAPING function literals
	escaping := map[*ast.FuncLit]bool{}

	checkWrite := func(e ast.Expr, at token.Pos, how string) {
		id, direct := lhsRoot(e)
		if id == nil || id.Name == "_" {
			return
		}
		if a.isPkgVar(id, c) {
			// the declaration `var x = <lit>` itself contains no assignment to x, so every
			// write found here is a write after initialisation (unless we are in init()).
			if !c.isInit {
				add(a.f.pkgvarWrites, pair{c.label, id.Name}, a.pos(at))
			}
			return
		}
		if id.Obj == nil || id.Obj.Kind != ast.Var {
			return
		}
		if !direct && c.recvName != "" && id.Name == c.recvName && id.Obj.Pos() >= c.lo && id.Obj.Pos() < c.hi {
			add(a.f.recvFieldWrites, pair{c.recvType, c.name}, a.pos(at))
		}
		if len(lits) == 0 {
			return
		}
		dp := id.Obj.Pos()
		inner, outer := lits[len(lits)-1], lits[0]
		v := id.Name
		if !direct {
			v += how
		}
		switch {
		case inner.Pos() <= dp && dp < inner.End():
			// the literal's own parameter or local
		case outer.Pos() <= dp && dp < outer.End():
			// declared in an enclosing literal: lives for one call of that literal
			add(a.f.callCapWrites, pair{c.label, v}, a.pos(at))
		case c.isBuild:
			add(a.f.buildCapWrites, pair{c.label, v}, a.pos(at))
		default:
			add(a.f.callCapWrites, pair{c.label, v}, a.pos(at))
		}
	}

	ast.Inspect(body, func(n ast.Node) bool {
		if n == nil {
			top := stack[len(stack)-1]
			stack = stack[:len(stack)-1]
			if fl, ok := top.(*ast.FuncLit); ok && escaping[fl] {
				lits = lits[:len(lits)-1]
			}
			return true
		}
		var parent, grand ast.Node
		if len(stack) > 0 {
			parent = stack[len(stack)-1]
		}
		if len(stack) > 1 {
			grand = stack[len(stack)-2]
		}
		stack = append(stack, n)
		switch v := n.(type) {
		case *ast.FuncLit:
			// immediately invoked literal (func(){..}(), also under defer/go): does not escape
			esc := true
			p := parent
			for i := len(stack) - 2; i >= 0; i-- {
				if _, ok := stack[i].(*ast.ParenExpr); ok {
					continue
				}
				p = stack[i]
				break
			}
			if ce, ok := p.(*ast.CallExpr); ok && unparen(ce.Fun) == ast.Expr(v) {
				esc = false
			}
			if esc {
				escaping[v] = true
				lits = append(lits, v)
			}
		case *ast.AssignStmt:
			if v.Tok != token.DEFINE {
				for _, l := range v.Lhs {
					checkWrite(l, v.Pos(), ".*")
				}
			}
		case *ast.IncDecStmt:
			checkWrite(v.X, v.Pos(), ".*")
		case *ast.RangeStmt:
			if v.Tok == token.ASSIGN {
				if v.Key != nil {
					checkWrite(v.Key, v.Pos(), ".*")
				}
				if v.Value != nil {
					checkWrite(v.Value, v.Pos(), ".*")
				}
			}
		case *ast.UnaryExpr:
			// &x of a captured variable lets anybody write it: count as a write
			if v.Op == token.AND {
				if _, isLit := unparen(v.X).(*ast.CompositeLit); !isLit {
					if id, _ := lhsRoot(v.X); id != nil && len(lits) > 0 {
						checkWrite(v.X, v.Pos(), ".&")
					}
				}
			}
		case *ast.CallExpr:
			if id, ok := unparen(v.Fun).(*ast.Ident); ok && id.Name == "delete" && id.Obj == nil && len(v.Args) == 2 {
				if r, _ := lhsRoot(v.Args[0]); r != nil {
					// delete(m, k) writes the map m
					checkWrite(&ast.IndexExpr{X: v.Args[0], Index: v.Args[1]}, v.Pos(), ".*")
				}
			}
			// direct evaluation of a captured build-time query: X.Select(..)/X.Evaluate(..) with X
			// a variable of the enclosing build-time function (state of a query that every
			// evaluation shares).  Allowed forms are X.Clone().Select(..), functionArgs(X).Evaluate(..).
			if se, ok := unparen(v.Fun).(*ast.SelectorExpr); ok && (se.Sel.Name == "Select" || se.Sel.Name == "Evaluate") && c.isBuild && len(lits) > 0 {
				if id, ok := unparen(se.X).(*ast.Ident); ok && id.Obj != nil && id.Obj.Kind == ast.Var && !a.isPkgVar(id, c) {
					dp := id.Obj.Pos()
					if !(lits[0].Pos() <= dp && dp < lits[0].End()) {
						add(a.f.buildDirectEvals, pair{c.label, id.Name + "." + se.Sel.Name}, a.pos(v.Pos()))
					}
				}
			}
		case *ast.SelectorExpr:
			a.exprQ(c, v, parent, grand)
		}
		return true
	})
}

// exprQ records a use of <x>.q (the shared compiled query of an Expr).
func (a *analyzer) exprQ(c *fnCtx, v *ast.SelectorExpr, parent, grand ast.Node) {
	if v.Sel.Name != "q" {
		return
	}
	owners := a.fieldOf["q"]
	isExprField := false
	for _, o := range owners {
		if o == "Expr" {
			isExprField = true
		}
	}
	if !isExprField {
		return
	}
	label := ""
	if c.recvType == "Expr" {
		if id, ok := unparen(v.X).(*ast.Ident); ok && id.Name == c.recvName {
			label = c.name
		}
	}
	if label == "" {
		// outside a method of Expr (or not on the receiver).  If Expr is the only struct with a
		// field q, every x.q is a use of Expr.q; otherwise we cannot tell and over-approximate.
		label = "func:" + c.label
	}
	ok := false
	if p, isSel := parent.(*ast.SelectorExpr); isSel && p.X == ast.Expr(v) && p.Sel.Name == "Clone" {
		if g, isCall := grand.(*ast.CallExpr); isCall && g.Fun == ast.Expr(p) && len(g.Args) == 0 {
			ok = true
		}
	}
	a.f.exprQUses = append(a.f.exprQUses, flagged{label, ok})
	a.f.exprQPos = append(a.f.exprQPos, a.pos(v.Pos()))
}

// ---------------------------------------------------------------- Clone methods

func (a *analyzer) fieldClass(t ast.Expr) string {
	switch v := t.(type) {
	case *ast.FuncType:
		return "value"
	case *ast.Ident:
		switch v.Name {
		case "bool", "string", "int", "int8", "int16", "int32", "int64", "uint", "uint8", "uint16", "uint32", "uint64",
			"float32", "float64", "byte", "rune", "uintptr", "complex64", "complex128":
			return "value"
		case "query":
			return "query"
		}
		if d, ok := a.typeDecls[v.Name]; ok {
			if _, isStruct := d.(*ast.StructType); isStruct {
				if mentions(d, "query") {
					return "query"
				}
				return "ref" // struct copied by value may still hold references: over-approximate
			}
			if _, isIface := d.(*ast.InterfaceType); isIface {
				// another interface (NodeNavigator, iterator): iteration state, not a sub-query.
				// Copying it is rejected ("ref"); leaving it out gives a fresh zero value.
				return "ref"
			}
			return a.fieldClass(d)
		}
		return "ref"
	}
	if mentions(t, "query") {
		return "query"
	}
	return "ref" // pointer, slice, map, chan, interface{}, imported type
}

func (a *analyzer) cloneMethod(fd *ast.FuncDecl) {
	recvName, recvType := recvOf(fd)
	emit := func(field, class string, at token.Pos) {
		k := triple{recvType, field, class}
		a.f.cloneFields[k] = append(a.f.cloneFields[k], a.pos(at))
	}
	// nil guards: return statements lexically inside `if recv.F == nil { ... }`
	var guards []string
	var visit func(n ast.Node)
	visitStmts := func(l []ast.Stmt) {
		for _, s := range l {
			visit(s)
		}
	}
	nilGuarded := func(cond ast.Expr) []string {
		var out []string
		var rec func(e ast.Expr)
		rec = func(e ast.Expr) {
			be, ok := unparen(e).(*ast.BinaryExpr)
			if !ok {
				return
			}
			if be.Op == token.LAND {
				rec(be.X)
				rec(be.Y)
				return
			}
			if be.Op == token.EQL {
				x, y := unparen(be.X), unparen(be.Y)
				if id, ok := x.(*ast.Ident); ok && id.Name == "nil" {
					x, y = y, x
				}
				if id, ok := y.(*ast.Ident); ok && id.Name == "nil" {
					if se, ok := x.(*ast.SelectorExpr); ok {
						if r, ok := se.X.(*ast.Ident); ok && r.Name == recvName && recvName != "" {
							out = append(out, se.Sel.Name)
						}
					}
				}
			}
		}
		rec(cond)
		return out
	}
	visit = func(n ast.Node) {
		switch v := n.(type) {
		case nil:
		case *ast.BlockStmt:
			visitStmts(v.List)
		case *ast.IfStmt:
			g := nilGuarded(v.Cond)
			guards = append(guards, g...)
			visit(v.Body)
			guards = guards[:len(guards)-len(g)]
			if v.Else != nil {
				visit(v.Else)
			}
		case *ast.ReturnStmt:
			if len(v.Results) != 1 {
				emit("<result>", "opaque", v.Pos())
				return
			}
			a.cloneResult(recvName, recvType, v.Results[0], guards, emit)
		case *ast.ForStmt:
			visit(v.Body)
		case *ast.RangeStmt:
			visit(v.Body)
		case *ast.SwitchStmt:
			visit(v.Body)
		case *ast.TypeSwitchStmt:
			visit(v.Body)
		case *ast.CaseClause:
			visitStmts(v.Body)
		case *ast.LabeledStmt:
			visit(v.Stmt)
		}
	}
	if a.cloneByStructCopy(fd, recvName, recvType, emit) {
		return
	}
	visit(fd.Body)
}

// stateFields: the fields of T that some method of T assigns (iteration state, as opposed to
// configuration set once by the builder)
func (a *analyzer) stateFields(T string) map[string]bool {
	out := map[string]bool{}
	for _, af := range a.files {
		for _, d := range af.Decls {
			fd, ok := d.(*ast.FuncDecl)
			if !ok || fd.Body == nil || fd.Recv == nil {
				continue
			}
			rn, rt := recvOf(fd)
			if rt != T || rn == "" {
				continue
			}
			mark := func(e ast.Expr) {
				for {
					switch x := unparen(e).(type) {
					case *ast.IndexExpr:
						e = x.X
						continue
					case *ast.SelectorExpr:
						if id, ok := unparen(x.X).(*ast.Ident); ok && id.Name == rn {
							out[x.Sel.Name] = true
							return
						}
						e = x.X
						continue
					case *ast.StarExpr:
						e = x.X
						continue
					}
					return
				}
			}
			ast.Inspect(fd.Body, func(n ast.Node) bool {
				switch v := n.(type) {
				case *ast.AssignStmt:
					for _, l := range v.Lhs {
						mark(l)
					}
				case *ast.IncDecStmt:
					mark(v.X)
				case *ast.CallExpr:
					// delete(recv.m, k) / append into recv.f is an assignment elsewhere; delete counts
					if id, ok := unparen(v.Fun).(*ast.Ident); ok && id.Name == "delete" && len(v.Args) == 2 {
						mark(v.Args[0])
					}
				}
				return true
			})
		}
	}
	return out
}

// cloneByStructCopy understands the other way of writing a deep copy:
//
//	c := *recv          // every field copied by value
//	c.F = recv.F.Clone() // overrides
//	c.G = nil
//	return &c
//
// A field that is not overridden keeps the receiver's value: a sub-query is then SHARED, a field
// some method assigns (iteration state) is "state-copied" (both rejected by the checker), a
// configuration field is a plain "value".
func (a *analyzer) cloneByStructCopy(fd *ast.FuncDecl, recvName, recvType string, emit func(field, class string, at token.Pos)) bool {
	st := a.structs[recvType]
	if st == nil || recvName == "" || len(fd.Body.List) < 2 {
		return false
	}
	first, ok := fd.Body.List[0].(*ast.AssignStmt)
	if !ok || first.Tok != token.DEFINE || len(first.Lhs) != 1 || len(first.Rhs) != 1 {
		return false
	}
	cv, ok := first.Lhs[0].(*ast.Ident)
	if !ok {
		return false
	}
	se, ok := unparen(first.Rhs[0]).(*ast.StarExpr)
	if !ok {
		return false
	}
	if id, ok := unparen(se.X).(*ast.Ident); !ok || id.Name != recvName {
		return false
	}
	last, ok := fd.Body.List[len(fd.Body.List)-1].(*ast.ReturnStmt)
	if !ok || len(last.Results) != 1 {
		return false
	}
	ue, ok := unparen(last.Results[0]).(*ast.UnaryExpr)
	if !ok || ue.Op != token.AND {
		return false
	}
	if id, ok := unparen(ue.X).(*ast.Ident); !ok || id.Name != cv.Name {
		return false
	}
	over := map[string]ast.Expr{}
	for _, stt := range fd.Body.List[1 : len(fd.Body.List)-1] {
		as, ok := stt.(*ast.AssignStmt)
		if !ok || as.Tok != token.ASSIGN || len(as.Lhs) != len(as.Rhs) {
			return false // anything else between the copy and the return: not this pattern
		}
		for i, l := range as.Lhs {
			sel, ok := unparen(l).(*ast.SelectorExpr)
			if !ok {
				return false
			}
			if id, ok := unparen(sel.X).(*ast.Ident); !ok || id.Name != cv.Name {
				return false
			}
			over[sel.Sel.Name] = as.Rhs[i]
		}
	}
	state := a.stateFields(recvType)
	emit("<new:"+recvType+">", "fresh", fd.Pos())
	for _, f := range st.Fields.List {
		names := f.Names
		if len(names) == 0 {
			emit("<embedded>", "opaque", f.Pos())
			continue
		}
		for _, n := range names {
			if val, ok := over[n.Name]; ok {
				switch {
				case a.isCloneCall(val):
					emit(n.Name, "cloned", val.Pos())
				case a.fieldClass(f.Type) == "query":
					if id, ok := unparen(val).(*ast.Ident); ok && id.Name == "nil" {
						emit(n.Name, "value", val.Pos())
					} else {
						emit(n.Name, "shared", val.Pos())
					}
				default:
					// an explicit reset / new value of a plain field
					if isZeroLit(val) {
						emit(n.Name, "value", val.Pos())
					} else if a.fieldClass(f.Type) == "value" {
						emit(n.Name, "value", val.Pos())
					} else {
						emit(n.Name, "ref", val.Pos())
					}
				}
				continue
			}
			switch {
			case a.fieldClass(f.Type) == "query":
				emit(n.Name, "shared", fd.Pos())
			case state[n.Name]:
				emit(n.Name, "state-copied", fd.Pos())
			case a.fieldClass(f.Type) == "value":
				emit(n.Name, "value", fd.Pos())
			default:
				emit(n.Name, "ref", fd.Pos())
			}
		}
	}
	return true
}

func isZeroLit(e ast.Expr) bool {
	switch v := unparen(e).(type) {
	case *ast.Ident:
		return v.Name == "nil" || v.Name == "false"
	case *ast.BasicLit:
		return v.Value == "0" || v.Value == `""`
	}
	return false
}

func (a *analyzer) cloneResult(recvName, recvType string, res ast.Expr, guards []string, emit func(field, class string, at token.Pos)) {
	e := unparen(res)
	if id, ok := e.(*ast.Ident); ok && recvName != "" && id.Name == recvName {
		emit("<self>", "returns-self", e.Pos())
		// a type that hands itself out shares all its sub-queries
		if st := a.structs[recvType]; st != nil {
			for _, f := range st.Fields.List {
				if a.fieldClass(f.Type) == "query" {
					for _, n := range f.Names {
						emit(n.Name, "shared", e.Pos())
					}
				}
			}
		}
		return
	}
	if u, ok := e.(*ast.UnaryExpr); ok && u.Op == token.AND {
		e = unparen(u.X)
	}
	cl, ok := e.(*ast.CompositeLit)
	if !ok {
		if a.isCloneCall(e) {
			emit("<result>", "cloned", e.Pos())
		} else {
			emit("<result>", "opaque", e.Pos())
		}
		return
	}
	litType := ""
	if id, ok := cl.Type.(*ast.Ident); ok {
		litType = id.Name
	}
	st := a.structs[litType]
	if st == nil {
		emit("<result>", "opaque", e.Pos())
		return
	}
	emit("<new:"+litType+">", "fresh", e.Pos())
	type fld struct {
		name string
		typ  ast.Expr
	}
	var flds []fld
	for _, f := range st.Fields.List {
		if len(f.Names) == 0 { // embedded
			name := ""
			t := f.Type
			if s, ok := t.(*ast.StarExpr); ok {
				t = s.X
			}
			switch t := t.(type) {
			case *ast.Ident:
				name = t.Name
			case *ast.SelectorExpr:
				name = t.Sel.Name
			}
			flds = append(flds, fld{name, f.Type})
			continue
		}
		for _, n := range f.Names {
			flds = append(flds, fld{n.Name, f.Type})
		}
	}
	present := map[string]bool{}
	classify := func(name string, typ ast.Expr, val ast.Expr) {
		present[name] = true
		if a.isCloneCall(val) {
			emit(name, "cloned", val.Pos())
			return
		}
		switch a.fieldClass(typ) {
		case "query":
			if id, ok := unparen(val).(*ast.Ident); ok && id.Name == "nil" {
				emit(name, "value", val.Pos())
			} else {
				emit(name, "shared", val.Pos())
			}
		case "value":
			emit(name, "value", val.Pos())
		default:
			emit(name, "ref", val.Pos())
		}
	}
	for i, el := range cl.Elts {
		if kv, ok := el.(*ast.KeyValueExpr); ok {
			k, _ := kv.Key.(*ast.Ident)
			if k == nil {
				emit("<result>", "opaque", el.Pos())
				continue
			}
			var typ ast.Expr
			for _, f := range flds {
				if f.name == k.Name {
					typ = f.typ
				}
			}
			if typ == nil {
				emit(k.Name, "opaque", el.Pos())
				continue
			}
			classify(k.Name, typ, kv.Value)
		} else if i < len(flds) {
			classify(flds[i].name, flds[i].typ, el)
		}
	}
	for _, f := range flds {
		if present[f.name] || a.fieldClass(f.typ) != "query" {
			continue
		}
		guarded := false
		for _, g := range guards {
			if g == f.name {
				guarded = true
			}
		}
		if guarded {
			emit(f.name, "nil-guarded", cl.Pos()) // omitted under `if recv.F == nil`: nothing to clone
		} else {
			emit(f.name, "absent", cl.Pos())
		}
	}
}

// ---------------------------------------------------------------- cache lock brackets

const (
	unlocked = 0
	rlocked  = 1
	wlocked  = 2
)

type cacheScan struct {
	a      *analyzer
	method string
	recv   string
	field  string
	record bool
	n      int
}

func meet(x, y int) int {
	if x == y {
		return x
	}
	return unlocked
}

// lockCall: s is `recv.Lock()` etc.; returns the new state.
func (c *cacheScan) lockCall(e ast.Expr) (int, bool) {
	ce, ok := unparen(e).(*ast.CallExpr)
	if !ok || len(ce.Args) != 0 {
		return 0, false
	}
	se, ok := ce.Fun.(*ast.SelectorExpr)
	if !ok {
		return 0, false
	}
	// recv.Lock() or recv.RWMutex.Lock() or recv.mu.Lock()
	root, _ := lhsRoot(se.X)
	if root == nil || root.Name != c.recv {
		return 0, false
	}
	switch se.Sel.Name {
	case "Lock":
		return wlocked, true
	case "RLock":
		return rlocked, true
	case "Unlock", "RUnlock":
		return unlocked, true
	}
	return 0, false
}

func (c *cacheScan) isField(e ast.Expr) bool {
	se, ok := unparen(e).(*ast.SelectorExpr)
	if !ok || se.Sel.Name != c.field {
		return false
	}
	id, ok := unparen(se.X).(*ast.Ident)
	return ok && id.Name == c.recv
}

// accesses of recv.<field> inside the simple node n, executed in lock state st.
func (c *cacheScan) exprs(n ast.Node, st int) {
	if n == nil || !c.record {
		return
	}
	writes := map[ast.Node]bool{}
	lens := map[ast.Node]bool{}
	markW := func(e ast.Expr) {
		for {
			e = unparen(e)
			if c.isField(e) {
				writes[unparen(e)] = true
				return
			}
			switch v := e.(type) {
			case *ast.IndexExpr:
				e = v.X
			case *ast.SliceExpr:
				e = v.X
			case *ast.StarExpr:
				e = v.X
			default:
				return
			}
		}
	}
	ast.Inspect(n, func(m ast.Node) bool {
		switch v := m.(type) {
		case *ast.AssignStmt:
			if v.Tok != token.DEFINE {
				for _, l := range v.Lhs {
					markW(l)
				}
			}
		case *ast.IncDecStmt:
			markW(v.X)
		case *ast.UnaryExpr:
			if v.Op == token.AND {
				markW(v.X)
			}
		case *ast.CallExpr:
			if id, ok := unparen(v.Fun).(*ast.Ident); ok && len(v.Args) > 0 {
				switch id.Name {
				case "delete", "clear":
					markW(v.Args[0])
				case "len":
					if c.isField(v.Args[0]) {
						lens[unparen(v.Args[0])] = true
					}
				}
			}
		}
		return true
	})
	var inLit []*ast.FuncLit
	var stack []ast.Node
	ast.Inspect(n, func(m ast.Node) bool {
		if m == nil {
			top := stack[len(stack)-1]
			stack = stack[:len(stack)-1]
			if _, ok := top.(*ast.FuncLit); ok {
				inLit = inLit[:len(inLit)-1]
			}
			return true
		}
		stack = append(stack, m)
		if fl, ok := m.(*ast.FuncLit); ok {
			inLit = append(inLit, fl)
		}
		if e, ok := m.(ast.Expr); ok && c.isField(e) {
			if _, isParen := m.(*ast.ParenExpr); isParen {
				return true
			}
			kind := "read"
			need := rlocked
			if writes[m] {
				kind, need = "write", wlocked
			} else if lens[m] {
				kind = "len"
			}
			eff := st
			if len(inLit) > 0 {
				eff = unlocked // a function literal may run at any later time
			}
			c.n++
			c.a.f.cacheAccesses = append(c.a.f.cacheAccesses, flagged{fmt.Sprintf("%s:%s:%s#%d", c.method, c.field, kind, c.n), eff >= need})
			c.a.f.cachePos = append(c.a.f.cachePos, c.a.pos(m.Pos()))
			return false
		}
		return true
	})
}

func (c *cacheScan) stmts(l []ast.Stmt, st int) int {
	for _, s := range l {
		st = c.stmt(s, st)
	}
	return st
}

func (c *cacheScan) stmt(s ast.Stmt, st int) int {
	switch v := s.(type) {
	case nil:
		return st
	case *ast.ExprStmt:
		if ns, ok := c.lockCall(v.X); ok {
			return ns
		}
		c.exprs(v, st)
	case *ast.DeferStmt:
		if _, ok := c.lockCall(v.Call); ok {
			return st // deferred unlock: the lock is held until the function returns
		}
		c.exprs(v, unlocked)
	case *ast.GoStmt:
		c.exprs(v, unlocked)
	case *ast.BlockStmt:
		return c.stmts(v.List, st)
	case *ast.LabeledStmt:
		return c.stmt(v.Stmt, st)
	case *ast.IfStmt:
		st = c.stmt(v.Init, st)
		c.exprs(v.Cond, st)
		s1 := c.stmts(v.Body.List, st)
		s2 := st
		if v.Else != nil {
			s2 = c.stmt(v.Else, st)
		}
		return meet(s1, s2)
	case *ast.ForStmt:
		st = c.stmt(v.Init, st)
		return c.loop(st, func(s0 int) int {
			c.exprs(v.Cond, s0)
			s1 := c.stmts(v.Body.List, s0)
			return c.stmt(v.Post, s1)
		})
	case *ast.RangeStmt:
		c.exprs(v.X, st)
		return c.loop(st, func(s0 int) int { return c.stmts(v.Body.List, s0) })
	case *ast.SwitchStmt:
		st = c.stmt(v.Init, st)
		c.exprs(v.Tag, st)
		return c.clauses(v.Body, st)
	case *ast.TypeSwitchStmt:
		st = c.stmt(v.Init, st)
		c.exprs(v.Assign, st)
		return c.clauses(v.Body, st)
	case *ast.SelectStmt:
		return c.clauses(v.Body, st)
	default:
		c.exprs(s, st)
	}
	return st
}

// loop: the body runs 0..n times; if it does not preserve the lock state the state is unknown.
func (c *cacheScan) loop(st int, body func(int) int) int {
	saved, savedN := c.record, c.n
	c.record = false
	s1 := body(st)
	c.record, c.n = saved, savedN
	if s1 != st {
		st = unlocked
	}
	body(st)
	return st
}

func (c *cacheScan) clauses(b *ast.BlockStmt, st int) int {
	out, hasDefault := -1, false
	for _, cl := range b.List {
		var body []ast.Stmt
		switch v := cl.(type) {
		case *ast.CaseClause:
			for _, e := range v.List {
				c.exprs(e, st)
			}
			if v.List == nil {
				hasDefault = true
			}
			body = v.Body
		case *ast.CommClause:
			s0 := c.stmt(v.Comm, st)
			_ = s0
			if v.Comm == nil {
				hasDefault = true
			}
			body = v.Body
		}
		s1 := c.stmts(body, st)
		if out == -1 {
			out = s1
		} else {
			out = meet(out, s1)
		}
	}
	if out == -1 {
		return st
	}
	if !hasDefault {
		out = meet(out, st)
	}
	return out
}

// ---------------------------------------------------------------- driver

const cacheType, cacheField = "loadingCache", "m"

// functionArgsClones: functionArgs(q) is the "private copy" every XPath function takes of a captured
// argument query before evaluating it (walkFunc accepts functionArgs(X).Evaluate(..) for that reason).
// It must return q.Clone(); returning q itself is accepted only inside `if _, ok := q.(*functionQuery); ok`
// (a functionQuery has no iteration state of its own: its closure clones its own arguments).
// Anything else is recorded as a direct evaluation of a build-time capture.
func (a *analyzer) functionArgsClones(fd *ast.FuncDecl) {
	if fd.Type.Params == nil || len(fd.Type.Params.List) != 1 || len(fd.Type.Params.List[0].Names) != 1 {
		add(a.f.buildDirectEvals, pair{"functionArgs", "unexpected-signature"}, a.pos(fd.Pos()))
		return
	}
	param := fd.Type.Params.List[0].Names[0].Name
	isGuard := func(is *ast.IfStmt) bool {
		// if _, ok := q.(*functionQuery); ok { ... }
		as, ok := is.Init.(*ast.AssignStmt)
		if !ok || len(as.Rhs) != 1 {
			return false
		}
		ta, ok := as.Rhs[0].(*ast.TypeAssertExpr)
		if !ok {
			return false
		}
		id, ok := unparen(ta.X).(*ast.Ident)
		if !ok || id.Name != param {
			return false
		}
		st, ok := ta.Type.(*ast.StarExpr)
		if !ok {
			return false
		}
		tn, ok := st.X.(*ast.Ident)
		return ok && tn.Name == "functionQuery"
	}
	seen := false
	var walk func(n ast.Node, guarded bool)
	walk = func(n ast.Node, guarded bool) {
		switch v := n.(type) {
		case *ast.IfStmt:
			g := guarded || isGuard(v)
			walk(v.Body, g)
			if v.Else != nil {
				walk(v.Else, guarded)
			}
			return
		case *ast.ReturnStmt:
			seen = true
			if len(v.Results) != 1 {
				add(a.f.buildDirectEvals, pair{"functionArgs", "unexpected-return"}, a.pos(v.Pos()))
				return
			}
			r := unparen(v.Results[0])
			if id, ok := r.(*ast.Ident); ok && id.Name == param {
				if !guarded {
					add(a.f.buildDirectEvals, pair{"functionArgs", "returns-its-argument-without-Clone"}, a.pos(v.Pos()))
				}
				return
			}
			if c, ok := r.(*ast.CallExpr); ok && len(c.Args) == 0 {
				if se, ok := unparen(c.Fun).(*ast.SelectorExpr); ok && se.Sel.Name == "Clone" {
					if id, ok := unparen(se.X).(*ast.Ident); ok && id.Name == param {
						return
					}
				}
			}
			add(a.f.buildDirectEvals, pair{"functionArgs", "returns-something-else-than-Clone"}, a.pos(v.Pos()))
			return
		case *ast.BlockStmt:
			for _, st := range v.List {
				walk(st, guarded)
			}
			return
		}
	}
	walk(fd.Body, false)
	if !seen {
		add(a.f.buildDirectEvals, pair{"functionArgs", "no-return"}, a.pos(fd.Pos()))
	}
}

func (a *analyzer) run() {
	a.f = facts{
		pkgvarWrites: map[pair][]string{}, buildCapWrites: map[pair][]string{}, callCapWrites: map[pair][]string{},
		buildDirectEvals: map[pair][]string{}, cloneFields: map[triple][]string{}, recvFieldWrites: map[pair][]string{},
	}
	for _, af := range a.files {
		for _, d := range af.Decls {
			switch d := d.(type) {
			case *ast.FuncDecl:
				if d.Body == nil {
					continue
				}
				rn, rt := recvOf(d)
				label := d.Name.Name
				c := &fnCtx{label: label, name: d.Name.Name, recvName: rn, recvType: rt, lo: d.Pos(), hi: d.End(),
					isInit: d.Name.Name == "init" && d.Recv == nil, isBuild: a.build[d.Name.Name]}
				a.walkFunc(c, d.Body)
				if d.Name.Name == "functionArgs" && d.Recv == nil {
					a.functionArgsClones(d)
				}
				if d.Name.Name == "Clone" && d.Recv != nil {
					a.cloneMethod(d)
				}
				if rt == cacheType && rn != "" {
					cs := &cacheScan{a: a, method: d.Name.Name, recv: rn, field: cacheField, record: true}
					cs.stmts(d.Body.List, unlocked)
				} else {
					// the map touched from outside the methods of the cache: never inside its lock bracket
					owners := a.fieldOf[cacheField]
					if len(owners) == 1 && owners[0] == cacheType {
						n := 0
						ast.Inspect(d.Body, func(m ast.Node) bool {
							if se, ok := m.(*ast.SelectorExpr); ok && se.Sel.Name == cacheField {
								n++
								a.f.cacheAccesses = append(a.f.cacheAccesses, flagged{fmt.Sprintf("func:%s:%s:access#%d", d.Name.Name, cacheField, n), false})
								a.f.cachePos = append(a.f.cachePos, a.pos(se.Pos()))
							}
							return true
						})
					}
				}
			case *ast.GenDecl:
				if d.Tok != token.VAR {
					continue
				}
				// function literals in package-level initialisers are shared by everybody
				for _, s := range d.Specs {
					vs := s.(*ast.ValueSpec)
					for i, val := range vs.Values {
						name := "_"
						if i < len(vs.Names) {
							name = vs.Names[i].Name
						} else if len(vs.Names) > 0 {
							name = vs.Names[0].Name
						}
						c := &fnCtx{label: "var:" + name, name: "var:" + name, lo: val.Pos(), hi: val.End(), isBuild: true, ownVar: name}
						a.walkFunc(c, val)
					}
				}
			}
		}
	}
}

// ---------------------------------------------------------------- output

func coqStr(s string) string { return `"` + strings.ReplaceAll(s, `"`, `""`) + `"` }

func sortedPairs(m map[pair][]string) []pair {
	var out []pair
	for k := range m {
		out = append(out, k)
	}
	sort.Slice(out, func(i, j int) bool {
		if out[i].a != out[j].a {
			return out[i].a < out[j].a
		}
		return out[i].b < out[j].b
	})
	return out
}

func emitList(b *strings.Builder, name, typ string, items []string) {
	if len(items) == 0 {
		fmt.Fprintf(b, "Definition %s : list (%s) := [].\n\n", name, typ)
		return
	}
	fmt.Fprintf(b, "Definition %s : list (%s) := [\n", name, typ)
	for i, it := range items {
		sep := ";"
		if i == len(items)-1 {
			sep = ""
		}
		fmt.Fprintf(b, "  %s%s\n", it, sep)
	}
	b.WriteString("].\n\n")
}

func coqBool(b bool) string {
	if b {
		return "true"
	}
	return "false"
}

func (a *analyzer) coq(repo string) string {
	var b strings.Builder
	b.WriteString("(* GENERATED by go/cmd/geneffects from the Go sources of the engine. Do not edit.\n")
	b.WriteString("   Effect facts for property C05; checked by XP.Conc.effects_ok in Generated/Effects_ok.v. *)\n")
	b.WriteString("From Coq Require Import List String.\nImport ListNotations.\nOpen Scope string_scope.\n\n")
	pairsOf := func(m map[pair][]string) []string {
		var out []string
		for _, k := range sortedPairs(m) {
			out = append(out, fmt.Sprintf("(%s, %s)", coqStr(k.a), coqStr(k.b)))
		}
		return out
	}
	b.WriteString("(* (function, package-level variable written outside init and outside its initialiser) *)\n")
	emitList(&b, "pkgvar_writes", "string * string", pairsOf(a.f.pkgvarWrites))
	b.WriteString("(* (build-time function, captured variable written by a closure that escapes from it) *)\n")
	emitList(&b, "buildtime_capture_writes", "string * string", pairsOf(a.f.buildCapWrites))
	b.WriteString("(* (build-time function, captured query v evaluated in place: v.Select / v.Evaluate without Clone) *)\n")
	emitList(&b, "buildtime_capture_direct_evals", "string * string", pairsOf(a.f.buildDirectEvals))
	b.WriteString("(* allowed: (function, variable) written by a closure created during one evaluation *)\n")
	emitList(&b, "calltime_capture_writes", "string * string", pairsOf(a.f.callCapWrites))

	type fl struct {
		flagged
		pos string
	}
	flaggedItems := func(l []flagged) []string {
		cp := append([]flagged(nil), l...)
		sort.SliceStable(cp, func(i, j int) bool {
			if cp[i].a != cp[j].a {
				return cp[i].a < cp[j].a
			}
			return !cp[i].ok && cp[j].ok
		})
		var out []string
		for _, f := range cp {
			out = append(out, fmt.Sprintf("(%s, %s)", coqStr(f.a), coqBool(f.ok)))
		}
		return out
	}
	b.WriteString("(* (method of Expr (or func:<name> elsewhere), the use of <x>.q is exactly <x>.q.Clone()) *)\n")
	emitList(&b, "expr_q_uses", "string * bool", flaggedItems(a.f.exprQUses))

	var tr []triple
	for k := range a.f.cloneFields {
		tr = append(tr, k)
	}
	sort.Slice(tr, func(i, j int) bool {
		if tr[i].a != tr[j].a {
			return tr[i].a < tr[j].a
		}
		if tr[i].b != tr[j].b {
			return tr[i].b < tr[j].b
		}
		return tr[i].c < tr[j].c
	})
	var items []string
	for _, k := range tr {
		items = append(items, fmt.Sprintf("(%s, %s, %s)", coqStr(k.a), coqStr(k.b), coqStr(k.c)))
	}
	b.WriteString("(* (receiver type of a Clone method, field of the returned literal, classification) *)\n")
	emitList(&b, "clone_fields", "string * string * string", items)
	b.WriteString("(* (receiver type, method that writes a field of its receiver) *)\n")
	emitList(&b, "recv_field_writes", "string * string", pairsOf(a.f.recvFieldWrites))
	b.WriteString("(* (method:field:kind#n of loadingCache, the access is inside a sufficient Lock/RLock bracket) *)\n")
	emitList(&b, "cache_accesses", "string * bool", flaggedItems(a.f.cacheAccesses))
	return b.String()
}

const effectsOkV = `(* Constant text written by go/cmd/geneffects (only Generated/Effects.v changes).
   The proof obligation re-checked on every run: the effect facts extracted from the
   Go sources as they are NOW satisfy the checker XP.Conc.effects_ok.  If a change of
   the engine makes one of the dangerous lists non-empty this file stops compiling. *)
From Coq Require Import List String.
From XP Require Import Conc.
From XP.Generated Require Import Effects.

Definition effects_table : effects :=
  mkEffects pkgvar_writes buildtime_capture_writes buildtime_capture_direct_evals
            calltime_capture_writes expr_q_uses clone_fields recv_field_writes cache_accesses.

Theorem effects_table_ok : effects_ok effects_table = true.
Proof. vm_compute. reflexivity. Qed.
`

func (a *analyzer) summary() string {
	var b strings.Builder
	section := func(title string, m map[pair][]string, bad bool) {
		tag := "info"
		if bad {
			tag = "MUST BE EMPTY"
		}
		fmt.Fprintf(&b, "%s (%d) [%s]\n", title, len(m), tag)
		for _, k := range sortedPairs(m) {
			fmt.Fprintf(&b, "  %-34s %-22s %s\n", k.a, k.b, strings.Join(m[k], " "))
		}
	}
	section("pkgvar_writes", a.f.pkgvarWrites, true)
	section("buildtime_capture_writes", a.f.buildCapWrites, true)
	section("buildtime_capture_direct_evals", a.f.buildDirectEvals, true)
	section("calltime_capture_writes", a.f.callCapWrites, false)
	fmt.Fprintf(&b, "expr_q_uses (%d) [all must be Clone-only]\n", len(a.f.exprQUses))
	for i, u := range a.f.exprQUses {
		s := "Clone-only"
		if !u.ok {
			s = "DIRECT USE"
		}
		fmt.Fprintf(&b, "  %-34s %-22s %s\n", u.a, s, a.f.exprQPos[i])
	}
	bad := map[string]bool{"shared": true, "absent": true, "opaque": true, "ref": true}
	nb := 0
	var lines []string
	for k, p := range a.f.cloneFields {
		mark := ""
		if bad[k.c] {
			mark = "  <-- NOT CLONED"
			nb++
		}
		lines = append(lines, fmt.Sprintf("  %-34s %-22s %-12s %s%s", k.a, k.b, k.c, strings.Join(p, " "), mark))
	}
	sort.Strings(lines)
	fmt.Fprintf(&b, "clone_fields (%d, %d bad)\n%s\n", len(a.f.cloneFields), nb, strings.Join(lines, "\n"))
	section("recv_field_writes", a.f.recvFieldWrites, false)
	fmt.Fprintf(&b, "cache_accesses (%d) [all must be locked]\n", len(a.f.cacheAccesses))
	for i, u := range a.f.cacheAccesses {
		s := "locked"
		if !u.ok {
			s = "NOT LOCKED"
		}
		fmt.Fprintf(&b, "  %-34s %-22s %s\n", u.a, s, a.f.cachePos[i])
	}
	var bl []string
	for k := range a.build {
		bl = append(bl, k)
	}
	sort.Strings(bl)
	fmt.Fprintf(&b, "build-time functions (%d): %s\n", len(bl), strings.Join(bl, " "))
	var cl []string
	for k := range a.cloners {
		cl = append(cl, k)
	}
	sort.Strings(cl)
	fmt.Fprintf(&b, "cloning helpers (%d): %s\n", len(cl), strings.Join(cl, " "))
	return b.String()
}

// verdict mirrors XP.Conc.effects_ok (the Coq checker is the authority).
func (a *analyzer) verdict() []string {
	var bad []string
	if len(a.f.pkgvarWrites) > 0 {
		bad = append(bad, "pkgvar_writes not empty")
	}
	if len(a.f.buildCapWrites) > 0 {
		bad = append(bad, "buildtime_capture_writes not empty")
	}
	if len(a.f.buildDirectEvals) > 0 {
		bad = append(bad, "buildtime_capture_direct_evals not empty")
	}
	sel, ev := false, false
	for _, u := range a.f.exprQUses {
		if !u.ok {
			bad = append(bad, "expr_q_uses: "+u.a+" uses q without Clone")
		}
		sel = sel || u.a == "Select"
		ev = ev || u.a == "Evaluate"
	}
	if !sel || !ev {
		bad = append(bad, "expr_q_uses: Select/Evaluate not found")
	}
	writers := map[string]bool{}
	for k := range a.f.recvFieldWrites {
		writers[k.a] = true
	}
	if len(a.f.cloneFields) == 0 {
		bad = append(bad, "clone_fields empty")
	}
	for k := range a.f.cloneFields {
		switch k.c {
		case "cloned", "value", "fresh", "nil-guarded":
		case "returns-self":
			if writers[k.a] {
				bad = append(bad, "clone_fields: "+k.a+" returns itself but has receiver-field writes")
			}
		default:
			bad = append(bad, "clone_fields: "+k.a+"."+k.b+" is "+k.c)
		}
	}
	if len(a.f.cacheAccesses) == 0 {
		bad = append(bad, "cache_accesses empty")
	}
	for _, u := range a.f.cacheAccesses {
		if !u.ok {
			bad = append(bad, "cache_accesses: "+u.a+" outside the lock")
		}
	}
	sort.Strings(bad)
	return bad
}

func main() {
	if len(os.Args) < 3 {
		fmt.Fprintln(os.Stderr, "usage: geneffects <repo-dir> <out Effects.v> [<out Effects_ok.v>]")
		os.Exit(2)
	}
	dir, out := os.Args[1], os.Args[2]
	a := &analyzer{fset: token.NewFileSet()}
	names, err := filepath.Glob(filepath.Join(dir, "*.go"))
	if err != nil || len(names) == 0 {
		fmt.Fprintln(os.Stderr, "geneffects: no Go files in", dir)
		os.Exit(2)
	}
	sort.Strings(names)
	for _, f := range names {
		if strings.HasSuffix(f, "_test.go") {
			continue
		}
		af, err := parser.ParseFile(a.fset, f, nil, parser.ParseComments)
		if err != nil {
			fmt.Fprintln(os.Stderr, "geneffects:", err)
			os.Exit(2)
		}
		if hasVerifConstraint(af) {
			fmt.Printf("skipping %s (build constraint verif)\n", filepath.Base(f))
			continue
		}
		a.files = append(a.files, af)
	}
	a.collect()
	a.run()
	if err := os.WriteFile(out, []byte(a.coq(dir)), 0o644); err != nil {
		fmt.Fprintln(os.Stderr, "geneffects:", err)
		os.Exit(2)
	}
	if len(os.Args) > 3 {
		if err := os.WriteFile(os.Args[3], []byte(effectsOkV), 0o644); err != nil {
			fmt.Fprintln(os.Stderr, "geneffects:", err)
			os.Exit(2)
		}
	}
	fmt.Print(a.summary())
	if bad := a.verdict(); len(bad) > 0 {
		fmt.Printf("VERDICT: %d violation(s) (Generated/Effects_ok.v will not compile)\n", len(bad))
		for _, l := range bad {
			fmt.Println("  " + l)
		}
	} else {
		fmt.Println("VERDICT: clean")
	}
}

// LIMITATIONS (the translator is trusted; it is name based and has no type information):
//  - identifiers are resolved with go/parser's file-level resolver; a package variable of
//    another file is recognised by name only (a local that shadows it is resolved correctly).
//  - writes through aliases are not followed (p := &x.f; *p = 1; a slice/map header copied
//    into a local and then written).  Taking the address of a captured variable inside an
//    escaping literal IS counted as a write.
//  - mutation through a method call on a captured variable other than Select/Evaluate
//    (e.g. a captured strings.Builder) is not seen; sync.Pool/regexp/strings are assumed to be
//    safe for concurrent use as documented by the Go standard library.
//  - "build-time function" is reachability by bare function/method NAME from build/Compile/
//    CompileWithNS/MustCompile; functions only referenced as values (Func: reverseFunc) are
//    evaluation-time.  A literal is "escaping" unless it is called where it is written.
//  - lock brackets are recognised syntactically on the receiver in the statement sequence
//    (Lock/RLock ... Unlock/RUnlock, defer Unlock), branches are joined conservatively.
//  - Clone is checked on the literal it returns; a Clone that builds its result in steps
//    (x := &T{}; x.Input = ...; return x) is reported "opaque" (rejected), not analysed.
