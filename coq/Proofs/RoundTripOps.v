(* RoundTripOps.v — C10, stage 2: the operator skeleton of the grammar.

   Part A: the parser on token streams (states that "carry" a token, Proofs/ScanTokens.v).
   Part B: semantic parsing judgements [Parses k dn ts a] ("the level-k parser,
           started on the first token of the phrase [ts], in ANY layout and in ANY
           right context that starts with a token that may follow a level-k phrase,
           returns the tree [a] and stops on that token") and their composition
           rules: precedence climbing, left association, unary minus, parentheses.
   Part C: a datatype of expression trees, its printer, its intended tree,
           and the round trip  parse (print e) = Ok (ast e). *)
From XP Require Import Base F64 Doc Ast Scan Parse.
From XP.Proofs Require Import ParseTerm ParseAssoc ScanTokens.
Require Import Lia.
Open Scope nat_scope.
Open Scope string_scope.
Open Scope list_scope.

(* ------------------------------------------------------------------ *)
(** * A. The parser state on a token stream                             *)
(* ------------------------------------------------------------------ *)

(* the parser is on token [t] (depth counter [d]); [r] is still to be read *)
Definition At (st : pst) (d : nat) (t : token) (r : layout) : Prop :=
  St (p_s st) t r /\ p_d st = d /\ tok_ok t = true /\ lay_ok r = true.

(* the same, for a whole layout whose first token is the current one *)
Definition AtL (st : pst) (d : nat) (L : layout) : Prop :=
  match L with [] => False | (_, t) :: r => At st d t r end.

Lemma pnext_At : forall st d w t L',
  AtL st d ((w, t) :: L') -> L' <> [] -> exists st', pnext st = Ok st' /\ AtL st' d L'.
Proof.
  intros st d w t L' [HS [Hd [Ht Hl]]] Hne.
  destruct L' as [|[w' t'] r']; [congruence|].
  destruct (next_item_tok (p_s st) w' t' r') as [s' [Hn HS']].
  - apply (st_rest _ _ _ HS).
  - exact Hl.
  - apply (st_star _ _ _ HS).
  - exists (mkP s' (p_d st)). split.
    + unfold pnext. rewrite Hn. reflexivity.
    + apply lay_ok_cons in Hl. destruct Hl as [_ [Ht' [_ [_ Hl']]]].
      cbn [AtL]. unfold At. cbn [p_s p_d]. auto.
Qed.

Lemma typ_At : forall st d w t L', AtL st d ((w, t) :: L') -> typ st = ttyp t.
Proof. intros st d w t L' [HS _]. apply (st_typ _ _ _ HS). Qed.

Lemma is_typ_At : forall st d w t L' x,
  AtL st d ((w, t) :: L') -> is_typ st x = itype_eqb (ttyp t) x.
Proof. intros. unfold is_typ. erewrite typ_At by eassumption. reflexivity. Qed.

Lemma AtL_depth : forall st d L d', AtL st d L -> AtL (mkP (p_s st) d') d' L.
Proof.
  intros st d L d' H. destruct L as [|[w t] r]; [exact H|].
  destruct H as [HS [Hd [Ht Hl]]]. cbn [AtL]. unfold At. cbn [p_s p_d]. auto.
Qed.

Lemma AtL_pd : forall st d L, AtL st d L -> p_d st = d.
Proof. intros st d L H. destruct L as [|[w t] r]; [contradiction|]. apply H. Qed.

Lemma punct_not_name : forall p, is_punct p = true -> p <> IName.
Proof. intros p H ->. discriminate. Qed.

Lemma test_op_At : forall st d w t L' op,
  AtL st d ((w, t) :: L') ->
  test_op st op = match t with TName nm => String.eqb nm op | _ => false end.
Proof.
  intros st d w t L' op H. unfold test_op. rewrite (is_typ_At _ _ _ _ _ _ H).
  destruct H as [HS [_ [Ht _]]]. pose proof (st_fld _ _ _ HS) as Hf.
  destruct t as [ds|b|nm|nm aw|p|]; cbn [ttyp itype_eqb]; try reflexivity.
  - destruct Hf as [Hn [Hp _]]. rewrite Hn, Hp. reflexivity.
  - cbn [tok_ok] in Ht. destruct p; try discriminate Ht; reflexivity.
Qed.

(* ---- the operator tokens ---- *)

Definition oplevel (t : token) : option nat :=
  match t with
  | TName nm => if String.eqb nm "or" then Some 0
                else if String.eqb nm "and" then Some 1
                else if orb (String.eqb nm "div") (String.eqb nm "mod") then Some 5
                else None
  | TP IEq | TP INe => Some 2
  | TP ILt | TP IGt | TP ILe | TP IGe => Some 3
  | TP IPlus | TP IMinus => Some 4
  | TP IStar => Some 5
  | TP IUnion => Some 7
  | _ => None
  end.

Definition opstr (t : token) : string :=
  match t with TName nm => nm | TP p => pstr p | _ => "" end.

(* the operator recogniser of level k *)
Definition gop (k : nat) : pst -> option string :=
  match k with
  | 0 => op_or | 1 => op_and | 2 => op_eq | 3 => op_rel | 4 => op_add | 5 => op_mul
  | _ => op_union
  end.

Definition bin_lvl (k : nat) : bool :=
  match k with 0 | 1 | 2 | 3 | 4 | 5 | 7 => true | _ => false end.

Definition opt_nat_eqb (o : option nat) (k : nat) : bool :=
  match o with Some j => Nat.eqb j k | None => false end.

Lemma gop_At : forall k st d w t L',
  bin_lvl k = true -> AtL st d ((w, t) :: L') ->
  gop k st = if opt_nat_eqb (oplevel t) k then Some (opstr t) else None.
Proof.
  intros k st d w t L' Hk H.
  pose proof (test_op_At _ _ _ _ _ "or" H) as Tor.
  pose proof (test_op_At _ _ _ _ _ "and" H) as Tand.
  pose proof (test_op_At _ _ _ _ _ "div" H) as Tdiv.
  pose proof (test_op_At _ _ _ _ _ "mod" H) as Tmod.
  pose proof (typ_At _ _ _ _ _ H) as Ty.
  pose proof (is_typ_At _ _ _ _ _ IStar H) as Tstar.
  pose proof (is_typ_At _ _ _ _ _ IUnion H) as Tun.
  assert (Hst : match t with TName nm => s_name (p_s st) = nm | _ => True end).
  { destruct H as [HS _]. pose proof (st_fld _ _ _ HS) as Hf. destruct t; try exact I. tauto. }
  assert (Hp : match t with TP p => is_punct p = true | _ => True end).
  { destruct H as [_ [_ [Ht _]]]. destruct t; try exact I. exact Ht. }
  destruct k as [|[|[|[|[|[|[|[|k]]]]]]]]; try discriminate Hk; cbn [gop];
    unfold op_or, op_and, op_eq, op_rel, op_add, op_mul, op_union;
    rewrite ?Tor, ?Tand, ?Tdiv, ?Tmod, ?Ty, ?Tstar, ?Tun;
    destruct t as [ds|b|nm|nm aw|p|]; cbn [ttyp oplevel opstr opt_nat_eqb itype_eqb orb];
    try reflexivity;
    try (destruct p; try discriminate Hp; reflexivity).
  - destruct (String.eqb nm "or") eqn:E; [apply String.eqb_eq in E; subst nm; reflexivity|].
    destruct (String.eqb nm "and"); [reflexivity|].
    destruct (orb _ _); reflexivity.
  - destruct (String.eqb nm "and") eqn:E.
    + apply String.eqb_eq in E; subst nm; reflexivity.
    + destruct (String.eqb nm "or"); [reflexivity|]. destruct (orb _ _); reflexivity.
  - destruct (String.eqb nm "or"); [reflexivity|].
    destruct (String.eqb nm "and"); [reflexivity|]. destruct (orb _ _); reflexivity.
  - destruct (String.eqb nm "or"); [reflexivity|].
    destruct (String.eqb nm "and"); [reflexivity|]. destruct (orb _ _); reflexivity.
  - destruct (String.eqb nm "or"); [reflexivity|].
    destruct (String.eqb nm "and"); [reflexivity|]. destruct (orb _ _); reflexivity.
  - rewrite Hst.
    destruct (String.eqb nm "or") eqn:E1.
    { apply String.eqb_eq in E1; subst nm; reflexivity. }
    destruct (String.eqb nm "and") eqn:E2.
    { apply String.eqb_eq in E2; subst nm; reflexivity. }
    destruct (orb _ _); reflexivity.
  - destruct (String.eqb nm "or"); [reflexivity|].
    destruct (String.eqb nm "and"); [reflexivity|]. destruct (orb _ _); reflexivity.
Qed.

(* what may follow a phrase of level k: a closing token, or an operator of a lower level *)
Definition follow_ok (k : nat) (t : token) : bool :=
  match t with
  | TEOF | TP IRParens | TP IRBracket | TP IComma => true
  | _ => match oplevel t with Some j => Nat.ltb j k | None => false end
  end.

Definition follow1 (k : nat) (L : layout) : Prop :=
  match L with [] => False | (_, t) :: _ => follow_ok k t = true end.

Lemma follow_ok_mono : forall k k' t, k <= k' -> follow_ok k t = true -> follow_ok k' t = true.
Proof.
  intros k k' t Hk H. unfold follow_ok in *.
  destruct t as [| | | |p|]; try exact H;
    try (destruct (oplevel _) as [j|]; [|exact H]; apply Nat.ltb_lt in H; apply Nat.ltb_lt; lia).
  destruct p; try exact H;
    (destruct (oplevel _) as [j|]; [|exact H]; apply Nat.ltb_lt in H; apply Nat.ltb_lt; lia).
Qed.

Lemma follow1_mono : forall k k' L, k <= k' -> follow1 k L -> follow1 k' L.
Proof.
  intros k k' L Hk H. destruct L as [|[w t] r]; [exact H|]. cbn [follow1] in *.
  eapply follow_ok_mono; eassumption.
Qed.

Lemma follow1_ne : forall k L, follow1 k L -> L <> [].
Proof. intros k L H ->. exact H. Qed.

Lemma follow_ok_noop : forall k t, follow_ok k t = true -> opt_nat_eqb (oplevel t) k = false.
Proof.
  intros k t H. unfold follow_ok in H.
  destruct (oplevel t) as [j|] eqn:E; [|reflexivity]. cbn [opt_nat_eqb].
  destruct t as [| | | |p|]; try discriminate E;
    try (apply Nat.ltb_lt in H; apply Nat.eqb_neq; lia).
  destruct p; try discriminate E; (apply Nat.ltb_lt in H; apply Nat.eqb_neq; lia).
Qed.

(* a follow token is never '[', '/', '//' *)
Lemma follow_ok_typ : forall k t, follow_ok k t = true ->
  ttyp t <> ILBracket /\ ttyp t <> ISlash /\ ttyp t <> ISlashSlash.
Proof.
  intros k t H. unfold follow_ok in H.
  destruct t as [| | | |p|]; cbn [ttyp]; try (repeat split; discriminate).
  destruct p; cbn [oplevel] in H; try discriminate H; repeat split; discriminate.
Qed.

(* ---- the levels of parseExpression, indexed ---- *)
Section Levels.
Variable ns : nsmap.

Definition lev (k f : nat) (n : option anode) : pst -> PR anode :=
  let pe := pgo ns f EExpr in
  let ps := pgo ns f EStep in
  match k with
  | 0 => or_expr_b f pe ps n
  | 1 => and_expr_b f pe ps n
  | 2 => eq_expr_b f pe ps n
  | 3 => rel_expr_b f pe ps n
  | 4 => add_expr_b f pe ps n
  | 5 => mul_expr_b f pe ps n
  | 6 => unary_expr_b f pe ps n
  | 7 => union_expr_b f pe ps n
  | _ => path_expr_b f pe ps n
  end.

Lemma lev_bin : forall k f n, bin_lvl k = true ->
  lev k f n = bin_level f (gop k) (lev (S k) f n).
Proof. intros k f n H. destruct k as [|[|[|[|[|[|[|[|k]]]]]]]]; try discriminate H; reflexivity. Qed.

Lemma lev_6 : forall f n st,
  lev 6 f n st =
  (let* (minus, st1) := minus_loop f false st in
   let* (o, st2) := lev 7 f n st1 in
   Ok (if minus then AOp "*" o (ANum fminus_one) else o, st2)).
Proof. reflexivity. Qed.

Lemma pgo_expr_lev : forall f n st,
  pgo ns (S f) EExpr n st =
  (let d := S (p_d st) in
   if Nat.ltb max_depth d then Err "the xpath query is too complex(depth > 200)"
   else let* (o, st1) := lev 0 f n (mkP (p_s st) d) in Ok (o, mkP (p_s st1) (p_d st1 - 1))).
Proof. intros. rewrite pgo_S_expr. reflexivity. Qed.

(* ------------------------------------------------------------------ *)
(** * B. Parsing judgements                                             *)
(* ------------------------------------------------------------------ *)

(* [Parses k dn ts a]: in any layout [lts] of the tokens [ts], followed by any
   layout [L1] whose first token may follow a level-k phrase, the level-k
   parser started on the first token returns [a] and stops on the first token
   of [L1]; [dn] = nesting of parseExpression calls inside the phrase. *)
Definition Parses (k dn : nat) (ts : list token) (a : anode) : Prop :=
  forall f n d st lts L1,
    List.length ts + 1 <= f -> d + dn <= max_depth ->
    map snd lts = ts -> AtL st d (lts ++ L1) -> follow1 k L1 ->
    exists st', lev k f n st = Ok (a, st') /\ AtL st' d L1.

(* the same for the entry point parseExpression *)
Definition ParsesE (dn : nat) (ts : list token) (a : anode) : Prop :=
  forall f n d st lts L1,
    List.length ts + 2 <= f -> d + 1 + dn <= max_depth ->
    map snd lts = ts -> AtL st d (lts ++ L1) -> follow1 0 L1 ->
    exists st', pgo ns f EExpr n st = Ok (a, st') /\ AtL st' d L1.

Lemma Parses_depth : forall k dn dn' ts a, dn <= dn' -> Parses k dn ts a -> Parses k dn' ts a.
Proof. intros k dn dn' ts a Hd H f n d st lts L1 Hf Hdd. apply H; [exact Hf|lia]. Qed.

Lemma ParsesE_depth : forall dn dn' ts a, dn <= dn' -> ParsesE dn ts a -> ParsesE dn' ts a.
Proof. intros dn dn' ts a Hd H f n d st lts L1 Hf Hdd. apply H; [exact Hf|lia]. Qed.

(* partial runs of a binary level: the loop has consumed [ops] and may go on *)
Inductive pre_run (getop : pst -> option string) (sub : pst -> PR anode)
  : pst -> list (string * anode) -> pst -> Prop :=
| pre_nil : forall st, pre_run getop sub st [] st
| pre_snoc : forall st ops stm op st1 a st2,
    pre_run getop sub st ops stm ->
    getop stm = Some op -> pnext stm = Ok st1 -> sub st1 = Ok (a, st2) ->
    pre_run getop sub st (ops ++ [(op, a)]) st2.

Lemma pre_run_bin_run : forall getop sub st ops stm,
  pre_run getop sub st ops stm ->
  forall ops2 stf, bin_run getop sub stm ops2 stf -> bin_run getop sub st (ops ++ ops2) stf.
Proof.
  intros getop sub st ops stm H.
  induction H as [st|st ops stm op st1 a st2 Hpre IH Hop Hn Hs]; intros ops2 stf Hrun.
  - exact Hrun.
  - rewrite <- app_assoc. apply IH. cbn [app]. eapply run_step; eassumption.
Qed.

Lemma left_fold_snoc : forall a0 ops op a,
  left_fold a0 (ops ++ [(op, a)]) = AOp op (left_fold a0 ops) a.
Proof. intros. unfold left_fold. rewrite fold_left_app. reflexivity. Qed.

Definition Runs (k dn : nat) (ts : list token) (a : anode) : Prop :=
  forall f n d st lts L1,
    List.length ts + 1 <= f -> d + dn <= max_depth ->
    map snd lts = ts -> AtL st d (lts ++ L1) -> follow1 (S k) L1 ->
    exists a0 st1 ops stm,
      lev (S k) f n st = Ok (a0, st1) /\
      pre_run (gop k) (lev (S k) f n) st1 ops stm /\
      left_fold a0 ops = a /\ List.length ops < List.length ts /\ AtL stm d L1.

Lemma map_snd_app_inv : forall (lts : layout) ts1 ts2,
  map snd lts = ts1 ++ ts2 ->
  exists l1 l2, lts = l1 ++ l2 /\ map snd l1 = ts1 /\ map snd l2 = ts2.
Proof.
  intros lts ts1. revert lts. induction ts1 as [|t ts1 IH]; intros lts ts2 H.
  - exists [], lts. auto.
  - destruct lts as [|x lts]; [discriminate|]. cbn [map app] in H. inversion H as [[Hx Hr]].
    destruct (IH lts ts2 Hr) as [l1 [l2 [E [H1 H2]]]].
    exists (x :: l1), l2. subst lts. cbn [map app]. rewrite H1. auto.
Qed.

Lemma Runs_base : forall k dn ts a, ts <> [] -> Parses (S k) dn ts a -> Runs k dn ts a.
Proof.
  intros k dn ts a Hne H f n d st lts L1 Hf Hd Hm HA Hfo.
  destruct (H f n d st lts L1 Hf Hd Hm HA Hfo) as [st' [Hp HA']].
  exists a, st', [], st'. repeat split; try assumption; try constructor.
  destruct ts; [congruence|cbn; lia].
Qed.

Lemma Runs_step : forall k dn ts1 a1 top ts2 a2,
  bin_lvl k = true -> oplevel top = Some k ->
  Runs k dn ts1 a1 -> Parses (S k) dn ts2 a2 ->
  Runs k dn (ts1 ++ top :: ts2) (AOp (opstr top) a1 a2).
Proof.
  intros k dn ts1 a1 top ts2 a2 Hk Hop HR HP f n d st lts L1 Hf Hd Hm HA Hfo.
  rewrite app_length in Hf. cbn [List.length] in Hf.
  destruct (map_snd_app_inv lts ts1 (top :: ts2) Hm) as [l1 [l2 [E [H1 H2]]]].
  destruct l2 as [|[wt top'] l2]; [discriminate|]. cbn [map snd] in H2.
  inversion H2 as [[Ht H2']]. subst top'. subst lts. clear H2 Hm.
  rewrite <- app_assoc in HA. cbn [app] in HA.
  destruct (HR f n d st l1 ((wt, top) :: l2 ++ L1)) as [a0 [st1 [ops [stm [Hs [Hpre [Hlf [Hlen HAm]]]]]]]];
    [lia|exact Hd|exact H1|exact HA| |].
  { cbn [follow1]. unfold follow_ok.
    assert (Hlt : Nat.ltb k (S k) = true) by (apply Nat.ltb_lt; lia).
    destruct top as [| | | |p|]; try discriminate Hop; rewrite Hop; try exact Hlt.
    destruct p; try discriminate Hop; exact Hlt. }
  assert (Hne : l2 ++ L1 <> []).
  { pose proof (follow1_ne _ _ Hfo). destruct l2; [assumption|discriminate]. }
  destruct (pnext_At _ _ _ _ _ HAm Hne) as [st2 [Hn HA2]].
  destruct (HP f n d st2 l2 L1) as [st3 [Hp3 HA3]]; [lia|exact Hd|exact H2'|exact HA2|exact Hfo|].
  exists a0, st1, (ops ++ [(opstr top, a2)]), st3.
  split; [exact Hs|]. split.
  { eapply pre_snoc; [exact Hpre| |exact Hn|exact Hp3].
    rewrite (gop_At k _ _ _ _ _ Hk HAm). rewrite Hop. cbn [opt_nat_eqb].
    rewrite Nat.eqb_refl. reflexivity. }
  split; [rewrite left_fold_snoc, Hlf; reflexivity|].
  split; [rewrite !app_length; cbn [List.length]; lia|exact HA3].
Qed.

Lemma Parses_of_Runs : forall k dn ts a,
  bin_lvl k = true -> Runs k dn ts a -> Parses k dn ts a.
Proof.
  intros k dn ts a Hk HR f n d st lts L1 Hf Hd Hm HA Hfo.
  destruct (HR f n d st lts L1 Hf Hd Hm HA (follow1_mono k (S k) L1 ltac:(lia) Hfo))
    as [a0 [st1 [ops [stm [Hs [Hpre [Hlf [Hlen HAm]]]]]]]].
  exists stm. split; [|exact HAm].
  rewrite lev_bin by exact Hk. rewrite <- Hlf.
  apply bin_level_left_assoc with (st1 := st1); [exact Hs| |lia].
  rewrite <- (app_nil_r ops). eapply pre_run_bin_run; [exact Hpre|].
  apply run_stop.
  destruct L1 as [|[w1 t1] r1]; [contradiction|]. cbn [follow1] in Hfo.
  rewrite (gop_At k _ _ _ _ _ Hk HAm). rewrite (follow_ok_noop _ _ Hfo). reflexivity.
Qed.

(* climbing one level without an operator *)
Lemma Parses_up : forall k dn ts a,
  bin_lvl k = true -> ts <> [] -> Parses (S k) dn ts a -> Parses k dn ts a.
Proof. intros. apply Parses_of_Runs; [assumption|]. apply Runs_base; assumption. Qed.


(* ---- unary minus ---- *)
Fixpoint flips (m : nat) (b : bool) : bool :=
  match m with 0 => b | S m' => flips m' (negb b) end.

Definition hd_not_minus (ts : list token) : bool :=
  match ts with [] => false | t :: _ => negb (itype_eqb (ttyp t) IMinus) end.

Lemma minus_loop_At : forall m f b st d lts L,
  map snd lts = repeat (TP IMinus) m -> m < f -> AtL st d (lts ++ L) ->
  hd_not_minus (map snd L) = true ->
  exists st', minus_loop f b st = Ok (flips m b, st') /\ AtL st' d L.
Proof.
  induction m as [|m IH]; intros f b st d lts L Hm Hf HA Hh.
  - destruct lts; [|discriminate]. cbn [app] in HA.
    destruct f as [|f]; [lia|]. cbn [minus_loop flips].
    destruct L as [|[w t] r]; [discriminate|]. cbn [map snd hd_not_minus] in Hh.
    rewrite (is_typ_At _ _ _ _ _ IMinus HA). apply Bool.negb_true_iff in Hh. rewrite Hh.
    exists st. auto.
  - destruct lts as [|[w t] lts]; [discriminate|]. cbn [map snd repeat] in Hm.
    inversion Hm as [[Ht Hm']]. subst t.
    destruct f as [|f]; [lia|]. cbn [minus_loop flips]. cbn [app] in HA.
    rewrite (is_typ_At _ _ _ _ _ IMinus HA). cbn [ttyp itype_eqb].
    assert (Hne : lts ++ L <> []).
    { destruct L; [discriminate|]. destruct lts; discriminate. }
    destruct (pnext_At _ _ _ _ _ HA Hne) as [st1 [Hn HA1]]. rewrite Hn. cbn [cbind].
    apply IH with (lts := lts); [exact Hm'|lia|exact HA1|exact Hh].
Qed.

Theorem Parses_neg : forall dn ts a m,
  hd_not_minus ts = true -> Parses 7 dn ts a ->
  Parses 6 dn (repeat (TP IMinus) m ++ ts)
         (if flips m false then AOp "*" a (ANum fminus_one) else a).
Proof.
  intros dn ts a m Hh HP f n d st lts L1 Hf Hd Hm HA Hfo.
  rewrite app_length, repeat_length in Hf.
  destruct (map_snd_app_inv lts _ _ Hm) as [l1 [l2 [E [H1 H2]]]]. subst lts.
  rewrite <- app_assoc in HA.
  destruct (minus_loop_At m f false st d l1 (l2 ++ L1) H1 ltac:(lia) HA) as [st1 [Hml HA1]].
  { rewrite map_app, H2. destruct ts; [discriminate|exact Hh]. }
  destruct (HP f n d st1 l2 L1 ltac:(lia) Hd H2 HA1 (follow1_mono 6 7 L1 ltac:(lia) Hfo))
    as [st2 [Hp HA2]].
  exists st2. split; [|exact HA2].
  rewrite lev_6. rewrite Hml. cbn [cbind]. rewrite Hp. cbn [cbind]. reflexivity.
Qed.

Corollary Parses_up6 : forall dn ts a,
  hd_not_minus ts = true -> Parses 7 dn ts a -> Parses 6 dn ts a.
Proof. intros dn ts a Hh HP. apply (Parses_neg dn ts a 0 Hh HP). Qed.

(* ---- primary expressions at the path level ---- *)

(* after a primary expression: no predicate, no path continuation *)
Lemma path_tail_stop : forall f st1 d L1 (o : anode),
  1 <= f -> AtL st1 d L1 -> follow1 8 L1 ->
  pred_loop f (pgo ns f EExpr) o st1 = Ok (o, st1) /\
  match typ st1 with
  | ISlash => let* st2 := pnext st1 in relpath_loop f (pgo ns f EStep) (Some o) st2
  | ISlashSlash => let* st2 := pnext st1 in relpath_loop f (pgo ns f EStep) (Some (dos_node (Some o))) st2
  | _ => Ok (o, st1)
  end = Ok (o, st1).
Proof.
  intros f st1 d L1 o Hf HA Hfo. destruct L1 as [|[w1 t1] r1]; [contradiction|].
  cbn [follow1] in Hfo. destruct (follow_ok_typ _ _ Hfo) as [Hb [Hs Hss]].
  split.
  - destruct f as [|f]; [lia|]. cbn [pred_loop].
    rewrite (is_typ_At _ _ _ _ _ ILBracket HA).
    destruct (itype_eqb (ttyp t1) ILBracket) eqn:E; [|reflexivity].
    apply itype_eqb_eq in E. congruence.
  - rewrite (typ_At _ _ _ _ _ HA). destruct (ttyp t1); try reflexivity; congruence.
Qed.

Theorem Parses_num : forall ds, Parses 8 0 [TNum ds] (ANum (of_decimal false ds [])).
Proof.
  intros ds f n d st lts L1 Hf Hd Hm HA Hfo.
  destruct lts as [|[w t] [|x lts]]; try discriminate. cbn [map snd] in Hm.
  inversion Hm as [Ht]. subst t. cbn [app] in HA.
  destruct (pnext_At _ _ _ _ _ HA (follow1_ne _ _ Hfo)) as [st1 [Hn HA1]].
  exists st1. split; [|exact HA1].
  pose proof (typ_At _ _ _ _ _ HA) as Ty. cbn [ttyp] in Ty.
  destruct (path_tail_stop f st1 d L1 (ANum (of_decimal false ds [])) ltac:(cbn in Hf; lia) HA1 Hfo) as [T1 T2].
  cbn [lev]. unfold path_expr_b, is_primary_expr. rewrite Ty.
  unfold filter_expr_b, primary_b. rewrite Ty. cbv zeta. rewrite Hn. cbn [cbind].
  destruct HA as [HS _]. pose proof (st_fld _ _ _ HS) as Hv. cbn beta iota in Hv. rewrite Hv.
  rewrite T1. cbn [cbind]. exact T2.
Qed.

Theorem Parses_str : forall b, Parses 8 0 [TStr b] (AStr b).
Proof.
  intros b f n d st lts L1 Hf Hd Hm HA Hfo.
  destruct lts as [|[w t] [|x lts]]; try discriminate. cbn [map snd] in Hm.
  inversion Hm as [Ht]. subst t. cbn [app] in HA.
  destruct (pnext_At _ _ _ _ _ HA (follow1_ne _ _ Hfo)) as [st1 [Hn HA1]].
  exists st1. split; [|exact HA1].
  pose proof (typ_At _ _ _ _ _ HA) as Ty. cbn [ttyp] in Ty.
  destruct (path_tail_stop f st1 d L1 (AStr b) ltac:(cbn in Hf; lia) HA1 Hfo) as [T1 T2].
  cbn [lev]. unfold path_expr_b, is_primary_expr. rewrite Ty.
  unfold filter_expr_b, primary_b. rewrite Ty. cbv zeta. rewrite Hn. cbn [cbind].
  destruct HA as [HS _]. pose proof (st_fld _ _ _ HS) as Hv. cbn beta iota in Hv. rewrite Hv.
  rewrite T1. cbn [cbind]. exact T2.
Qed.

Lemma skip_item_At : forall st d w t L',
  AtL st d ((w, t) :: L') -> L' <> [] ->
  exists st', skip_item st (ttyp t) = Ok st' /\ AtL st' d L'.
Proof.
  intros st d w t L' HA Hne. unfold skip_item, check_item.
  rewrite (is_typ_At _ _ _ _ _ (ttyp t) HA).
  replace (itype_eqb (ttyp t) (ttyp t)) with true by (destruct (ttyp t); reflexivity).
  cbn [cbind]. apply pnext_At with (w := w) (t := t); assumption.
Qed.

Theorem Parses_paren : forall dn ts a,
  ParsesE dn ts a ->
  Parses 8 (S dn) (TP ILParens :: ts ++ [TP IRParens]) (if is_operand a then a else AGroup a).
Proof.
  intros dn ts a HE f n d st lts L1 Hf Hd Hm HA Hfo.
  cbn [List.length] in Hf. rewrite app_length in Hf. cbn [List.length] in Hf.
  destruct lts as [|[w t] lts]; [discriminate|]. cbn [map snd] in Hm.
  inversion Hm as [[Ht Hm']]. subst t.
  destruct (map_snd_app_inv lts _ _ Hm') as [l2 [l3 [E [H2 H3]]]]. subst lts.
  destruct l3 as [|[w3 t3] [|x l3]]; try discriminate. cbn [map snd] in H3.
  inversion H3 as [Ht3]. subst t3.
  cbn [app] in HA. rewrite <- app_assoc in HA. cbn [app] in HA.
  assert (Hne : l2 ++ (w3, TP IRParens) :: L1 <> []) by (destruct l2; discriminate).
  destruct (pnext_At _ _ _ _ _ HA Hne) as [st1 [Hn HA1]].
  destruct (HE f n d st1 l2 ((w3, TP IRParens) :: L1)) as [st2 [Hp HA2]];
    [lia|lia|exact H2|exact HA1|reflexivity|].
  destruct (skip_item_At _ _ _ _ _ HA2 (follow1_ne _ _ Hfo)) as [st3 [Hsk HA3]].
  cbn [ttyp] in Hsk.
  exists st3. split; [|exact HA3].
  pose proof (typ_At _ _ _ _ _ HA) as Ty. cbn [ttyp] in Ty.
  destruct (path_tail_stop f st3 d L1 (if is_operand a then a else AGroup a) ltac:(lia) HA3 Hfo) as [T1 T2].
  cbn [lev]. unfold path_expr_b, is_primary_expr. rewrite Ty.
  unfold filter_expr_b, primary_b. rewrite Ty. rewrite Hn. cbn [cbind].
  rewrite Hp. cbn [cbind]. cbv zeta. rewrite Hsk. cbn [cbind].
  rewrite T1. cbn [cbind]. exact T2.
Qed.

Theorem ParsesE_of : forall dn ts a, Parses 0 dn ts a -> ParsesE dn ts a.
Proof.
  intros dn ts a HP f n d st lts L1 Hf Hd Hm HA Hfo.
  destruct f as [|f]; [lia|].
  pose proof (AtL_pd _ _ _ HA) as Hpd.
  destruct (HP f n (S d) (mkP (p_s st) (S d)) lts L1) as [st1 [Hp HA1]];
    [lia|lia|exact Hm|eapply AtL_depth; exact HA|exact Hfo|].
  exists (mkP (p_s st1) d). split.
  - rewrite pgo_expr_lev. cbv zeta. rewrite Hpd.
    replace (Nat.ltb max_depth (S d)) with false by (symmetry; apply Nat.ltb_ge; lia).
    rewrite Hp. cbn [cbind]. rewrite (AtL_pd _ _ _ HA1). cbn [Nat.sub].
    rewrite Nat.sub_0_r. reflexivity.
  - eapply AtL_depth. exact HA1.
Qed.

(* ---- from a judgement to [parse] ---- *)

Lemma lay_len : forall L, lay_ok L = true -> List.length L <= List.length (render L) + 1.
Proof.
  induction L as [|[w t] r IH]; intros H; [cbn; lia|].
  pose proof (lay_ok_cons _ _ _ H) as [Hw [Ht [_ [He Hr]]]].
  cbn [render List.length]. rewrite !app_length. specialize (IH Hr).
  destruct (is_eof t) eqn:E.
  - destruct t; try discriminate. rewrite (He eq_refl). cbn. lia.
  - assert (Hne : t <> TEOF) by (intros ->; discriminate).
    destruct (tok_head t Ht Hne) as [c [tl [Et _]]]. rewrite Et. cbn [List.length]. lia.
Qed.

Lemma length_string_of_list : forall l, String.length (string_of_list l) = List.length l.
Proof.
  intros l. rewrite <- length_list_of_string. rewrite list_of_string_of_list. reflexivity.
Qed.

Theorem parse_of_ParsesE : forall dn ts a L,
  ParsesE dn ts a -> ts <> [] -> dn < max_depth ->
  lay_ok L = true -> map snd L = ts ++ [TEOF] ->
  parse (string_of_list (render L)) ns = Ok a.
Proof.
  intros dn ts a L HE Hne Hdn Hl Hm.
  destruct (map_snd_app_inv L _ _ Hm) as [lts [le [E [H1 H2]]]]. subst L.
  destruct le as [|[we te] [|x le]]; try discriminate. cbn [map snd] in H2.
  inversion H2 as [Hte]. subst te.
  destruct lts as [|[w0 t0] lts]; [exfalso; apply Hne; rewrite <- H1; reflexivity|].
  cbn [app] in Hl.
  destruct (init_scanner_St _ _ _ Hl) as [s1 [Hn HS]].
  pose proof (lay_len _ Hl) as Hlen.
  pose proof (lay_ok_cons _ _ _ Hl) as [_ [Ht0 [_ [_ Hlr]]]].
  unfold parse, parse_fuel. cbv zeta. cbn [app]. rewrite Hn. cbn [cbind].
  destruct (HE (default_fuel (string_of_list (render ((w0, t0) :: lts ++ [(we, TEOF)])))) None 0
               (mkP s1 0) ((w0, t0) :: lts) [(we, TEOF)]) as [st' [Hp HA']].
  - unfold default_fuel. rewrite length_string_of_list.
    cbn [List.length] in Hlen. rewrite app_length in Hlen. cbn [List.length] in Hlen.
    rewrite <- H1. cbn [map List.length]. rewrite map_length. cbn [app]. lia.
  - unfold max_depth in *. lia.
  - exact H1.
  - cbn [app AtL]. unfold At. cbn [p_s p_d]. auto.
  - reflexivity.
  - cbn [app] in Hp. rewrite Hp. cbn [cbind].
    unfold check_item. rewrite (is_typ_At _ _ _ _ _ IEOF HA'). reflexivity.
Qed.

End Levels.

(* ------------------------------------------------------------------ *)
(** * C. Expression trees                                               *)
(* ------------------------------------------------------------------ *)

Lemma Runs_depth : forall ns k dn dn' ts a, dn <= dn' -> Runs ns k dn ts a -> Runs ns k dn' ts a.
Proof. intros ns k dn dn' ts a Hd H f n d st lts L1 Hf Hdd. apply H; [exact Hf|lia]. Qed.

Lemma hd_not_minus_app : forall ts1 ts2, hd_not_minus ts1 = true -> hd_not_minus (ts1 ++ ts2) = true.
Proof. intros [|t ts1] ts2 H; [discriminate|exact H]. Qed.

(* going down the levels without operators *)
Lemma Parses_down : forall ns dn ts a j,
  ts <> [] -> (7 <= j -> hd_not_minus ts = true) -> j <= 8 -> Parses ns j dn ts a ->
  forall k, k <= j -> Parses ns k dn ts a.
Proof.
  intros ns dn ts a j Hne Hh Hj HP k Hk.
  remember (j - k) as x eqn:Ex. revert k Hk Ex.
  induction x as [|x IH]; intros k Hk Ex.
  - assert (k = j) by lia. subst k. exact HP.
  - assert (HS : Parses ns (S k) dn ts a) by (apply IH; lia).
    destruct (Nat.eq_dec k 6) as [->|Hk6].
    + apply Parses_up6; [apply Hh; lia|exact HS].
    + apply Parses_up; [|exact Hne|exact HS].
      destruct k as [|[|[|[|[|[|[|[|k]]]]]]]]; try reflexivity; lia.
Qed.

Lemma Runs_below : forall ns dn ts a j,
  ts <> [] -> (7 <= j -> hd_not_minus ts = true) -> j <= 8 -> Parses ns j dn ts a ->
  forall k, bin_lvl k = true -> k < j -> Runs ns k dn ts a.
Proof.
  intros ns dn ts a j Hne Hh Hj HP k Hb Hk.
  apply Runs_base; [exact Hne|]. eapply Parses_down; eauto.
Qed.

Inductive binop := BOr | BAnd | BEq | BNe | BLt | BLe | BGt | BGe
                 | BAdd | BSub | BMul | BDiv | BMod | BUnion.

Definition level (op : binop) : nat :=
  match op with
  | BOr => 0 | BAnd => 1 | BEq | BNe => 2 | BLt | BLe | BGt | BGe => 3
  | BAdd | BSub => 4 | BMul | BDiv | BMod => 5 | BUnion => 7
  end.

Definition optok (op : binop) : token :=
  match op with
  | BOr => TName "or" | BAnd => TName "and" | BEq => TP IEq | BNe => TP INe
  | BLt => TP ILt | BLe => TP ILe | BGt => TP IGt | BGe => TP IGe
  | BAdd => TP IPlus | BSub => TP IMinus | BMul => TP IStar
  | BDiv => TName "div" | BMod => TName "mod" | BUnion => TP IUnion
  end.

Definition opname (op : binop) : string :=
  match op with
  | BOr => "or" | BAnd => "and" | BEq => "=" | BNe => "!=" | BLt => "<" | BLe => "<="
  | BGt => ">" | BGe => ">=" | BAdd => "+" | BSub => "-" | BMul => "*"
  | BDiv => "div" | BMod => "mod" | BUnion => "|"
  end.

Lemma optok_level : forall op, oplevel (optok op) = Some (level op).
Proof. destruct op; reflexivity. Qed.
Lemma optok_name : forall op, opstr (optok op) = opname op.
Proof. destruct op; reflexivity. Qed.
Lemma level_bin : forall op, bin_lvl (level op) = true.
Proof. destruct op; reflexivity. Qed.

Inductive ex :=
| ENum (ds : list ascii)
| EStr (b : string)
| EParen (e : ex)
| EBin (op : binop) (l r : ex)
| ENeg (m : nat) (e : ex).          (* m minus signs *)

Definition lvl (e : ex) : nat :=
  match e with EBin op _ _ => level op | ENeg _ _ => 6 | _ => 8 end.

(* the shape the grammar produces without parentheses *)
Fixpoint wf (e : ex) : Prop :=
  match e with
  | ENum _ | EStr _ => True
  | EParen e => wf e
  | EBin op l r => level op <= lvl l /\ level op < lvl r /\ wf l /\ wf r
  | ENeg m e => 1 <= m /\ 7 <= lvl e /\ wf e
  end.

Fixpoint toks (e : ex) : list token :=
  match e with
  | ENum ds => [TNum ds]
  | EStr b => [TStr b]
  | EParen e => TP ILParens :: toks e ++ [TP IRParens]
  | EBin op l r => toks l ++ optok op :: toks r
  | ENeg m e => repeat (TP IMinus) m ++ toks e
  end.

(* the intended tree *)
Fixpoint ast (e : ex) : anode :=
  match e with
  | ENum ds => ANum (of_decimal false ds [])
  | EStr b => AStr b
  | EParen e => let a := ast e in if is_operand a then a else AGroup a
  | EBin op l r => AOp (opname op) (ast l) (ast r)
  | ENeg m e => if flips m false then AOp "*" (ast e) (ANum fminus_one) else ast e
  end.

(* nesting of parentheses *)
Fixpoint pdepth (e : ex) : nat :=
  match e with
  | ENum _ | EStr _ => 0
  | EParen e => S (pdepth e)
  | EBin _ l r => Nat.max (pdepth l) (pdepth r)
  | ENeg _ e => pdepth e
  end.

Lemma toks_ne : forall e, toks e <> [].
Proof.
  induction e as [ds|b|e IH|op l IHl r IHr|m e IH]; cbn [toks]; try discriminate.
  - destruct (toks l); discriminate.
  - destruct m; cbn [repeat app]; [exact IH|discriminate].
Qed.

Lemma toks_hd : forall e, wf e -> 7 <= lvl e -> hd_not_minus (toks e) = true.
Proof.
  induction e as [ds|b|e IH|op l IHl r IHr|m e IH]; intros Hw Hl; cbn [toks]; try reflexivity.
  - cbn [wf lvl] in *. destruct Hw as [H1 [H2 [H3 H4]]].
    apply hd_not_minus_app. apply IHl; [exact H3|lia].
  - cbn [lvl] in Hl. lia.
Qed.

Section RT.
Variable ns : nsmap.

Theorem ex_parses : forall e, wf e ->
  Parses ns (lvl e) (pdepth e) (toks e) (ast e) /\
  (forall k, bin_lvl k = true -> k <= lvl e -> Runs ns k (pdepth e) (toks e) (ast e)).
Proof.
  induction e as [ds|b|e IH|op l IHl r IHr|m e IH]; intros Hw.
  - assert (HP : Parses ns 8 0 [TNum ds] (ANum (of_decimal false ds []))) by apply Parses_num.
    split; [exact HP|]. intros k Hb Hk. cbn [lvl] in Hk.
    apply Runs_below with (j := 8); try exact HP; try exact Hb; try discriminate; try reflexivity; try lia.
    destruct k as [|[|[|[|[|[|[|[|k]]]]]]]]; try discriminate Hb; lia.
  - assert (HP : Parses ns 8 0 [TStr b] (AStr b)) by apply Parses_str.
    split; [exact HP|]. intros k Hb Hk. cbn [lvl] in Hk.
    apply Runs_below with (j := 8); try exact HP; try exact Hb; try discriminate; try reflexivity; try lia.
    destruct k as [|[|[|[|[|[|[|[|k]]]]]]]]; try discriminate Hb; lia.
  - cbn [wf] in Hw. destruct (IH Hw) as [HPe _].
    assert (Hle : lvl e <= 8) by (destruct e as [| | |op ? ?|]; cbn; try lia; destruct op; cbn; lia).
    assert (HP0 : Parses ns 0 (pdepth e) (toks e) (ast e)).
    { eapply Parses_down; [apply toks_ne| |exact Hle|exact HPe|lia].
      intros H7. apply toks_hd; assumption. }
    assert (HP : Parses ns 8 (pdepth (EParen e)) (toks (EParen e)) (ast (EParen e))).
    { cbn [pdepth toks ast]. apply Parses_paren. apply ParsesE_of. exact HP0. }
    split; [exact HP|]. intros k Hb Hk. cbn [lvl] in Hk.
    apply Runs_below with (j := 8); try exact HP; try exact Hb; try discriminate; try reflexivity; try lia.
    destruct k as [|[|[|[|[|[|[|[|k]]]]]]]]; try discriminate Hb; lia.
  - cbn [wf] in Hw. destruct Hw as [H1 [H2 [Hwl Hwr]]].
    destruct (IHl Hwl) as [_ HRl]. destruct (IHr Hwr) as [HPr _].
    assert (Hler : lvl r <= 8) by (destruct r as [| | |op' ? ?|]; cbn; try lia; destruct op'; cbn; lia).
    assert (HR : Runs ns (level op) (pdepth (EBin op l r)) (toks (EBin op l r)) (ast (EBin op l r))).
    { cbn [pdepth toks ast]. rewrite <- optok_name.
      apply Runs_step; [apply level_bin|apply optok_level| |].
      - eapply Runs_depth; [apply Nat.le_max_l|]. apply HRl; [apply level_bin|exact H1].
      - eapply Parses_depth; [apply Nat.le_max_r|].
        eapply Parses_down; [apply toks_ne| |exact Hler|exact HPr|lia].
        intros H7. apply toks_hd; assumption. }
    assert (HP : Parses ns (level op) (pdepth (EBin op l r)) (toks (EBin op l r)) (ast (EBin op l r))).
    { apply Parses_of_Runs; [apply level_bin|exact HR]. }
    split; [exact HP|]. intros k Hb Hk. cbn [lvl] in Hk.
    destruct (Nat.eq_dec k (level op)) as [->|Hne]; [exact HR|].
    apply Runs_below with (j := level op); try exact HP; try exact Hb; try lia.
    + apply toks_ne.
    + intros H7. apply toks_hd; [cbn [wf]; auto|exact H7].
  - cbn [wf] in Hw. destruct Hw as [Hm [H7 Hwe]].
    destruct (IH Hwe) as [HPe _].
    assert (Hle : lvl e <= 8) by (destruct e as [| | |op ? ?|]; cbn; try lia; destruct op; cbn; lia).
    assert (HP : Parses ns 6 (pdepth (ENeg m e)) (toks (ENeg m e)) (ast (ENeg m e))).
    { cbn [pdepth toks ast]. apply Parses_neg; [apply toks_hd; assumption|].
      eapply Parses_down; [apply toks_ne| |exact Hle|exact HPe|exact H7].
      intros _. apply toks_hd; assumption. }
    split; [exact HP|]. intros k Hb Hk. cbn [lvl] in Hk.
    apply Runs_below with (j := 6); try exact HP; try exact Hb; try lia.
    + apply toks_ne.
    + destruct k as [|[|[|[|[|[|[|[|k]]]]]]]]; try discriminate Hb; lia.
Qed.

Lemma lvl_le_8 : forall e, lvl e <= 8.
Proof. destruct e as [| | |op ? ?|]; cbn; try lia. destruct op; cbn; lia. Qed.

Corollary ex_parsesE : forall e, wf e -> ParsesE ns (pdepth e) (toks e) (ast e).
Proof.
  intros e Hw. apply ParsesE_of. destruct (ex_parses e Hw) as [HP _].
  eapply Parses_down; [apply toks_ne| |apply lvl_le_8|exact HP|lia].
  intros H7. apply toks_hd; assumption.
Qed.

(* THE ROUND TRIP, for every layout of the tokens of [e] *)
Theorem roundtrip_layout : forall e L,
  wf e -> pdepth e < max_depth ->
  lay_ok L = true -> map snd L = toks e ++ [TEOF] ->
  parse (string_of_list (render L)) ns = Ok (ast e).
Proof.
  intros e L Hw Hd Hl Hm.
  eapply parse_of_ParsesE; [apply ex_parsesE; exact Hw|apply toks_ne|exact Hd|exact Hl|exact Hm].
Qed.

End RT.

Print Assumptions roundtrip_layout.

(* ------------------------------------------------------------------ *)
(** * D. The canonical printer                                          *)
(* ------------------------------------------------------------------ *)

Definition set_ws (w : list ascii) (L : layout) : layout :=
  match L with [] => [] | (_, t) :: r => (w, t) :: r end.

(* single spaces around every binary operator, nothing else *)
Fixpoint lay (e : ex) : layout :=
  match e with
  | ENum ds => [([], TNum ds)]
  | EStr b => [([], TStr b)]
  | EParen e => ([], TP ILParens) :: lay e ++ [([], TP IRParens)]
  | EBin op l r => lay l ++ (sp, optok op) :: set_ws sp (lay r)
  | ENeg m e => repeat ([], TP IMinus) m ++ lay e
  end.

Definition print (e : ex) : string := string_of_list (render (lay e ++ [([], TEOF)])).

(* the literals are ones the scanner accepts *)
Fixpoint lit_ok (e : ex) : Prop :=
  match e with
  | ENum ds => tok_ok (TNum ds) = true
  | EStr b => tok_ok (TStr b) = true
  | EParen e => lit_ok e
  | EBin _ l r => lit_ok l /\ lit_ok r
  | ENeg _ e => lit_ok e
  end.

Lemma map_snd_set_ws : forall w L, map snd (set_ws w L) = map snd L.
Proof. intros w [|[w0 t] r]; reflexivity. Qed.

Lemma lay_toks : forall e, map snd (lay e) = toks e.
Proof.
  induction e as [ds|b|e IH|op l IHl r IHr|m e IH]; cbn [lay toks]; try reflexivity.
  - cbn [map snd]. rewrite map_app, IH. reflexivity.
  - rewrite map_app. cbn [map snd]. rewrite map_snd_set_ws, IHl, IHr. reflexivity.
  - rewrite map_app, IH. f_equal. induction m; cbn; [reflexivity|]. f_equal. assumption.
Qed.

Lemma lay_ne : forall e, lay e <> [].
Proof. intros e H. apply (toks_ne e). rewrite <- lay_toks, H. reflexivity. Qed.

(* the first character of a valid layout is ASCII *)
Lemma lay_ok_hd_asc : forall L, lay_ok L = true ->
  match hd_error (render L) with Some c => asc c = true | None => True end.
Proof.
  intros [|[w t] r] H; [exact I|].
  pose proof (lay_ok_cons _ _ _ H) as [Hw [Ht [_ [He _]]]].
  cbn [render]. destruct w as [|c w].
  - cbn [app]. destruct (is_eof t) eqn:E.
    + destruct t; try discriminate. rewrite (He eq_refl). exact I.
    + assert (Hne : t <> TEOF) by (intros ->; discriminate).
      destruct (tok_head t Ht Hne) as [c [tl [Et [Hc _]]]]. rewrite Et. cbn [app hd_error].
      unfold nonsp in Hc. apply andb_prop in Hc. tauto.
  - cbn [app hd_error]. cbn [forallb] in Hw. apply andb_prop in Hw.
    apply ws_char_asc. tauto.
Qed.

(* tokens that may be followed by anything *)
Definition free_tok (t : token) : bool :=
  match t with
  | TNum _ | TName _ | TEOF => false
  | TP ISlash | TP ILt | TP IGt | TP IDot => false
  | _ => true
  end.

Lemma sep_ok_free : forall t L, free_tok t = true -> lay_ok L = true ->
  sep_ok t (hd_error (render L)) = true.
Proof.
  intros t L Hf Hl. pose proof (lay_ok_hd_asc L Hl) as Ha.
  destruct (hd_error (render L)) as [c|]; [|reflexivity].
  cbn [sep_ok]. rewrite Ha. cbn [andb].
  destruct t as [| | | |p|]; try discriminate Hf; try reflexivity.
  destruct p; try discriminate Hf; reflexivity.
Qed.

(* a space or a closing parenthesis may follow any token *)
Definition safe_hd (l : list ascii) : Prop :=
  match l with [] => True | c :: _ => c = " "%char \/ c = ")"%char end.

Lemma sep_ok_safe : forall t l, safe_hd l -> sep_ok t (hd_error l) = true.
Proof.
  intros t [|c l] H; [reflexivity|]. cbn [hd_error safe_hd] in *.
  destruct H as [-> | ->]; (destruct t as [| | | |p|]; try reflexivity; destruct p; reflexivity).
Qed.

Lemma lay_ok_app_first : forall w w0 t r,
  forallb ws_char w = true -> lay_ok ((w0, t) :: r) = true -> lay_ok ((w, t) :: r) = true.
Proof.
  intros w w0 t r Hw H. cbn [lay_ok] in *. rewrite Hw.
  apply andb_prop in H. destruct H as [_ H]. exact H.
Qed.

Lemma render_set_ws_sp : forall L R, L <> [] -> safe_hd (render (set_ws sp L ++ R)).
Proof. intros [|[w0 t] r] R H; [congruence|]. cbn. left. reflexivity. Qed.

Lemma optok_ok : forall op, tok_ok (optok op) = true.
Proof. destruct op; reflexivity. Qed.

Lemma lay_ok_lay : forall e R,
  lit_ok e -> lay_ok R = true -> safe_hd (render R) -> lay_ok (lay e ++ R) = true.
Proof.
  induction e as [ds|b|e IH|op l IHl r IHr|m e IH]; intros R Hlit HR Hs; cbn [lay lit_ok] in *.
  - cbn [app lay_ok forallb]. rewrite Hlit, HR, (sep_ok_safe _ _ Hs). reflexivity.
  - cbn [app lay_ok forallb]. rewrite Hlit, HR, (sep_ok_safe _ _ Hs). reflexivity.
  - cbn [app]. rewrite <- app_assoc. cbn [app].
    assert (H1 : lay_ok (([], TP IRParens) :: R) = true).
    { cbn [lay_ok forallb]. rewrite HR, (sep_ok_safe _ _ Hs). reflexivity. }
    assert (H2 : lay_ok (lay e ++ ([], TP IRParens) :: R) = true).
    { apply IH; [exact Hlit|exact H1|]. cbn. right. reflexivity. }
    cbn [lay_ok forallb]. rewrite H2. rewrite sep_ok_free by (reflexivity || exact H2). reflexivity.
  - destruct Hlit as [Hl Hr]. rewrite <- app_assoc. cbn [app].
    assert (H1 : lay_ok (set_ws sp (lay r) ++ R) = true).
    { pose proof (IHr R Hr HR Hs) as H. pose proof (lay_ne r) as Hne.
      destruct (lay r) as [|[w0 t0] r0]; [congruence|]. cbn [set_ws app] in *.
      eapply lay_ok_app_first; [reflexivity|exact H]. }
    assert (H2 : lay_ok ((sp, optok op) :: set_ws sp (lay r) ++ R) = true).
    { cbn [lay_ok]. rewrite H1, optok_ok.
      rewrite (sep_ok_safe _ _ (render_set_ws_sp (lay r) R (lay_ne r))).
      destruct op; reflexivity. }
    apply IHl; [exact Hl|exact H2|]. cbn. left. reflexivity.
  - rewrite <- app_assoc. induction m as [|m IHm]; cbn [repeat app].
    + apply IH; assumption.
    + cbn [lay_ok forallb]. rewrite IHm. rewrite sep_ok_free by (reflexivity || exact IHm). reflexivity.
Qed.

Lemma print_lay_ok : forall e, lit_ok e -> lay_ok (lay e ++ [([], TEOF)]) = true.
Proof. intros e H. apply lay_ok_lay; [exact H|reflexivity|exact I]. Qed.

(* THE ROUND TRIP for the canonical printer *)
Theorem roundtrip_ops : forall ns e,
  wf e -> lit_ok e -> pdepth e < max_depth ->
  parse (print e) ns = Ok (ast e).
Proof.
  intros ns e Hw Hl Hd. unfold print.
  apply roundtrip_layout; [exact Hw|exact Hd|apply print_lay_ok; exact Hl|].
  rewrite map_app, lay_toks. reflexivity.
Qed.
Print Assumptions roundtrip_ops.

(* WHITE SPACE: every admissible layout of the same tokens has the same parse *)
Theorem ws_irrelevant : forall ns e L,
  wf e -> lit_ok e -> pdepth e < max_depth ->
  lay_ok L = true -> map snd L = toks e ++ [TEOF] ->
  parse (string_of_list (render L)) ns = parse (print e) ns.
Proof.
  intros ns e L Hw Hl Hd HL Hm.
  rewrite roundtrip_ops by assumption. apply roundtrip_layout; assumption.
Qed.
Print Assumptions ws_irrelevant.

(* ---- examples, by the theorem ---- *)
Definition num (s : string) : ex := ENum (list_of_string s).

Ltac by_roundtrip e :=
  let H := fresh in
  assert (H : parse (print e) None = Ok (ast e))
    by (apply roundtrip_ops; [cbn; repeat split; lia | cbn; repeat split; reflexivity | cbn; unfold max_depth; lia]);
  exact H.

(* 1 + 2 * 3  =  1 + (2 * 3) *)
Example prec_add_mul :
  parse "1 + 2 * 3" None =
  Ok (AOp "+" (ANum (of_decimal false ["1"%char] []))
              (AOp "*" (ANum (of_decimal false ["2"%char] [])) (ANum (of_decimal false ["3"%char] [])))).
Proof. by_roundtrip (EBin BAdd (num "1") (EBin BMul (num "2") (num "3"))). Qed.

(* 1 - 2 - 3  =  (1 - 2) - 3 *)
Example assoc_sub :
  parse "1 - 2 - 3" None =
  Ok (AOp "-" (AOp "-" (ANum (of_decimal false ["1"%char] [])) (ANum (of_decimal false ["2"%char] [])))
              (ANum (of_decimal false ["3"%char] []))).
Proof. by_roundtrip (EBin BSub (EBin BSub (num "1") (num "2")) (num "3")). Qed.

(* 1 - (2 - 3) needs the parentheses *)
Example assoc_sub_paren :
  parse "1 - (2 - 3)" None =
  Ok (AOp "-" (ANum (of_decimal false ["1"%char] []))
        (AGroup (AOp "-" (ANum (of_decimal false ["2"%char] [])) (ANum (of_decimal false ["3"%char] []))))).
Proof. by_roundtrip (EBin BSub (num "1") (EParen (EBin BSub (num "2") (num "3")))). Qed.

(* all nine tiers in one chain *)
Definition chain : ex :=
  EBin BOr (num "1")
    (EBin BAnd (num "2")
      (EBin BEq (num "3")
        (EBin BLt (num "4")
          (EBin BAdd (num "5")
            (EBin BMul (num "6")
              (ENeg 1 (EBin BUnion (num "7") (num "8")))))))).
Example chain_text : print chain = "1 or 2 and 3 = 4 < 5 + 6 * -7 | 8".
Proof. vm_compute. reflexivity. Qed.
Example prec_chain : parse "1 or 2 and 3 = 4 < 5 + 6 * -7 | 8" None = Ok (ast chain).
Proof. by_roundtrip chain. Qed.

(* the same tokens, other white space *)
Example ws_example :
  parse "1+2   *3" None = parse "1 + 2 * 3" None.
Proof.
  set (e := EBin BAdd (num "1") (EBin BMul (num "2") (num "3"))).
  set (L := [([], TNum ["1"%char]); ([], TP IPlus); ([], TNum ["2"%char]);
             ([" "%char; " "%char; " "%char], TP IStar); ([], TNum ["3"%char]); ([], TEOF)]).
  apply (ws_irrelevant None e L); cbn; try (repeat split; (lia || reflexivity)).
  unfold max_depth; lia.
Qed.
