(* Proofs/EndToEndPaths.v — property C01, end to end.

   For every predicate-free location path WRITTEN IN XPATH SYNTAX (relative or
   absolute; explicit axis names or the abbreviations  a  @a  .  ..  // ;
   node tests  name  *  node()  text()  comment()):

     - Compile of its TEXT succeeds, and
     - Select returns, from every valid context node, exactly the nodes of
       the XPath 1.0 denotation [path_den] of the path.

   The chain:  printer --(RoundTripPaths.roundtrip_print_min)--> parse tree
   --(xast_path_shape, here)--> [rpath_ast] --(BuildPath.compile_path_den)-->
   query and its result.  The parse-shape hypothesis of [compile_path_den]
   is gone; what is left is a statement about texts. *)
From XP Require Import Base F64 Doc Ast Scan Parse Build Hash Eval Api.
From XP.Spec Require Import Axes Paths.
From XP.Proofs Require Import ParseTerm ScanTokens RoundTripOps RoundTripPaths RoundTripWs
                              HashInj AxesSound PathSem BuildPath.
Require Import Lia.
Open Scope string_scope.
Open Scope nat_scope.
Open Scope list_scope.

(* ------------------------------------------------------------------ *)
(** * 1. The sub-syntax: predicate-free location paths                  *)
(* ------------------------------------------------------------------ *)

Definition axis_of_name (s : string) : option axis :=
  if String.eqb s "child" then Some Child
  else if String.eqb s "descendant" then Some Descendant
  else if String.eqb s "descendant-or-self" then Some DescendantOrSelf
  else if String.eqb s "parent" then Some Parent
  else if String.eqb s "ancestor" then Some Ancestor
  else if String.eqb s "ancestor-or-self" then Some AncestorOrSelf
  else if String.eqb s "following-sibling" then Some FollowingSibling
  else if String.eqb s "preceding-sibling" then Some PrecedingSibling
  else if String.eqb s "attribute" then Some Attribute
  else if String.eqb s "self" then Some Self
  else if String.eqb s "following" then Some Following
  else if String.eqb s "preceding" then Some Preceding
  else None.

Lemma axis_of_name_sound : forall s a, axis_of_name s = Some a -> axis_name a = s.
Proof.
  intros s a H. unfold axis_of_name in H.
  repeat match type of H with
  | (if String.eqb ?x ?y then _ else _) = _ =>
      let E := fresh "E" in
      destruct (String.eqb x y) eqn:E;
      [apply String.eqb_eq in E; inversion H; subst; reflexivity|]
  end.
  discriminate.
Qed.

Lemma axis_of_name_complete : forall a, axis_of_name (axis_name a) = Some a.
Proof. destruct a; reflexivity. Qed.

(* the axis of a step:  nothing = child,  @ = attribute,  name:: *)
Definition axis_of_spec (a : axsp) : option axis := axis_of_name (axname a).

(* the principal node type of the axis, as parseStep chooses it *)
Definition principal (a : axis) : ntype := match a with Attribute => NTAttr | _ => NTElem end.

Definition node_t : ntest := mkTest NTAll "" "" false "".

(* node tests, as the PARSER builds them (no prefix, no namespace) *)
Definition test_of (a : axis) (t : ntst) : option ntest :=
  match t with
  | NName nm => Some (mkTest (principal a) "" nm false "")
  | NStar => Some (mkTest (principal a) "" "" false "")
  | NType nm =>
    if String.eqb nm "node" then Some node_t
    else if String.eqb nm "text" then Some (mkTest NTText "" "" false "")
    else if String.eqb nm "comment" then Some (mkTest NTComment "" "" false "")
    else None
  end.

Definition dos_sstep : sstep := mkStep DescendantOrSelf node_t.

(* one step without predicates *)
Definition step_of (s : xstep) : option sstep :=
  match s with
  | SAbbr dd PNil => Some (mkStep (if dd then Parent else Self) node_t)
  | SAxis a t PNil =>
    match axis_of_spec a with
    | Some ax => match test_of ax t with Some nt => Some (mkStep ax nt) | None => None end
    | None => None
    end
  | _ => None
  end.

Fixpoint rsteps_of (r : rpath) : option (list sstep) :=
  match r with
  | ROne s => match step_of s with Some x => Some [x] | None => None end
  | RCons s dbl r' =>
    match step_of s, rsteps_of r' with
    | Some x, Some l => Some (x :: (if dbl then [dos_sstep] else []) ++ l)
    | _, _ => None
    end
  end.

Definition start_abs (s : pstart) : bool := match s with PRel => false | _ => true end.
Definition start_steps (s : pstart) : list sstep := match s with PAbs2 => [dos_sstep] | _ => [] end.

Definition steps_of_opt (p : px) : option (bool * list sstep) :=
  match p with
  | XPath s r => match rsteps_of r with
                 | Some l => Some (start_abs s, start_steps s ++ l)
                 | None => None
                 end
  | _ => None
  end.

(* [p] is a predicate-free location path over the twelve axes *)
Definition path_syntax (p : px) : Prop := exists r, steps_of_opt p = Some r.

(* its translation: (absolute?, steps) *)
Definition steps_of (p : px) : bool * list sstep :=
  match steps_of_opt p with Some r => r | None => (false, []) end.

Lemma steps_of_spec : forall p abs steps,
  path_syntax p -> steps_of p = (abs, steps) -> steps_of_opt p = Some (abs, steps).
Proof. intros p abs steps [r E] H. unfold steps_of in H. rewrite E in H. subst r. exact E. Qed.

(* a decision procedure, for the examples *)
Definition path_syntax_b (p : px) : bool :=
  match steps_of_opt p with Some _ => true | None => false end.
Lemma path_syntax_b_ok : forall p, path_syntax_b p = true -> path_syntax p.
Proof. intros p H. unfold path_syntax_b in H. destruct (steps_of_opt p) as [r|] eqn:E; [exists r; exact E|discriminate]. Qed.

(* ------------------------------------------------------------------ *)
(** * 2. Well-formedness and depth come for free                        *)
(* ------------------------------------------------------------------ *)

Lemma step_of_wf : forall s x, step_of s = Some x -> swf s /\ sdepth s = 0.
Proof.
  intros [dd ps|a t ps] x H; cbn [step_of] in H.
  - destruct ps; [|discriminate]. cbn. auto.
  - destruct ps; [|discriminate]. cbn [swf pwf sdepth pdepth_ps].
    destruct (axis_of_spec a) as [ax|]; [|discriminate].
    destruct (test_of ax t) as [nt|] eqn:Et; [|discriminate].
    split; [|reflexivity]. split; [|exact I].
    destruct t as [nm| |nm]; try reflexivity. cbn [test_of] in Et. cbn [nt_ok]. unfold node_type_name.
    destruct (String.eqb nm "node"); [reflexivity|].
    destruct (String.eqb nm "text"); [reflexivity|].
    destruct (String.eqb nm "comment"); [|discriminate].
    rewrite !Bool.orb_true_r. reflexivity.
Qed.

Lemma rsteps_of_wf : forall r l, rsteps_of r = Some l -> rwf r /\ rdepth r = 0.
Proof.
  induction r as [s|s dbl r IH]; intros l H; cbn [rsteps_of] in H.
  - destruct (step_of s) eqn:Es; [|discriminate]. cbn [rwf rdepth]. eapply step_of_wf; eassumption.
  - destruct (step_of s) eqn:Es; [|discriminate]. destruct (rsteps_of r) eqn:Er; [|discriminate].
    destruct (step_of_wf _ _ Es) as [H1 H2]. destruct (IH _ eq_refl) as [H3 H4].
    cbn [rwf rdepth]. rewrite H2, H4. auto.
Qed.

Theorem path_syntax_wf : forall p, path_syntax p -> xwf p /\ xdepth p = 0.
Proof.
  intros p [r H]. destruct p; try discriminate. cbn [steps_of_opt] in H.
  destruct (rsteps_of p) eqn:E; [|discriminate]. cbn [xwf xdepth]. eapply rsteps_of_wf; eassumption.
Qed.

(* ------------------------------------------------------------------ *)
(** * 3. The parse tree of such a path has the shape BuildPath needs    *)
(* ------------------------------------------------------------------ *)

Lemma dos_node_step : forall inp, dos_node inp = step_ast dos_sstep "" inp.
Proof. reflexivity. Qed.

Lemma sast_step : forall s x n, step_of s = Some x -> exists prop, sast s n = step_ast x prop n.
Proof.
  intros [dd ps|a t ps] x n H; cbn [step_of] in H.
  - destruct ps; [|discriminate]. inversion H; subst x. exists "".
    destruct dd; reflexivity.
  - destruct ps; [|discriminate].
    unfold axis_of_spec in H. destruct (axis_of_name (axname a)) as [ax|] eqn:Ea; [|discriminate].
    destruct (test_of ax t) as [nt|] eqn:Et; [|discriminate]. inversion H; subst x.
    apply axis_of_name_sound in Ea. cbn [sast past]. rewrite <- Ea.
    assert (Hp : (if String.eqb (axis_name ax) "attribute" then NTAttr else NTElem) = principal ax)
      by (destruct ax; reflexivity).
    destruct t as [nm| |nm]; cbn [test_of] in Et.
    + inversion Et; subst nt. exists "". unfold nt_node, axis_node, step_ast. cbn [s_axis s_test nt_type nt_pre nt_loc nt_hasns nt_ns].
      rewrite Hp. reflexivity.
    + inversion Et; subst nt. exists "". unfold nt_node, axis_node, step_ast. cbn [s_axis s_test nt_type nt_pre nt_loc nt_hasns nt_ns].
      rewrite Hp. reflexivity.
    + exists nm. unfold nt_node, axis_node, step_ast. cbn [s_axis s_test].
      destruct (String.eqb nm "node") eqn:E1.
      { inversion Et; subst nt. apply String.eqb_eq in E1. subst nm. reflexivity. }
      destruct (String.eqb nm "text") eqn:E2.
      { inversion Et; subst nt. apply String.eqb_eq in E2. subst nm. reflexivity. }
      destruct (String.eqb nm "comment") eqn:E3; [|discriminate].
      inversion Et; subst nt. reflexivity.
Qed.

Lemma rast_shape : forall abs r l, rsteps_of r = Some l ->
  forall rs n, rpath_ast abs rs n -> rpath_ast abs (rev l ++ rs) (Some (rast r n)).
Proof.
  intros abs. induction r as [s|s dbl r IH]; intros l H rs n Hn; cbn [rsteps_of] in H.
  - destruct (step_of s) as [x|] eqn:Es; [|discriminate]. inversion H; subst l.
    destruct (sast_step s x n Es) as [prop E]. cbn [rast rev app]. rewrite E.
    constructor. exact Hn.
  - destruct (step_of s) as [x|] eqn:Es; [|discriminate].
    destruct (rsteps_of r) as [l'|] eqn:Er; [|discriminate]. inversion H; subst l.
    destruct (sast_step s x n Es) as [prop E]. cbn [rast]. rewrite E.
    assert (Hx : rpath_ast abs (x :: rs) (Some (step_ast x prop n))) by (constructor; exact Hn).
    destruct dbl; cbn [app rev].
    + rewrite <- !app_assoc. cbn [app]. apply (IH l' eq_refl).
      rewrite dos_node_step. constructor. exact Hx.
    + rewrite <- app_assoc. cbn [app]. apply (IH l' eq_refl). exact Hx.
Qed.

Theorem xast_path_shape : forall p abs steps,
  path_syntax p -> steps_of p = (abs, steps) ->
  rpath_ast abs (rev steps) (Some (xast p)).
Proof.
  intros p abs steps Hp Hs. pose proof (steps_of_spec p abs steps Hp Hs) as H.
  destruct p as [| | | | |s r| | | | |]; try discriminate. cbn [steps_of_opt] in H.
  destruct (rsteps_of r) as [l|] eqn:Er; [|discriminate]. inversion H; subst abs steps.
  cbn [xast]. rewrite rev_app_distr.
  apply (rast_shape (start_abs s) r l Er).
  destruct s; cbn [start_abs start_steps start_node rev app].
  - apply RA_rel. reflexivity.
  - apply RA_abs. reflexivity.
  - rewrite dos_node_step. constructor. apply RA_abs. reflexivity.
Qed.

(* ------------------------------------------------------------------ *)
(** * 4. End to end                                                     *)
(* ------------------------------------------------------------------ *)

Lemma parse_empty : forall ns a, parse "" ns <> Ok a.
Proof. intros ns a. vm_compute. discriminate. Qed.

(* the generic link: a text that parses to the tree of the path *)
Lemma C01_text : forall D has_ns hcode rm rn rr re_ok ns text p abs steps,
  path_syntax p -> steps_of p = (abs, steps) ->
  parse text ns = Ok (xast p) ->
  List.length steps < max_build_depth -> hash_ok hcode (all_nodes D) ->
  exists q, compile re_ok text ns = Ok q /\ selects_path D has_ns hcode rm rn rr q abs steps.
Proof.
  intros D has_ns hcode rm rn rr re_ok ns text p abs steps Hp Hs Hparse Hlen Hh.
  unfold compile.
  apply (compile_path_den D has_ns hcode rm rn rr re_ok (default_fuel text) text ns abs steps (xast p));
    try assumption.
  - intros ->. exact (parse_empty ns _ Hparse).
  - apply xast_path_shape; assumption.
Qed.

(** C01, end to end, on the minimal print of the path *)
Theorem C01_end_to_end : forall D has_ns hcode rm rn rr re_ok ns p abs steps,
  path_syntax p -> steps_of p = (abs, steps) -> xok p ->
  List.length steps < max_build_depth -> hash_ok hcode (all_nodes D) ->
  exists q, compile re_ok (print_min p) ns = Ok q /\
            selects_path D has_ns hcode rm rn rr q abs steps.
Proof.
  intros D has_ns hcode rm rn rr re_ok ns p abs steps Hp Hs Hok Hlen Hh.
  destruct (path_syntax_wf p Hp) as [Hwf Hd].
  eapply C01_text; try eassumption.
  apply roundtrip_print_min; [exact Hwf|exact Hok|rewrite Hd; unfold max_depth; lia].
Qed.
Print Assumptions C01_end_to_end.

(** the same for the one-space-per-token printer *)
Theorem C01_end_to_end_sp : forall D has_ns hcode rm rn rr re_ok ns p abs steps,
  path_syntax p -> steps_of p = (abs, steps) -> xok p ->
  List.length steps < max_build_depth -> hash_ok hcode (all_nodes D) ->
  exists q, compile re_ok (print_sp p) ns = Ok q /\
            selects_path D has_ns hcode rm rn rr q abs steps.
Proof.
  intros D has_ns hcode rm rn rr re_ok ns p abs steps Hp Hs Hok Hlen Hh.
  destruct (path_syntax_wf p Hp) as [Hwf Hd].
  eapply C01_text; try eassumption.
  apply roundtrip_print_sp; [exact Hwf|exact Hok|rewrite Hd; unfold max_depth; lia].
Qed.
Print Assumptions C01_end_to_end_sp.

(** and for EVERY white-space layout [w] of the tokens *)
Theorem C01_end_to_end_ws : forall D has_ns hcode rm rn rr re_ok ns w p abs steps,
  ws_fun w ->
  path_syntax p -> steps_of p = (abs, steps) -> xok p ->
  List.length steps < max_build_depth -> hash_ok hcode (all_nodes D) ->
  exists q, compile re_ok (print_ws w p) ns = Ok q /\
            selects_path D has_ns hcode rm rn rr q abs steps.
Proof.
  intros D has_ns hcode rm rn rr re_ok ns w p abs steps Hw Hp Hs Hok Hlen Hh.
  destruct (path_syntax_wf p Hp) as [Hwf Hd].
  assert (Hdd : xdepth p < max_depth) by (rewrite Hd; unfold max_depth; lia).
  eapply C01_text; try eassumption.
  rewrite C10_white_space by assumption.
  apply roundtrip_print_min; assumption.
Qed.
Print Assumptions C01_end_to_end_ws.

(** the compiled query is the same whatever the layout *)
Corollary C01_layout_independent : forall re_ok ns w p,
  ws_fun w -> path_syntax p -> xok p ->
  compile re_ok (print_ws w p) ns = compile re_ok (print_min p) ns.
Proof.
  intros re_ok ns w p Hw Hp Hok.
  destruct (path_syntax_wf p Hp) as [Hwf Hd].
  assert (Hdd : xdepth p < max_depth) by (rewrite Hd; unfold max_depth; lia).
  pose proof (C10_white_space ns w p Hw Hwf Hok Hdd) as E1.
  pose proof (roundtrip_print_min ns p Hwf Hok Hdd) as E2. rewrite E2 in E1.
  assert (N1 : print_ws w p <> "") by (intros E; rewrite E in E1; exact (parse_empty _ _ E1)).
  assert (N2 : print_min p <> "") by (intros E; rewrite E in E2; exact (parse_empty _ _ E2)).
  unfold compile, compile_fuel, build_fuel.
  apply String.eqb_neq in N1, N2. rewrite N1, N2.
  unfold parse in E1, E2. rewrite E1, E2. reflexivity.
Qed.

(** Select (Api.v) itself: the drained iterator *)
Corollary C01_select : forall D has_ns (hc : tree -> node -> N) rm rn rr re_ok ns p abs steps,
  path_syntax p -> steps_of p = (abs, steps) -> xok p ->
  List.length steps < max_build_depth -> hash_ok (hc D) (all_nodes D) ->
  exists q, compile re_ok (print_min p) ns = Ok q /\
    forall c, valid D c = true ->
    exists l, select rm rn rr hc D has_ns q c = Val l /\
              (forall n, In n l <-> path_den D has_ns steps (if abs then root_node else c) n).
Proof.
  intros D has_ns hc rm rn rr re_ok ns p abs steps Hp Hs Hok Hlen Hh.
  destruct (C01_end_to_end D has_ns (hc D) rm rn rr re_ok ns p abs steps Hp Hs Hok Hlen Hh)
    as (q & Eq & Hsel).
  exists q. split; [exact Eq|]. intros c Hc. destruct (Hsel c Hc) as (l & El & _ & Hin).
  exists (nodes_of l). split; [|exact Hin]. unfold select. rewrite El. reflexivity.
Qed.
Print Assumptions C01_select.

(* ------------------------------------------------------------------ *)
(** * 5. Examples                                                       *)
(* ------------------------------------------------------------------ *)
Module Examples.
Import AxesSound.Examples BuildPath.Examples.

Definition st_child (s : string) : xstep := SAxis AxChild (NName s) PNil.
Definition st_attr (s : string) : xstep := SAxis AxAt (NName s) PNil.
Definition st_ax (ax s : string) : xstep := SAxis (AxName ax []) (NName s) PNil.

(*  //a/b  *)
Definition e1 : px := XPath PAbs2 (RCons (st_child "a") false (ROne (st_child "b"))).
Example e1_text : print_min e1 = "//a/b".
Proof. vm_compute. reflexivity. Qed.
Example e1_steps : steps_of e1 =
  (true, [mkStep DescendantOrSelf node_t; mkStep Child (name_t "a"); mkStep Child (name_t "b")]).
Proof. vm_compute. reflexivity. Qed.
Example e1_query : compile Api.lit_ok "//a/b" None
  = Ok (QCachedChild (name_t "b") (QDescendant false (name_t "a") QAbsolute)).
Proof. vm_compute. reflexivity. Qed.

(*  child::a/descendant::b/@x  *)
Definition e2 : px :=
  XPath PRel (RCons (st_ax "child" "a") false (RCons (st_ax "descendant" "b") false (ROne (st_attr "x")))).
Example e2_text : print_min e2 = "child::a/descendant::b/@x".
Proof. vm_compute. reflexivity. Qed.
Example e2_steps : steps_of e2 =
  (false, [mkStep Child (name_t "a"); mkStep Descendant (name_t "b");
           mkStep Attribute (mkTest NTAttr "" "x" false "")]).
Proof. vm_compute. reflexivity. Qed.
Example e2_query : compile Api.lit_ok "child::a/descendant::b/@x" None
  = Ok (QAttribute (mkTest NTAttr "" "x" false "")
         (QDescendant false (name_t "b") (QChild (name_t "a") QContext))).
Proof. vm_compute. reflexivity. Qed.

(*  ../*/text()  *)
Definition e3 : px :=
  XPath PRel (RCons (SAbbr true PNil) false
             (RCons (SAxis AxChild NStar PNil) false (ROne (SAxis AxChild (NType "text") PNil)))).
Example e3_text : print_min e3 = "../*/text()".
Proof. vm_compute. reflexivity. Qed.
Example e3_steps : steps_of e3 =
  (false, [mkStep Parent node_t; mkStep Child (mkTest NTElem "" "" false "");
           mkStep Child (mkTest NTText "" "" false "")]).
Proof. vm_compute. reflexivity. Qed.
Example e3_query : compile Api.lit_ok "../*/text()" None
  = Ok (QChild (mkTest NTText "" "" false "")
         (QChild (mkTest NTElem "" "" false "") (QParent node_t QContext))).
Proof. vm_compute. reflexivity. Qed.

(* the hypotheses of the theorem hold on the three of them *)
Example e_hyps :
  (path_syntax e1 /\ xok e1) /\ (path_syntax e2 /\ xok e2) /\ (path_syntax e3 /\ xok e3).
Proof.
  repeat split; try (apply path_syntax_b_ok; vm_compute; reflexivity); vm_compute; reflexivity.
Qed.

(* a membership fact on the document  <a><a><b/></a><b/></a>  through the
   theorem:  the node a/a/b  belongs to the denotation of  //a/b  *)
Example e1_den : path_den exD2 true (snd (steps_of e1)) root_node (elem_at [0;0;0]).
Proof.
  destruct (C01_end_to_end exD2 true (hash_code exD2) lit_match lit_numsubexp lit_replace_all Api.lit_ok
              None e1 true (snd (steps_of e1))) as (q & Eq & Hs).
  - apply path_syntax_b_ok. vm_compute. reflexivity.
  - vm_compute. reflexivity.
  - vm_compute. reflexivity.
  - vm_compute. lia.
  - exact hash_ok_exD2.
  - destruct (Hs root_node eq_refl) as (l & El & _ & Hin). apply Hin.
    vm_compute in Eq. inversion Eq; subst q. vm_compute in El. inversion El; subst l.
    vm_compute. auto.
Qed.

(* and a non-membership fact: the attribute-less document has no  @x  node *)
Example e2_den_empty : forall n,
  ~ path_den exD2 true (snd (steps_of e2)) root_node n.
Proof.
  intros n Hn.
  destruct (C01_end_to_end exD2 true (hash_code exD2) lit_match lit_numsubexp lit_replace_all Api.lit_ok
              None e2 false (snd (steps_of e2))) as (q & Eq & Hs).
  - apply path_syntax_b_ok. vm_compute. reflexivity.
  - vm_compute. reflexivity.
  - vm_compute. reflexivity.
  - vm_compute. lia.
  - exact hash_ok_exD2.
  - destruct (Hs root_node eq_refl) as (l & El & _ & Hin). apply Hin in Hn.
    vm_compute in Eq. inversion Eq; subst q. vm_compute in El. inversion El; subst l.
    exact Hn.
Qed.

(* white space: the same compiled query for  "// a / b"  with tabs and newlines *)
Example e1_ws : compile Api.lit_ok (print_ws w_ex e1) None = compile Api.lit_ok "//a/b" None.
Proof.
  change "//a/b" with (print_min e1).
  apply C01_layout_independent;
    [apply w_ex_ok|apply path_syntax_b_ok; vm_compute; reflexivity|vm_compute; reflexivity].
Qed.

(* outside the sub-syntax, on purpose:
   - processing-instruction() is built like  *  (principal node type, no
     name): the model (as the library) selects ELEMENTS for it;
   - an axis name outside the twelve (or  namespace::) parses but does not compile. *)
Example pi_is_star :
  compile Api.lit_ok "processing-instruction()" None = compile Api.lit_ok "*" None /\
  compile Api.lit_ok "@processing-instruction()" None = compile Api.lit_ok "@*" None.
Proof. split; vm_compute; reflexivity. Qed.
Example unknown_axis :
  compile Api.lit_ok "foo::a" None = Err "unknown axe type" /\
  compile Api.lit_ok "namespace::a" None = Err "xpath: the namespace axis is not supported".
Proof. split; vm_compute; reflexivity. Qed.

End Examples.
