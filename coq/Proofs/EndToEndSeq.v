(* Proofs/EndToEndSeq.v — property C11, second clause, at the level of TEXTS:
   the sequence form  P/(A, B) .

   In parse.go a parenthesis where a step is expected starts parseSequence:
   "(" step { "," step } ")" -- each alternative is ONE step, applied to the
   same input -- and the result is the union node of the alternatives.  The
   round-trip datatype has no such step, but its tokens exist, so the form is
   added here at the level of the parsing judgements ([Step_seq]) and composed
   with the existing ones.

   For P a predicate-free location path (EndToEndPaths.path_syntax) and A, B
   predicate-free steps (any axes): the text  P/(A,B)  -- in every admissible
   white-space layout -- compiles to the union of P/A and P/B, and Select from
   a valid context node c returns a duplicate-free list whose members are
   exactly the nodes n with
        exists m,  m in [[P]](c)  and  ( m -A-> n  or  m -B-> n ). *)
From XP Require Import Base F64 Doc Ast Scan Parse Build Hash Eval Api.
From XP.Spec Require Import Axes Paths.
From XP.Proofs Require Import ParseTerm ParseAssoc ScanTokens RoundTripOps RoundTripPaths
                              HashInj AxesSound PathSem BuildPath BuildFacts BuildOps
                              EndToEndPaths EndToEndPred EndToEndReject.
Require Import Lia.
Open Scope string_scope.
Open Scope nat_scope.
Open Scope list_scope.

(* ------------------------------------------------------------------ *)
(** * 1. The sequence step, as a parsing judgement                      *)
(* ------------------------------------------------------------------ *)

Section Parse.
Variable ns : nsmap.

Definition seq_toks (ts1 ts2 : list token) : list token :=
  TP ILParens :: ts1 ++ TP IComma :: ts2 ++ [TP IRParens].

Lemma StepP_depth : forall dn dn' ts g, dn <= dn' -> StepP ns dn ts g -> StepP ns dn' ts g.
Proof. intros dn dn' ts g Hd H f n d st lts L1 Hf Hdd. apply H; [exact Hf|lia]. Qed.

(* "(" step "," step ")" *)
Theorem Step_seq : forall dn ts1 g1 ts2 g2,
  StepP ns dn ts1 g1 -> StepP ns dn ts2 g2 ->
  StepP ns (S dn) (seq_toks ts1 ts2) (fun n => AOp "|" (g1 n) (g2 n)).
Proof.
  intros dn ts1 g1 ts2 g2 H1 H2 f n d st lts L1 Hf Hd Hm HA Hb Hl.
  unfold seq_toks in *. cbn [List.length] in Hf. rewrite !app_length in Hf. cbn [List.length] in Hf.
  rewrite app_length in Hf. cbn [List.length] in Hf.
  destruct lts as [|[w0 t0] lts]; [discriminate|]. cbn [map snd] in Hm.
  inversion Hm as [[Ht0 Hm']]. subst t0.
  destruct (map_snd_app_inv lts _ _ Hm') as [l1 [lr [E [Hl1 Hlr]]]]. subst lts.
  destruct lr as [|[wc tc] lr]; [discriminate|]. cbn [map snd] in Hlr.
  inversion Hlr as [[Htc Hlr']]. subst tc.
  destruct (map_snd_app_inv lr _ _ Hlr') as [l2 [l3 [E [Hl2 Hl3]]]]. subst lr.
  destruct l3 as [|[wr tr] [|x l3]]; try discriminate. cbn [map snd] in Hl3.
  inversion Hl3 as [Htr]. subst tr.
  cbn [app] in HA. rewrite <- app_assoc in HA. cbn [app] in HA. rewrite <- app_assoc in HA. cbn [app] in HA.
  pose proof (hd_typ_not_ne _ _ Hl) as HneL.
  destruct f as [|[|f]]; try lia.
  rewrite pgo_S_step. unfold step_b.
  rewrite !(is_typ_At _ _ _ _ _ _ HA). cbn [ttyp itype_eqb orb].
  rewrite (typ_At _ _ _ _ _ HA). cbn [ttyp].
  pose proof (AtL_pd _ _ _ HA) as Hpd. rewrite Hpd.
  replace (Nat.ltb max_depth (S d)) with false by (symmetry; apply Nat.ltb_ge; lia).
  cbv zeta.
  assert (HA0 : AtL (mkP (p_s st) (S d)) (S d)
                  ((w0, TP ILParens) :: l1 ++ (wc, TP IComma) :: l2 ++ (wr, TP IRParens) :: L1))
    by (eapply AtL_depth; exact HA).
  destruct (skip_item_At _ _ _ _ _ HA0 ltac:(destruct l1; discriminate)) as [st1 [Hs1 HA1]].
  cbn [ttyp] in Hs1. rewrite Hs1. cbn [cbind].
  destruct (H1 (S f) n (S d) st1 l1 ((wc, TP IComma) :: l2 ++ (wr, TP IRParens) :: L1)) as [st2 [Hp2 HA2]];
    [lia|lia|exact Hl1|exact HA1|cbn; discriminate|cbn; discriminate|].
  rewrite Hp2. cbn [cbind seq_loop].
  rewrite (is_typ_At _ _ _ _ _ IComma HA2). cbn [ttyp itype_eqb].
  destruct (pnext_At _ _ _ _ _ HA2 ltac:(destruct l2; discriminate)) as [st3 [Hn3 HA3]].
  rewrite Hn3. cbn [cbind].
  destruct (H2 (S f) n (S d) st3 l2 ((wr, TP IRParens) :: L1)) as [st4 [Hp4 HA4]];
    [lia|lia|exact Hl2|exact HA3|cbn; discriminate|cbn; discriminate|].
  rewrite Hp4. cbn [cbind].
  destruct f as [|f]; [lia|]. cbn [seq_loop].
  rewrite (is_typ_At _ _ _ _ _ IComma HA4). cbn [ttyp itype_eqb cbind].
  destruct (skip_item_At _ _ _ _ _ HA4 HneL) as [st5 [Hs5 HA5]]. cbn [ttyp] in Hs5.
  rewrite Hs5. cbn [cbind].
  exists (mkP (p_s st5) d). split.
  - rewrite (AtL_pd _ _ _ HA5). cbn [Nat.sub]. rewrite Nat.sub_0_r. reflexivity.
  - eapply AtL_depth. exact HA5.
Qed.

(* a relative path followed by "/" and a further step *)
Lemma Rel_then_step : forall r dn ts g,
  rwf r -> ts <> [] -> StepP ns dn ts g ->
  RelP ns (Nat.max (rdepth r) dn) (rtoks r ++ TP ISlash :: ts) (fun n => g (Some (rast r n))).
Proof.
  induction r as [s|s dbl r IH]; intros dn ts g Hw Hne HS; cbn [rwf rtoks rdepth rast] in *.
  - apply (Rel_slash ns _ (stoks s) (sast s) ts g (stoks_ne s) Hne).
    + eapply StepP_depth; [apply Nat.le_max_l|]. apply (proj1 (proj2 (proj2 (px_parses_all ns))) s Hw).
    + apply Rel_one. eapply StepP_depth; [apply Nat.le_max_r|exact HS].
  - destruct Hw as [Hws Hwr]. rewrite <- app_assoc. cbn [app].
    assert (Hne' : rtoks r ++ TP ISlash :: ts <> []) by (destruct (rtoks r); discriminate).
    pose proof (IH dn ts g Hwr Hne HS) as HR.
    assert (HSs : StepP ns (Nat.max (Nat.max (sdepth s) (rdepth r)) dn) (stoks s) (sast s)).
    { eapply StepP_depth; [|apply (proj1 (proj2 (proj2 (px_parses_all ns))) s Hws)]. lia. }
    assert (HRr : RelP ns (Nat.max (Nat.max (sdepth s) (rdepth r)) dn) (rtoks r ++ TP ISlash :: ts)
                    (fun n => g (Some (rast r n)))).
    { eapply RelP_depth; [|exact HR]. lia. }
    destruct dbl.
    + apply (Rel_slashslash ns _ (stoks s) (sast s) _ _ (stoks_ne s) Hne' HSs HRr).
    + apply (Rel_slash ns _ (stoks s) (sast s) _ _ (stoks_ne s) Hne' HSs HRr).
Qed.

End Parse.

(* ------------------------------------------------------------------ *)
(** * 2. The text  P/(A,B)  and its tree                                *)
(* ------------------------------------------------------------------ *)

(* the tokens of  P / ( A , B ) *)
Definition seq_text_toks (p : px) (sa sb : xstep) : list token :=
  xtoks p ++ TP ISlash :: seq_toks (stoks sa) (stoks sb).

Definition seq_ast (p : px) (sa sb : xstep) : anode :=
  AOp "|" (sast sa (Some (xast p))) (sast sb (Some (xast p))).

Theorem seq_parses : forall ns p sa sb,
  path_syntax p -> swf sa -> swf sb ->
  ParsesE ns (S (Nat.max (sdepth sa) (sdepth sb))) (seq_text_toks p sa sb) (seq_ast p sa sb).
Proof.
  intros ns p sa sb Hp Ha Hb.
  destruct (path_syntax_inv p Hp) as (s & r & l & -> & Er & Hw).
  pose proof (proj2 (rsteps_of_wf r l Er)) as Hdr.
  set (dn := Nat.max (sdepth sa) (sdepth sb)).
  assert (HSa : StepP ns dn (stoks sa) (sast sa))
    by (eapply StepP_depth; [apply Nat.le_max_l|apply (proj1 (proj2 (proj2 (px_parses_all ns))) sa Ha)]).
  assert (HSb : StepP ns dn (stoks sb) (sast sb))
    by (eapply StepP_depth; [apply Nat.le_max_r|apply (proj1 (proj2 (proj2 (px_parses_all ns))) sb Hb)]).
  pose proof (Step_seq ns dn _ _ _ _ HSa HSb) as Hseq.
  assert (Hsne : seq_toks (stoks sa) (stoks sb) <> []) by (unfold seq_toks; discriminate).
  pose proof (Rel_then_step ns r (S dn) _ _ Hw Hsne Hseq) as HR.
  rewrite Hdr in HR. cbn [Nat.max] in HR.
  assert (Hrs : rel_start (rtoks r ++ TP ISlash :: seq_toks (stoks sa) (stoks sb)) = true)
    by (apply not_lparen_rel_start; [apply rel_start_rtoks; exact Hw|exact I]).
  assert (H8 : Parses ns 8 (S dn) (seq_text_toks (XPath s r) sa sb) (seq_ast (XPath s r) sa sb)).
  { unfold seq_text_toks, seq_ast. cbn [xtoks xast]. rewrite <- app_assoc.
    destruct s; cbn [start_toks start_node app].
    - apply (Path_rel ns _ _ _ Hrs HR).
    - apply (Path_abs ns _ _ _ Hrs HR).
    - assert (Hne2 : rtoks r ++ TP ISlash :: seq_toks (stoks sa) (stoks sb) <> [])
        by (destruct (rtoks r); discriminate).
      apply (Path_abs2 ns _ _ _ Hne2 HR). }
  apply ParsesE_of.
  eapply Parses_down; [| |apply (le_n 8)|exact H8|lia].
  - unfold seq_text_toks. destruct (xtoks (XPath s r)); discriminate.
  - intros _. unfold seq_text_toks. apply hd_not_minus_app.
    apply xtoks_hd; [cbn [xwf]; exact Hw|cbn; lia].
Qed.

(* ------------------------------------------------------------------ *)
(** * 3. End to end                                                     *)
(* ------------------------------------------------------------------ *)

Lemma sast_pfree : forall s x n, step_of s = Some x -> exists prop, sast s n = step_ast x prop n.
Proof. exact EndToEndPaths.sast_step. Qed.

Section E2E.
Variable D : tree.
Variable has_ns : bool.
Variable hcode : node -> N.
Variable rm : string -> string -> option bool.
Variable rn : string -> nat.
Variable rr : string -> string -> string -> string.
Hypothesis Hhash : hash_ok hcode (all_nodes D).
Variable re_ok : string -> bool.
Variable ns : nsmap.

Notation SEL := (sel D has_ns hcode rm rn rr).

(* what the sequence form selects *)
Definition seq_den (abs : bool) (steps : list sstep) (xa xb : sstep) (c n : node) : Prop :=
  exists m, path_den D has_ns steps (if abs then root_node else c) m /\
            (step_rel D has_ns xa m n \/ step_rel D has_ns xb m n).

Theorem C11_seq_end_to_end : forall p abs steps sa sb xa xb,
  path_syntax p -> steps_of p = (abs, steps) -> step_of sa = Some xa -> step_of sb = Some xb ->
  toks_ok (seq_text_toks p sa sb) -> List.length steps + 2 < max_build_depth ->
  exists q,
    (* every admissible white-space layout of the tokens compiles to q *)
    (forall L, lay_ok L = true -> map snd L = seq_text_toks p sa sb ++ [TEOF] ->
       compile re_ok (string_of_list (render L)) ns = Ok q) /\
    compile re_ok (print_toks (seq_text_toks p sa sb)) ns = Ok q /\
    forall c, valid D c = true ->
    exists l, SEL q c = Val l /\ NoDup (nodes_of l) /\
              (forall n, In n (nodes_of l) -> valid D n = true) /\
              forall n, In n (nodes_of l) <-> seq_den abs steps xa xb c n.
Proof.
  intros p abs steps sa sb xa xb Hp Hs Ea Eb Hok Hl.
  destruct (step_of_wf sa xa Ea) as [Wa Da]. destruct (step_of_wf sb xb Eb) as [Wb Db].
  pose proof (seq_parses ns p sa sb Hp Wa Wb) as HE. rewrite Da, Db in HE. cbn [Nat.max] in HE.
  (* the two operand trees are the paths P/A and P/B *)
  pose proof (xast_path_shape p abs steps Hp Hs) as HA.
  destruct (sast_pfree sa xa (Some (xast p)) Ea) as [pa Sa].
  destruct (sast_pfree sb xb (Some (xast p)) Eb) as [pb Sb].
  assert (HAa : rpath_ast abs (xa :: rev steps) (Some (sast sa (Some (xast p)))))
    by (rewrite Sa; constructor; exact HA).
  assert (HAb : rpath_ast abs (xb :: rev steps) (Some (sast sb (Some (xast p)))))
    by (rewrite Sb; constructor; exact HA).
  destruct (path_tree_builds D has_ns hcode rm rn rr Hhash re_ok abs (xa :: rev steps) _ 1 fi_nil HAa
              ltac:(discriminate)) as (q1 & pr1 & fi1 & E1 & _ & Hq1).
  { cbn [List.length]. rewrite rev_length. destruct abs; lia. }
  destruct (path_tree_builds D has_ns hcode rm rn rr Hhash re_ok abs (xb :: rev steps) _ 1 fi1 HAb
              ltac:(discriminate)) as (q2 & pr2 & fi2 & E2 & _ & Hq2).
  { cbn [List.length]. rewrite rev_length. destruct abs; lia. }
  pose proof (process_union re_ok 0 _ _ fl_none fi_nil q1 pr1 fi1 q2 pr2 fi2 E1 E2) as E.
  assert (Hcomp : forall L, lay_ok L = true -> map snd L = seq_text_toks p sa sb ++ [TEOF] ->
            compile re_ok (string_of_list (render L)) ns = Ok (QUnion q1 q2)).
  { intros L HL HM.
    eapply (compile_of_parse re_ok _ ns (seq_ast p sa sb) (QUnion q1 q2)); [|exact E|discriminate].
    apply (parse_of_ParsesE ns 1 (seq_text_toks p sa sb) _ L HE);
      [unfold seq_text_toks; destruct (xtoks p); discriminate|unfold max_depth; lia|exact HL|exact HM]. }
  exists (QUnion q1 q2). split; [exact Hcomp|]. split.
  - apply Hcomp.
    + apply fix_lay_ok; [apply ws_lay0|rewrite map_snd_lay0; exact Hok|reflexivity].
    + rewrite map_snd_fix_lay, map_app, map_snd_lay0. reflexivity.
  - intros c Hc.
    destruct (Hq1 c Hc) as (a & Ea' & Hva & Hina). destruct (Hq2 c Hc) as (b & Eb' & Hvb & Hinb).
    destruct (sel_union D has_ns hcode rm rn rr q1 q2 c a b Ea' Eb') as (u & Eu & Hnd & _ & Hok').
    assert (OK : hash_ok hcode (nodes_of a ++ nodes_of b)).
    { apply (hash_ok_incl hcode (all_nodes D)); [|exact Hhash].
      intros x Hx. apply valid_in_all_nodes. apply in_app_or in Hx. destruct Hx; auto. }
    destruct (Hok' OK) as [Hmem _].
    exists u. split; [exact Eu|]. split; [exact Hnd|]. split.
    + intros n Hn. apply Hmem in Hn. destruct Hn; auto.
    + intros n. rewrite (Hmem n), (Hina n), (Hinb n). unfold seq_den.
      assert (Hsn : forall x, P_of D has_ns abs (x :: rev steps) c n <->
                              exists m, path_den D has_ns steps (if abs then root_node else c) m /\
                                        step_rel D has_ns x m n).
      { intros x. unfold P_of. cbn [rev]. rewrite rev_involutive. apply path_den_snoc. }
      rewrite (Hsn xa), (Hsn xb). split.
      * intros [(m & Hm & H)|(m & Hm & H)]; exists m; auto.
      * intros (m & Hm & [H|H]); [left|right]; exists m; auto.
Qed.

End E2E.
Print Assumptions C11_seq_end_to_end.

(* ------------------------------------------------------------------ *)
(** * 4. Examples                                                       *)
(* ------------------------------------------------------------------ *)
Module Examples.
Import AxesSound.Examples EndToEndPaths.Examples.

(*   <a x="1" y="2"> <b>t</b> <c z="3"><d/><!--k--></c> <e/> </a>   *)
Definition hx := EndToEndPred.Examples.hash_ok_exD.
Definition pp : px := XPath PRel (RCons (st_child "a") false (ROne (SAxis AxChild NStar PNil))).
Definition s_d : xstep := st_child "d".
Definition s_z : xstep := st_attr "z".

Example seq_text : print_toks (seq_text_toks pp s_d s_z) = "a/*/(d,@z)".
Proof. vm_compute. reflexivity. Qed.

(*  a/*/(d,@z)  : the d child and the z attribute of c, each once *)
Example seq_example :
  exists q, compile Api.lit_ok "a/*/(d,@z)" None = Ok q /\
    select lit_match lit_numsubexp lit_replace_all hash_code exD true q root_node = Val [n_d; n_cz].
Proof.
  destruct (C11_seq_end_to_end exD true (hash_code exD) lit_match lit_numsubexp lit_replace_all hx Api.lit_ok None
              pp false (snd (steps_of pp)) s_d s_z
              (mkStep Child (name_t "d")) (mkStep Attribute (mkTest NTAttr "" "z" false "")))
    as (q & _ & C & _).
  - apply path_syntax_b_ok. vm_compute. reflexivity.
  - vm_compute. reflexivity.
  - vm_compute. reflexivity.
  - vm_compute. reflexivity.
  - vm_compute. reflexivity.
  - vm_compute. lia.
  - rewrite seq_text in C. exists q. split; [exact C|].
    vm_compute in C. inversion C; subst q. vm_compute. reflexivity.
Qed.

(* with spaces: the same compiled query *)
Example seq_spaces :
  compile Api.lit_ok "a/*/( d , @z )" None = compile Api.lit_ok "a/*/(d,@z)" None.
Proof. vm_compute. reflexivity. Qed.

End Examples.
