(* Extract.v — extraction of the executable model to OCaml.
   ExtrOcamlBasic: bool, option, unit, list, prod, sumbool, sumor -> OCaml's.
   ExtrOcamlString: ascii -> char, string -> char list.
   nat, positive, N, Z and spec_float stay extracted inductive datatypes. *)
From Coq Require Extraction.
From Coq Require Import ExtrOcamlBasic ExtrOcamlString.
From XP Require Import Base F64 Doc Ast Scan Parse Build Hash Eval Api Render Driver.
From XP.Model1 Require Import Driver3.
Extraction Language OCaml.
Extraction "model.ml" run_sel run_eval run_sel_all run_eval_all run_sel3_all run_eval3_all run_compile run_parse run_qdump run_hash run_cache_str run_nav run_num run_fmt
  mkNode mkAttr T KRoot KElem KText KComment.
