(* Parse.v — the recursive-descent parser of parse.go, one function per Go
   function, explicit fuel for the loops and the two recursive entry points
   (parseExpression, parseStep).  Definitions only. *)
From XP Require Import Base F64 Doc Ast Scan.
Open Scope nat_scope.
Open Scope list_scope.

Record pst := mkP { p_s : sstate; p_d : nat }.
Definition PR (A : Type) := cres (A * pst).

Definition nsmap := option (list (string * string)).   (* nil map / map *)

Fixpoint ns_lookup (m : list (string * string)) (k : string) : option string :=
  match m with
  | [] => None
  | (a, b) :: r => if String.eqb a k then Some b else ns_lookup r k
  end.

Definition typ (st : pst) : itype := s_typ (p_s st).
Definition is_typ (st : pst) (t : itype) : bool := itype_eqb (typ st) t.

(* p.next() *)
Definition pnext (st : pst) : cres pst :=
  let* s' := next_item (p_s st) in Ok (mkP s' (p_d st)).

Definition check_item (st : pst) (t : itype) : cres unit :=
  if is_typ st t then Ok tt else Err "has an invalid token".

Definition skip_item (st : pst) (t : itype) : cres pst :=
  let* _ := check_item st t in pnext st.

Definition test_op (st : pst) (op : string) : bool :=
  andb (is_typ st IName) (andb (String.eqb (s_prefix (p_s st)) "") (String.eqb (s_name (p_s st)) op)).

Definition is_node_type (st : pst) : bool :=
  let nm := s_name (p_s st) in
  if orb (orb (String.eqb nm "node") (String.eqb nm "text"))
         (orb (String.eqb nm "processing-instruction") (String.eqb nm "comment"))
  then String.eqb (s_prefix (p_s st)) "" else false.

Definition is_primary_expr (st : pst) : bool :=
  match typ st with
  | IString | INumber | IDollar | ILParens => true
  | IName => andb (s_canfunc (p_s st)) (negb (is_node_type st))
  | _ => false
  end.

Definition is_step (t : itype) : bool :=
  match t with
  | IDot | IDotDot | IAt | IAxe | IStar | IName => true
  | _ => false
  end.

Definition dos_node (input : option anode) : anode :=
  AAxis "descendant-or-self" NTAll "" "" "" false "" input.

(* a left-associative binary level: opnd := sub; for { op? ; next ; opnd = Op(op, opnd, sub) } *)
Fixpoint bin_loop (fuel : nat) (getop : pst -> option string)
         (sub : pst -> PR anode) (acc : anode) (st : pst) : PR anode :=
  match fuel with
  | 0 => OutOfFuel
  | S f =>
    match getop st with
    | None => Ok (acc, st)
    | Some op =>
      let* st1 := pnext st in
      let* (r, st2) := sub st1 in
      bin_loop f getop sub (AOp op acc r) st2
    end
  end.

Definition bin_level (fuel : nat) (getop : pst -> option string)
           (sub : pst -> PR anode) (st : pst) : PR anode :=
  let* (a, st1) := sub st in bin_loop fuel getop sub a st1.

Definition op_or (st : pst) : option string := if test_op st "or" then Some "or" else None.
Definition op_and (st : pst) : option string := if test_op st "and" then Some "and" else None.
Definition op_eq (st : pst) : option string :=
  match typ st with IEq => Some "=" | INe => Some "!=" | _ => None end.
Definition op_rel (st : pst) : option string :=
  match typ st with ILt => Some "<" | IGt => Some ">" | ILe => Some "<=" | IGe => Some ">=" | _ => None end.
Definition op_add (st : pst) : option string :=
  match typ st with IPlus => Some "+" | IMinus => Some "-" | _ => None end.
Definition op_mul (st : pst) : option string :=
  if is_typ st IStar then Some "*"
  else if orb (test_op st "div") (test_op st "mod") then Some (s_name (p_s st)) else None.
Definition op_union (st : pst) : option string := if is_typ st IUnion then Some "|" else None.

(* for p.r.typ == itemMinus { next; minus = !minus } *)
Fixpoint minus_loop (fuel : nat) (minus : bool) (st : pst) : cres (bool * pst) :=
  match fuel with
  | 0 => OutOfFuel
  | S f => if is_typ st IMinus then let* st1 := pnext st in minus_loop f (negb minus) st1
           else Ok (minus, st)
  end.

(* parseNodeTest *)
Definition parse_node_test (ns : nsmap) (n : option anode) (axis : string) (mt : ntype) (st : pst) : PR anode :=
  match typ st with
  | IName =>
    if andb (s_canfunc (p_s st)) (is_node_type st) then
      let prop := s_name (p_s st) in
      let* st1 := pnext st in
      let* st2 := skip_item st1 ILParens in
      let* (name, st3) :=
         (if andb (String.eqb prop "processing-instruction") (negb (is_typ st2 IRParens)) then
            let* _ := check_item st2 IString in
            let nm := s_strval (p_s st2) in
            let* st' := pnext st2 in Ok (nm, st')
          else Ok ("", st2)) in
      let* st4 := skip_item st3 IRParens in
      let mt' := if String.eqb prop "comment" then NTComment
                 else if String.eqb prop "text" then NTText
                 else if String.eqb prop "processing-instruction" then mt
                 else NTAll in
      Ok (AAxis axis mt' "" name prop false "" n, st4)
    else
      let prefix := s_prefix (p_s st) in
      let name0 := s_name (p_s st) in
      let* st1 := pnext st in
      let name := if String.eqb (s_name (p_s st1)) "*" then "" else name0 in
      if andb (negb (String.eqb prefix "")) (match ns with Some _ => true | None => false end) then
        match ns with
        | Some m =>
          match ns_lookup m prefix with
          | Some uri => Ok (AAxis axis mt prefix name "" true uri n, st1)
          | None => Err "prefix not defined."
          end
        | None => Ok (AAxis axis mt prefix name "" false "" n, st1)
        end
      else Ok (AAxis axis mt prefix name "" false "" n, st1)
  | IStar =>
    let* st1 := pnext st in Ok (AAxis axis mt "" "" "" false "" n, st1)
  | _ => Err "expression must evaluate to a node-set"
  end.

Inductive entry := EExpr | EStep.

Section Parser.
Variable ns : nsmap.

(* predicates: for p.r.typ == itemLBracket { opnd = newFilterNode(opnd, parsePredicate(opnd)) } *)
Fixpoint pred_loop (fuel : nat) (pexpr : option anode -> pst -> PR anode) (acc : anode) (st : pst) : PR anode :=
  match fuel with
  | 0 => OutOfFuel
  | S f =>
    if is_typ st ILBracket then
      let* st1 := skip_item st ILBracket in
      let* (c, st2) := pexpr (Some acc) st1 in
      let* st3 := skip_item st2 IRBracket in
      pred_loop f pexpr (AFilter acc c) st3
    else Ok (acc, st)
  end.

(* parseRelativeLocationPath *)
Fixpoint relpath_loop (fuel : nat) (pstep : option anode -> pst -> PR anode) (n : option anode) (st : pst) : PR anode :=
  match fuel with
  | 0 => OutOfFuel
  | S f =>
    let* (o, st1) := pstep n st in
    match typ st1 with
    | ISlashSlash => let* st2 := pnext st1 in relpath_loop f pstep (Some (dos_node (Some o))) st2
    | ISlash => let* st2 := pnext st1 in relpath_loop f pstep (Some o) st2
    | _ => Ok (o, st1)
    end
  end.

(* for { if typ != comma break; next; opnd2 = parseStep(n); opnd = Op("|", opnd, opnd2) } *)
Fixpoint seq_loop (fuel : nat) (pstep : option anode -> pst -> PR anode) (n : option anode) (acc : anode) (st : pst) : PR anode :=
  match fuel with
  | 0 => OutOfFuel
  | S f =>
    if is_typ st IComma then
      let* st1 := pnext st in
      let* (o2, st2) := pstep n st1 in
      seq_loop f pstep n (AOp "|" acc o2) st2
    else Ok (acc, st)
  end.

(* for { args = append(args, parseExpression(n)); if typ == ')' break; skipItem(',') } *)
Fixpoint args_loop (fuel : nat) (pexpr : option anode -> pst -> PR anode) (acc : list anode) (st : pst) : PR (list anode) :=
  match fuel with
  | 0 => OutOfFuel
  | S f =>
    let* (a, st1) := pexpr None st in
    if is_typ st1 IRParens then Ok (acc ++ [a], st1)
    else let* st2 := skip_item st1 IComma in args_loop f pexpr (acc ++ [a]) st2
  end.

Definition is_operand (a : anode) : bool :=
  match a with ANum _ | AStr _ => true | _ => false end.

Definition max_depth : nat := 200.

Fixpoint pgo (fuel : nat) (what : entry) (n : option anode) (st : pst) : PR anode :=
  match fuel with
  | 0 => OutOfFuel
  | S f =>
    let pexpr := pgo f EExpr in
    let pstep := pgo f EStep in
    match what with
    | EStep =>
      (* parseStep *)
      if orb (is_typ st IDot) (is_typ st IDotDot) then
        let o := if is_typ st IDot then AAxis "self" NTAll "" "" "" false "" n
                 else AAxis "parent" NTAll "" "" "" false "" n in
        let* st1 := pnext st in
        if is_typ st1 ILBracket then pred_loop f pexpr o st1 else Ok (o, st1)
      else
        match typ st with
        | ILParens =>
          (* parseSequence *)
          let d := S (p_d st) in
          if Nat.ltb max_depth d then Err "the xpath query is too complex(depth > 200)"
          else
            let st0 := mkP (p_s st) d in
            let* st1 := skip_item st0 ILParens in
            let* (o, st2) := pstep n st1 in
            let* (o', st3) := seq_loop f pstep n o st2 in
            let* st4 := skip_item st3 IRParens in
            Ok (o', mkP (p_s st4) (p_d st4 - 1))
        | _ =>
          let* (axis, st1) :=
             match typ st with
             | IAt => let* st' := pnext st in Ok ("attribute", st')
             | IAxe => let nm := s_name (p_s st) in let* st' := pnext st in Ok (nm, st')
             | _ => Ok ("child", st)
             end in
          let mt := if String.eqb axis "attribute" then NTAttr else NTElem in
          let* (o, st2) := parse_node_test ns n axis mt st1 in
          pred_loop f pexpr o st2
        end
    | EExpr =>
      (* parseExpression *)
      let d := S (p_d st) in
      if Nat.ltb max_depth d then Err "the xpath query is too complex(depth > 200)"
      else
        let st0 := mkP (p_s st) d in
        (* parsePrimaryExpr *)
        let primary (n : option anode) (st : pst) : PR anode :=
          match typ st with
          | IString => let v := s_strval (p_s st) in let* st1 := pnext st in Ok (AStr v, st1)
          | INumber => let v := s_numval (p_s st) in let* st1 := pnext st in Ok (ANum v, st1)
          | IDollar =>
            let* st1 := pnext st in
            let* _ := check_item st1 IName in
            let v := AVar (s_prefix (p_s st1)) (s_name (p_s st1)) in
            let* st2 := pnext st1 in Ok (v, st2)
          | ILParens =>
            let* st1 := pnext st in
            let* (o, st2) := pexpr n st1 in
            let o' := if is_operand o then o else AGroup o in
            let* st3 := skip_item st2 IRParens in Ok (o', st3)
          | _ =>
            (* itemName with canBeFunc && !isNodeType: parseMethod(nil) *)
            let name := s_name (p_s st) in
            let prefix := s_prefix (p_s st) in
            let* st1 := skip_item st IName in
            let* st2 := skip_item st1 ILParens in
            let* (args, st3) :=
               (if is_typ st2 IRParens then Ok ([], st2) else args_loop f pexpr [] st2) in
            let* st4 := skip_item st3 IRParens in
            Ok (AFunc prefix name args, st4)
          end in
        (* parseFilterExpr *)
        let filter_expr (n : option anode) (st : pst) : PR anode :=
          let* (o, st1) := primary n st in
          pred_loop f pexpr o st1 in
        (* parseLocationPath(nil) *)
        let location_path (st : pst) : PR anode :=
          match typ st with
          | ISlash =>
            let* st1 := pnext st in
            if is_step (typ st1) then relpath_loop f pstep (Some (ARoot "/")) st1
            else Ok (ARoot "/", st1)
          | ISlashSlash =>
            let* st1 := pnext st in
            relpath_loop f pstep (Some (dos_node (Some (ARoot "//")))) st1
          | _ => relpath_loop f pstep None st
          end in
        (* parsePathExpr *)
        let path_expr (n : option anode) (st : pst) : PR anode :=
          if is_primary_expr st then
            let* (o, st1) := filter_expr n st in
            match typ st1 with
            | ISlash => let* st2 := pnext st1 in relpath_loop f pstep (Some o) st2
            | ISlashSlash => let* st2 := pnext st1 in relpath_loop f pstep (Some (dos_node (Some o))) st2
            | _ => Ok (o, st1)
            end
          else location_path st in
        let union_expr (n : option anode) := bin_level f op_union (path_expr n) in
        let unary_expr (n : option anode) (st : pst) : PR anode :=
          let* (minus, st1) := minus_loop f false st in
          let* (o, st2) := union_expr n st1 in
          Ok (if minus then AOp "*" o (ANum fminus_one) else o, st2) in
        let mul_expr (n : option anode) := bin_level f op_mul (unary_expr n) in
        let add_expr (n : option anode) := bin_level f op_add (mul_expr n) in
        let rel_expr (n : option anode) := bin_level f op_rel (add_expr n) in
        let eq_expr (n : option anode) := bin_level f op_eq (rel_expr n) in
        let and_expr (n : option anode) := bin_level f op_and (eq_expr n) in
        let or_expr (n : option anode) := bin_level f op_or (and_expr n) in
        let* (o, st1) := or_expr n st0 in
        Ok (o, mkP (p_s st1) (p_d st1 - 1))
    end
  end.

End Parser.

(* parse(expr, namespaces) with the fuel made explicit *)
Definition parse_fuel (fuel : nat) (text : string) (ns : nsmap) : cres anode :=
  let s0 := init_scanner text in
  let* s1 := next_item s0 in
  let* (a, st) := pgo ns fuel EExpr None (mkP s1 0) in
  let* _ := check_item st IEOF in
  Ok a.

Definition default_fuel (text : string) : nat := 2 * String.length text + 8.

Definition parse (text : string) (ns : nsmap) : cres anode :=
  parse_fuel (default_fuel text) text ns.
